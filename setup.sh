#!/bin/sh
# Offline setup: the framework is pure Python on /venv (which already has numqi's dependencies); nothing is fetched or built.
# Validates that the interpreter, the dependencies and the repository import.
set -e
cd "$(dirname "$0")"
/venv/bin/python - <<'PY'
import sys, os
sys.path.insert(0, os.getcwd())
import numpy, scipy, torch, cvxpy
from vmon import core
nq = core.import_numqi()
print('setup ok: python', sys.version.split()[0], 'numpy', numpy.__version__, 'torch', torch.__version__, 'numqi from', os.path.dirname(nq.__file__))
PY
