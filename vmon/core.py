"""Core of the monitoring framework: the per-shard context (`Ctx`).

A `Ctx` owns
  * the attach machinery (wrap a numqi callable at every binding site, count evaluations),
  * the violation log (mechanism key, witness, current case, shard),
  * the three-valued bookkeeping (evaluations / violations / inconclusive by reason),
  * the coverage bookkeeping (hits per observation point, distinct non-trivial case digests, samples).

Conditions *record and return*; they never raise inside library code.
"""
import functools
import hashlib
import json
import os
import sys
import time
import traceback
import types
import contextlib

import numpy as np

MAX_WITNESS_PER_KEY = 3
MAX_SAMPLES = 12


def numqi_src():
    return os.path.realpath(os.environ.get('NUMQI_SRC', '/repo/python'))


def import_numqi():
    """import numqi from $NUMQI_SRC (default /repo/python): always the current working tree."""
    src = numqi_src()
    if src not in sys.path:
        sys.path.insert(0, src)
    import numqi
    real = os.path.realpath(numqi.__file__)
    if not real.startswith(src):
        raise RuntimeError(f'numqi imported from {real}, expected under {src}')
    return numqi


def to_numpy(x):
    try:
        import torch
        if isinstance(x, torch.Tensor):
            return x.detach().cpu().numpy()
    except ImportError:  # pragma: no cover
        pass
    return np.asarray(x)


def digest(*objs):
    h = hashlib.sha1()
    for o in objs:
        _digest_into(h, o)
    return h.hexdigest()[:16]


def _digest_into(h, o):
    try:
        import torch
        if isinstance(o, torch.Tensor):
            o = o.detach().cpu().numpy()
    except ImportError:  # pragma: no cover
        pass
    if isinstance(o, np.ndarray):
        h.update(str(o.dtype).encode())
        h.update(str(o.shape).encode())
        h.update(np.ascontiguousarray(o).tobytes())
    elif isinstance(o, (list, tuple)):
        h.update(b'[')
        for x in o:
            _digest_into(h, x)
        h.update(b']')
    elif isinstance(o, dict):
        for k in sorted(o, key=repr):
            h.update(repr(k).encode())
            _digest_into(h, o[k])
    else:
        h.update(repr(o).encode())


def jsonable(o, maxlen=48, _depth=0):
    """best-effort conversion of a witness to JSON (arrays truncated)."""
    try:
        import torch
        if isinstance(o, torch.Tensor):
            o = o.detach().cpu().numpy()
    except ImportError:  # pragma: no cover
        pass
    if _depth > 6:
        return repr(o)[:200]
    if isinstance(o, np.ndarray):
        flat = o.reshape(-1)
        d = {'shape': list(o.shape), 'dtype': str(o.dtype)}
        part = flat[:maxlen]
        if np.iscomplexobj(part):
            d['data'] = [[float(x.real), float(x.imag)] for x in part]
        elif part.dtype.kind in 'iub':
            d['data'] = [int(x) for x in part]
        elif part.dtype.kind == 'f':
            d['data'] = [float(x) for x in part]
        else:
            d['data'] = [repr(x) for x in part]
        if flat.size > maxlen:
            d['truncated'] = int(flat.size)
        return d
    if isinstance(o, (np.integer,)):
        return int(o)
    if isinstance(o, (np.floating,)):
        return float(o)
    if isinstance(o, (np.complexfloating, complex)):
        return [float(o.real), float(o.imag)]
    if isinstance(o, (np.bool_,)):
        return bool(o)
    if isinstance(o, (str, int, float, bool)) or o is None:
        if isinstance(o, float) and (o != o or o in (float('inf'), float('-inf'))):
            return repr(o)
        return o
    if isinstance(o, dict):
        return {str(k): jsonable(v, maxlen, _depth + 1) for k, v in list(o.items())[:64]}
    if isinstance(o, (list, tuple, set, frozenset)):
        o = list(o)
        ret = [jsonable(v, maxlen, _depth + 1) for v in o[:maxlen]]
        if len(o) > maxlen:
            ret.append(f'... ({len(o)} items)')
        return ret
    return repr(o)[:300]


class Call:
    __slots__ = ('args', 'kwargs', 'result', 'exc', 'snap', 'func', 'point')

    def __init__(self, func, point, args, kwargs):
        self.func = func
        self.point = point
        self.args = args
        self.kwargs = kwargs
        self.result = None
        self.exc = None
        self.snap = None

    def arg(self, index, name, default=None):
        if name in self.kwargs:
            return self.kwargs[name]
        if index is not None and index < len(self.args):
            return self.args[index]
        return default


class Ctx:
    def __init__(self, prop, tier, seed, shard):
        self.prop = prop
        self.tier = tier
        self.seed = int(seed)
        self.shard = shard
        self.shard_name = shard.get('name', 'main')
        # thorough tier: the runner may run a shard several times ("replicas") with independent random streams; replica 0 is the plain shard
        self.replica = int(shard.get('replica', 0))
        ss = np.random.SeedSequence([self.seed, int(hashlib.sha1(self.shard_name.encode()).hexdigest()[:8], 16)] + ([self.replica] if self.replica else []))
        self.rng = np.random.default_rng(ss)
        self.evaluations = 0
        self.hits = {}
        self.attached_points = set()  # every point a contract was attached to (zero-hit ones are reported by the runner)
        self.violations = {}  # key -> {count, what, witnesses:[...]}
        self.inconclusive_count = {}
        self.workload_classes = {}
        self.case_digests = set()
        self.case_total = 0
        self.samples = []
        self.extra = {}
        self.harness_errors = []
        self._case = None
        self._quiet = 0
        self._attached = []  # (owner, name, original)
        self._orig = {}
        self.t0 = time.time()
        self.deadline = None
        self.partial_path = None  # set by the runner: violations are flushed here as soon as they are first seen, so that a
        self._last_dump = 0.0     # shard killed by the watchdog (or crashing) still reports what its monitors observed

    # ------------------------------------------------------------------ bookkeeping
    def hit(self, point, n=1):
        self.hits[point] = self.hits.get(point, 0) + n

    def set_case(self, desc):
        """describe the case currently executed (kept in witnesses for replay / reading)."""
        self._case = desc

    def case(self, *digest_src, nontrivial=True, sample=None):
        """count one explored case; `nontrivial` by the property's stated rule; digest decides distinctness."""
        self.case_total += 1
        if nontrivial:
            self.case_digests.add(digest(*digest_src))
        if sample is not None and len(self.samples) < MAX_SAMPLES:
            self.samples.append(jsonable(sample))

    def sample(self, obj):
        if len(self.samples) < MAX_SAMPLES:
            self.samples.append(jsonable(obj))

    def workload(self, cls, n=1):
        self.workload_classes[cls] = self.workload_classes.get(cls, 0) + n

    def inconclusive(self, reason, n=1):
        self.inconclusive_count[reason] = self.inconclusive_count.get(reason, 0) + n

    def violation(self, key, what, witness=None):
        key = f'{self.prop}/{key}'
        rec = self.violations.get(key)
        new = rec is None
        if new:
            rec = {'key': key, 'count': 0, 'what': what, 'witnesses': []}
            self.violations[key] = rec
        rec['count'] += 1
        if len(rec['witnesses']) < MAX_WITNESS_PER_KEY:
            rec['witnesses'].append({'what': what, 'case': jsonable(self._case), 'witness': jsonable(witness),
                                     'shard': self.shard})
        if new:
            self.dump_partial()

    def dump_partial(self):
        if self.partial_path is None:
            return
        try:
            res = self.result()
            res['partial'] = True
            tmp = self.partial_path + '.tmp'
            with open(tmp, 'w') as f:
                json.dump(res, f)
            os.replace(tmp, self.partial_path)
            self._last_dump = time.time()
        except Exception:  # pragma: no cover - never let bookkeeping disturb the workload
            pass

    def check(self, cond, key, what, witness=None, point=None):
        """one monitor-condition evaluation. Returns bool(cond)."""
        self.evaluations += 1
        if point is not None:
            self.hit(point)
        if self.partial_path is not None and (self.evaluations & 1023) == 0 and time.time() - self._last_dump > 30:
            self.dump_partial()
        try:
            ok = bool(cond)
        except Exception:  # ambiguous truth value etc. -> harness bug
            self.harness_error('check:' + key)
            return True
        if not ok:
            if callable(witness):
                try:
                    witness = witness()
                except Exception as e:  # pragma: no cover
                    witness = f'<witness failed: {e!r}>'
            self.violation(key, what, witness)
        return ok

    def close(self, a, b, tol, key, what, witness=None, point=None):
        """|a-b|_max <= tol (shape mismatch or non-finite is a failure)."""
        a = to_numpy(a)
        b = to_numpy(b)
        if a.shape != b.shape:
            return self.check(False, key + '/shape', f'{what}: shape {a.shape} vs reference {b.shape}', witness, point)
        if a.size == 0:
            return self.check(True, key, what, None, point)
        with np.errstate(all='ignore'):
            err = np.abs(a.astype(np.complex128) - b.astype(np.complex128)).max()
        ok = bool(np.isfinite(err)) and err <= tol
        if ok:  # worst accepted error per key, reported in the evidence
            w = self.extra.setdefault('worst_accepted_err', {})
            if err > w.get(key, -1.0):
                w[key] = float(err)
        if not ok:
            w = {'max_abs_err': float(err) if np.isfinite(err) else repr(err), 'tol': float(tol), 'got': jsonable(a, 16),
                 'expected': jsonable(b, 16)}
            if witness is not None:
                w['context'] = jsonable(witness() if callable(witness) else witness)
            return self.check(False, key, what, w, point)
        return self.check(True, key, what, None, point)

    def harness_error(self, where):
        self.harness_errors.append({'where': where, 'case': jsonable(self._case), 'traceback': traceback.format_exc()[-3000:]})

    @contextlib.contextmanager
    def guard(self, key):
        """run one case; an exception escaping from numqi code is a violation `<key>/raises/<Type>`;
        an exception raised purely inside the harness is a harness error (broken check, never a verdict)."""
        try:
            yield
        except Exception as e:
            tb = e.__traceback__
            in_numqi = False
            src = numqi_src()
            last = None
            for fs, _ in traceback.walk_tb(tb):
                fn = os.path.realpath(fs.f_code.co_filename)
                if fn.startswith(src):
                    in_numqi = True
                    last = f'{os.path.relpath(fn, src)}:{fs.f_code.co_name}'
            if in_numqi:
                self.evaluations += 1
                self.violation(f'{key}/raises/{type(e).__name__}', f'{key}: raised {type(e).__name__}: {str(e)[:200]}',
                               {'exception': repr(e)[:500], 'innermost_numqi_frame': last})
            else:
                self.harness_error('guard:' + key)

    def time_left(self):
        if self.deadline is None:
            return float('inf')
        return self.deadline - time.time()

    # ------------------------------------------------------------------ attach
    @contextlib.contextmanager
    def quiet(self):
        """monitors re-invoking library code do not observe themselves."""
        self._quiet += 1
        try:
            yield
        finally:
            self._quiet -= 1

    def orig(self, func):
        """the unwrapped original of a wrapped callable (or func itself)."""
        return getattr(func, '__vmon_orig__', func)

    @staticmethod
    def _array_args(args, kwargs):
        out = []
        for i, a in list(enumerate(args)) + list(kwargs.items()):
            if isinstance(a, np.ndarray) or (hasattr(a, 'detach') and hasattr(a, 'numpy')):
                out.append((i, a))
            elif isinstance(a, (list, tuple)) and a and all(isinstance(x, np.ndarray) for x in a):
                for j, x in enumerate(a):
                    out.append((f'{i}[{j}]', x))
        return out

    def history_probe(self, key, f, *args, **kwargs):
        """history monitor for a pure function: call, edit the returned arrays in place, call again with the same arguments: the
        second result must equal the first one as returned (a result that aliases a cache / an earlier result, or state left over
        from the first call, shows here). Returns the second result."""
        def arrays(r):
            if isinstance(r, np.ndarray):
                return [r]
            if isinstance(r, (tuple, list)):
                return [x for y in r for x in arrays(y)]
            return []
        r1 = f(*args, **kwargs)
        a1 = arrays(r1)
        snaps = [x.copy() for x in a1]
        for x in a1:
            if x.flags.writeable and x.size:
                try:
                    x[...] = 7 if x.dtype.kind in 'iub' else x * 0.5 + 3
                except Exception:
                    pass
        r2 = f(*args, **kwargs)
        a2 = arrays(r2)
        ok = len(a2) == len(snaps) and all(x.shape == y.shape and np.array_equal(x, y, equal_nan=True) if x.dtype.kind in 'iubU' else
                                            (x.shape == y.shape and np.allclose(x, y, rtol=1e-12, atol=1e-14, equal_nan=True)) for x, y in zip(a2, snaps))
        self.check(ok, f'{key}/second-call-differs-after-editing-first-result',
                   f'{key}: calling again with the same arguments after the caller edited the first result in place gives a different answer '
                   '(the result aliases a cache or state is left over from the first call)', None, point='history/edit-result-then-call-again')
        return r2

    def attach(self, owner, name, post=None, pre=None, point=None, immutable_args=False, normalize=False):
        """wrap `owner.name` (module function or class method) and rebind every `numqi*` module attribute that
        *is* the original. `pre(call)` may return a snapshot (stored in call.snap); `post(call)` is evaluated after the
        call (also when it raised: call.exc). Both run in quiet mode. Returns the wrapper."""
        original = owner.__dict__[name] if isinstance(owner, type) else getattr(owner, name)
        kind = None
        func = original
        if isinstance(original, staticmethod):
            kind, func = 'static', original.__func__
        elif isinstance(original, classmethod):
            kind, func = 'class', original.__func__
        elif isinstance(original, property):
            kind, func = 'property', original.fget
        if getattr(func, '__vmon_orig__', None) is not None:
            raise RuntimeError(f'{name} already attached')
        point = point or f'{getattr(owner, "__name__", owner)}.{name}'
        self.attached_points.add(point)
        ctx = self
        sig = None
        if normalize:
            # monitors see the call with every argument bound by NAME and listed in signature order (defaults applied), so a
            # keyword call, a positional call and a call relying on defaults all look the same to the contract. The function
            # itself is always invoked with the caller's original args/kwargs.
            import inspect
            try:
                sig = inspect.signature(func)
            except (TypeError, ValueError):
                sig = None

        def normalized(args, kwargs):
            import inspect
            ba = sig.bind(*args, **kwargs)
            ba.apply_defaults()
            nargs, nkw = [], {}
            for pname, prm in sig.parameters.items():
                v = ba.arguments[pname]
                if prm.kind in (inspect.Parameter.POSITIONAL_ONLY, inspect.Parameter.POSITIONAL_OR_KEYWORD):
                    nargs.append(v)
                elif prm.kind == inspect.Parameter.VAR_POSITIONAL:
                    nargs.extend(v)
                elif prm.kind == inspect.Parameter.KEYWORD_ONLY:
                    nkw[pname] = v
                else:
                    nkw.update(v)
            return tuple(nargs), nkw

        @functools.wraps(func)
        def wrapper(*args, **kwargs):
            if ctx._quiet:
                return func(*args, **kwargs)
            call = Call(func, point, args, kwargs)
            if sig is not None:
                try:
                    call.args, call.kwargs = normalized(args, kwargs)
                except TypeError:
                    pass  # the call is malformed: the function itself will raise
            ctx.hit(point)
            arg_digests = None
            if immutable_args and (immutable_args is True or ctx.hits[point] % int(immutable_args) == 0):  # int n: sample every n-th call
                try:
                    arg_digests = [(i, a, digest(a)) for i, a in ctx._array_args(args, kwargs)]
                except Exception:
                    arg_digests = None
            if pre is not None:
                with ctx.quiet():
                    try:
                        call.snap = pre(call)
                    except Exception:
                        ctx.harness_error('pre:' + point)
            try:
                call.result = func(*args, **kwargs)
            except Exception as e:
                call.exc = e
                if post is not None:
                    with ctx.quiet():
                        try:
                            post(call)
                        except Exception:
                            ctx.harness_error('post:' + point)
                raise
            if arg_digests:
                for i, a, d in arg_digests:
                    try:
                        same = digest(a) == d
                    except Exception:
                        same = True
                    ctx.check(same, f'{point.split(".")[-1]}/mutates-argument', f'{point} modified its array argument {i} in place',
                              {'argument': i}, point='history/argument-not-mutated')
            if post is not None:
                with ctx.quiet():
                    try:
                        post(call)
                    except Exception:
                        ctx.harness_error('post:' + point)
            return call.result

        wrapper.__vmon_orig__ = func
        new = wrapper
        if kind == 'static':
            new = staticmethod(wrapper)
        elif kind == 'class':
            new = classmethod(wrapper)
        elif kind == 'property':
            new = property(wrapper, original.fset, original.fdel, original.__doc__)
        if isinstance(owner, type):
            setattr(owner, name, new)
            self._attached.append((owner, name, original))
        else:
            n = 0
            for modname, mod in list(sys.modules.items()):
                if mod is None or not (modname == 'numqi' or modname.startswith('numqi.')):
                    continue
                for attr, val in list(vars(mod).items()):
                    if val is original:
                        setattr(mod, attr, new)
                        self._attached.append((mod, attr, original))
                        n += 1
            if n == 0:
                setattr(owner, name, new)
                self._attached.append((owner, name, original))
        return wrapper

    def detach_all(self):
        for owner, name, original in reversed(self._attached):
            setattr(owner, name, original)
        self._attached = []

    # ------------------------------------------------------------------ result
    def result(self):
        digests = sorted(self.case_digests)
        return {
            'shard': self.shard,
            'evaluations': self.evaluations,
            'hits': self.hits,
            'attached_points': sorted(self.attached_points),
            'violations': list(self.violations.values()),
            'inconclusive': self.inconclusive_count,
            'workload_classes': self.workload_classes,
            'case_total': self.case_total,
            'case_digests': digests if len(digests) <= 300000 else None,
            'case_distinct': len(digests),
            'samples': self.samples,
            'extra': jsonable(self.extra, maxlen=200),
            'harness_errors': self.harness_errors[:5],
            'n_harness_errors': len(self.harness_errors),
            'wall_s': time.time() - self.t0,
        }
