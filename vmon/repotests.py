"""Run selected files of the repository's own test-suite in-process with the monitors attached (workload class 5 of DESIGN.md).

A failing repository assertion is *inconclusive* (it is the repository's test, not our oracle); a contract that fires while the
tests drive the library is a violation like any other. Unseeded `np.random.default_rng()` calls made by the tests are derived from
the shard generator so that a run is reproducible from VERIF_SEED.
"""
import contextlib
import io
import os

import numpy as np


def tests_dir():
    src = os.path.realpath(os.environ.get('NUMQI_SRC', '/repo/python'))
    d = os.path.join(os.path.dirname(src), 'tests')
    return d if os.path.isdir(d) else '/repo/tests'


def run_repo_tests(ctx, files, extra_args=()):
    import pytest
    tdir = tests_dir()
    paths = [os.path.join(tdir, f) for f in files]
    ctx.workload('repo-tests', len(paths))
    before = dict(ctx.hits)
    orig = np.random.default_rng

    def seeded_default_rng(seed=None, *a, **k):
        if seed is None:
            seed = int(ctx.rng.integers(2**63))
        return orig(seed, *a, **k)

    buf = io.StringIO()
    np.random.default_rng = seeded_default_rng
    try:
        with contextlib.redirect_stdout(buf):
            rc = pytest.main(['-q', '-p', 'no:cacheprovider', '--rootdir', tdir, '-o', 'addopts=', '--timeout=1500'] + list(extra_args) + paths)
    finally:
        np.random.default_rng = orig
    new_hits = {k: v - before.get(k, 0) for k, v in ctx.hits.items() if v - before.get(k, 0) > 0}
    ctx.extra['repo_tests'] = {'files': files, 'exit_code': int(rc), 'tail': buf.getvalue()[-300:], 'monitor_hits_during_tests': new_hits}
    ctx.set_case({'kind': 'repo-tests', 'files': files})
    ctx.case('repo-tests', files, nontrivial=bool(new_hits))
    if int(rc) != 0:
        ctx.inconclusive('repo-tests/pytest-exit-nonzero')
    if not new_hits:
        ctx.inconclusive('repo-tests/no-monitor-reached')
    return int(rc)
