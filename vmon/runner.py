"""CLI / orchestration: fan a property's shards out to sub-processes, merge, classify, write evidence.

  ./check C07 --tier quick            run the check (exit 0 held / 1 violation / 2 broken-or-inconclusive)
  ./check C07 --replay replay/C07/x.json
  ./check --list
Internal: ./check --shard-run <prop> <tier> <seed> <shard.json> <out.json>
"""
import argparse
import concurrent.futures
import hashlib
import importlib
import json
import os
import subprocess
import sys
import tempfile
import time
import traceback

VERIF = os.path.dirname(os.path.dirname(os.path.abspath(__file__)))
PY = sys.executable
PROPS = [f'C{i:02d}' for i in range(1, 21)]


def load_prop(prop):
    return importlib.import_module(f'vmon.props.{prop.lower()}')


def repo_head():
    try:
        root = os.path.dirname(os.path.realpath(os.environ.get('NUMQI_SRC', '/repo/python')))
        out = subprocess.run(['git', '-C', root, 'rev-parse', 'HEAD'], capture_output=True, text=True, timeout=20)
        dirty = subprocess.run(['git', '-C', root, 'status', '--porcelain', '--untracked-files=no'], capture_output=True,
                               text=True, timeout=20)
        return out.stdout.strip() + ('+dirty' if dirty.stdout.strip() else '')
    except Exception:
        return 'unknown'


def shard_env():
    env = dict(os.environ)
    env.update({'PYTHONHASHSEED': '0', 'OMP_NUM_THREADS': '1', 'MKL_NUM_THREADS': '1', 'OPENBLAS_NUM_THREADS': '1',
                'NUMQI_VERIF': '1', 'PYTHONDONTWRITEBYTECODE': '1'})
    env['PYTHONPATH'] = VERIF + os.pathsep + env.get('PYTHONPATH', '')
    return env


def run_shard_inprocess(prop, tier, seed, shard, partial_path=None):
    from vmon import core
    import random
    import numpy as np
    mod = load_prop(prop)
    ctx = core.Ctx(prop, tier, seed, shard)
    ctx.partial_path = partial_path
    s = int(hashlib.sha1((f'{seed}/{shard.get("name")}' + (f'#r{shard["replica"]}' if shard.get('replica') else '')).encode()).hexdigest()[:8], 16)
    random.seed(s)
    np.random.seed(s % (2**32))
    try:
        import torch
        torch.manual_seed(s)
        torch.set_num_threads(1)
    except ImportError:  # pragma: no cover
        pass
    budget = shard.get('budget_s')
    if budget:
        ctx.deadline = time.time() + budget
    core.import_numqi()
    try:
        mod.run(ctx, shard)
    except Exception:
        ctx.harness_error('run')
    finally:
        ctx.detach_all()
    return ctx.result()


def _one_shard(prop, tier, seed, shard, tmpdir, idx, default_timeout):
    sp = os.path.join(tmpdir, f'shard{idx}.json')
    op = os.path.join(tmpdir, f'out{idx}.json')
    with open(sp, 'w') as f:
        json.dump(shard, f)
    timeout = shard.get('timeout_s', default_timeout)
    t0 = time.time()
    try:
        p = subprocess.run([PY, os.path.join(VERIF, 'check'), '--shard-run', prop, tier, str(seed), sp, op],
                           env=shard_env(), capture_output=True, text=True, timeout=timeout, cwd=VERIF)
    except subprocess.TimeoutExpired:
        return _partial(op, {'shard': shard, 'broken': f'watchdog timeout after {timeout}s', 'wall_s': time.time() - t0})
    if p.returncode != 0 or not os.path.exists(op):
        return _partial(op, {'shard': shard, 'broken': f'shard exited {p.returncode}', 'stderr': p.stderr[-3000:], 'wall_s': time.time() - t0})
    with open(op) as f:
        res = json.load(f)
    res['stderr_tail'] = p.stderr[-500:] if p.stderr else ''
    return res


def _partial(op, res):
    """a shard that was killed or crashed: keep what its monitors had observed (flushed by Ctx.dump_partial)."""
    pp = op + '.partial'
    if os.path.exists(pp):
        try:
            with open(pp) as f:
                part = json.load(f)
            part['broken'] = res['broken'] + ' (partial results kept)'
            part['stderr'] = res.get('stderr', '')
            part['wall_s'] = res['wall_s']
            return part
        except Exception:
            pass
    return res


def load_known():
    path = os.path.join(VERIF, 'known_findings.json')
    if not os.path.exists(path):
        return []
    with open(path) as f:
        return json.load(f).get('findings', [])


def get_shards(mod, tier, seed):
    """the module's shards; in the thorough tier every shard whose workload is random (not marked 'no_replica') is run
    THOROUGH_REPEAT times (module attribute, env VERIF_THOROUGH_REPEAT overrides) with independent random streams: replica r>0 has
    the same shard description plus 'replica': r, from which Ctx and the global generators derive their seeds."""
    shards = mod.shards(tier, seed)
    if tier != 'thorough':
        return shards
    rep = int(os.environ.get('VERIF_THOROUGH_REPEAT', getattr(mod, 'THOROUGH_REPEAT', 1)))
    out = list(shards)
    for r in range(1, max(1, rep)):
        out += [dict(s, replica=r) for s in shards if not s.get('no_replica') and s.get('name') != 'repo-tests']
    return out


def run_check(prop, tier, seed, only_shard=None, replay=None):
    t0 = time.time()
    mod = load_prop(prop)
    shards = get_shards(mod, tier, seed)
    if only_shard is not None:
        shards = [s for s in shards if s['name'] == only_shard]
    default_timeout = 1500 if tier == 'quick' else 7200
    results = []
    with tempfile.TemporaryDirectory(prefix='vmon-') as tmpdir:
        nw = max(1, min(int(os.environ.get('VERIF_JOBS', '16')), len(shards)))
        with concurrent.futures.ThreadPoolExecutor(max_workers=nw) as ex:
            futs = [ex.submit(_one_shard, prop, tier, seed, s, tmpdir, i, default_timeout) for i, s in enumerate(shards)]
            for f in futs:
                results.append(f.result())
    return finish(prop, tier, seed, mod, results, time.time() - t0, replay=replay)


def finish(prop, tier, seed, mod, results, wall, replay=None):
    known = [k for k in load_known() if k.get('property') == prop]
    open_keys = {k['key']: k for k in known if k.get('status') == 'open'}
    evaluations = 0
    hits = {}
    inconclusive = {}
    wl = {}
    viol = {}
    digests = set()
    distinct_extra = 0
    case_total = 0
    samples = []
    broken = []
    extra = {}
    shard_walls = {}
    attached = set()
    for r in results:
        name = r['shard'].get('name') + (f"#r{r['shard']['replica']}" if r['shard'].get('replica') else '')
        shard_walls[name] = round(r.get('wall_s', 0), 1)
        if 'broken' in r:
            broken.append(f"shard {name}: {r['broken']} {r.get('stderr', '')[-800:]}")
            if 'evaluations' not in r:
                continue
        evaluations += r['evaluations']
        case_total += r['case_total']
        for k, v in r['hits'].items():
            hits[k] = hits.get(k, 0) + v
        attached.update(r.get('attached_points', []))
        for k, v in r['inconclusive'].items():
            inconclusive[k] = inconclusive.get(k, 0) + v
        for k, v in r['workload_classes'].items():
            wl[k] = wl.get(k, 0) + v
        if r['case_digests'] is None:
            distinct_extra += r['case_distinct']
        else:
            digests.update(r['case_digests'])
        for s in r['samples']:
            if len(samples) < 12:
                samples.append(s)
        for v in r['violations']:
            rec = viol.setdefault(v['key'], {'key': v['key'], 'count': 0, 'what': v['what'], 'witnesses': []})
            rec['count'] += v['count']
            rec['witnesses'].extend(v['witnesses'][:max(0, 3 - len(rec['witnesses']))])
        if r.get('extra'):
            extra[name] = r['extra']
        if r['n_harness_errors']:
            he = r['harness_errors'][0]
            broken.append(f"shard {name}: {r['n_harness_errors']} harness error(s), first at {he['where']}:\n{he['traceback']}")
    deciding = getattr(mod, 'DECIDING', [])
    if replay is None:
        for p in deciding:
            if hits.get(p, 0) == 0:
                broken.append(f'deciding monitor {p} was never evaluated (inconclusive)')
        if evaluations == 0:
            broken.append('no monitor condition was evaluated')
    distinct = len(digests) + distinct_extra

    lines = []
    unlisted = []
    known_printed = []
    for key in sorted(viol):
        v = viol[key]
        if key in open_keys:
            known_printed.append(key)
            lines.append(f"KNOWN-FINDING: property={prop} {open_keys[key].get('what_fails', v['what'])} [{key}] x{v['count']}")
        else:
            unlisted.append(v)
    replay_paths = []
    if unlisted and replay is None:
        rdir = os.path.join(os.environ.get('VERIF_REPLAY_DIR', os.path.join(VERIF, 'replay')), prop)
        os.makedirs(rdir, exist_ok=True)
        for v in unlisted:
            h = hashlib.sha1(v['key'].encode()).hexdigest()[:12]
            path = os.path.join(rdir, f'{h}.json')
            w0 = v['witnesses'][0] if v['witnesses'] else {}
            with open(path, 'w') as f:
                json.dump({'property': prop, 'tier': tier, 'seed': seed, 'key': v['key'], 'what': v['what'], 'count': v['count'],
                           'shard': w0.get('shard'), 'witnesses': v['witnesses'], 'numqi_head': repo_head()}, f, indent=1)
            replay_paths.append(path)
            lines.append(f"VIOLATION property={prop} replay={os.path.relpath(path, VERIF) if path.startswith(VERIF) else path}")
            lines.append(f"  key={v['key']} count={v['count']} what={v['what'][:300]}")
    elif unlisted:
        for v in unlisted:
            lines.append(f"VIOLATION property={prop} replay={replay}")
            lines.append(f"  key={v['key']} count={v['count']} what={v['what'][:300]}")

    status = 'violated' if unlisted else ('inconclusive' if broken else 'held_on_observed')
    if replay is None:
        ev = {
            'property_id': prop, 'tier': tier, 'seed': int(seed), 'level': 'exploration',
            'coverage': {
                'evaluations': int(evaluations),
                'distinct_nontrivial': int(distinct),
                'rule': getattr(mod, 'RULE', ''),
                'samples': samples if samples else [],
                'exhaustive': bool(getattr(mod, 'EXHAUSTIVE', {}).get(tier, False)),
                'exhaustive_domains': getattr(mod, 'EXHAUSTIVE_DOMAINS', {}).get(tier, []),
                'cases_total': int(case_total),
                'observation_point_hits': hits,
                # contracts that were attached but never evaluated by any shard of this run: they decide nothing here (a blind spot
                # to close by a workload, see DESIGN 7.7); the deciding points (DECIDING) make the run inconclusive instead
                'attached_points_never_reached': sorted(p for p in attached if not hits.get(p)),
                'workload_classes': wl,
                'inconclusive': inconclusive,
                'shards': len(results),
                'shard_wall_s': shard_walls,
                'extra': extra,
            },
            'assumptions': getattr(mod, 'ASSUMPTIONS', []) + [
                'trusted base: numpy/torch/scipy/cvxpy numerics and the reference models under vmon/ref',
                'verdict is "held on the executions observed", not a proof'],
            'wall_s': round(wall, 2),
            'violations': len(unlisted),
            'verdict': status,
            'known_findings_printed': known_printed,
            'violation_keys': [{'key': v['key'], 'count': v['count'], 'what': v['what'][:300]} for v in viol.values()],
            'broken': broken[:5],
            'numqi_src': os.environ.get('NUMQI_SRC', '/repo/python'),
            'numqi_head': repo_head(),
        }
        evdir = os.environ.get('VERIF_EVIDENCE_DIR', os.path.join(VERIF, 'evidence'))
        os.makedirs(evdir, exist_ok=True)
        evp = os.path.join(evdir, f'{prop}.json')
        with open(evp + '.tmp', 'w') as f:
            json.dump(ev, f, indent=1)
        os.replace(evp + '.tmp', evp)

    for l in lines:
        print(l)
    print(f'[{prop}] tier={tier} seed={seed} verdict={status} evaluations={evaluations} cases={case_total} '
          f'distinct_nontrivial={distinct} violations={len(unlisted)} known={len(known_printed)} '
          f'inconclusive={sum(inconclusive.values())} wall={wall:.1f}s')
    top = sorted(hits.items(), key=lambda kv: -kv[1])[:8]
    print(f'[{prop}] observation points: ' + ', '.join(f'{k}={v}' for k, v in top) + (' ...' if len(hits) > 8 else ''))
    if inconclusive:
        print(f'[{prop}] inconclusive by reason: {inconclusive}')
    if unlisted:
        return 1
    if broken:
        for b in broken[:5]:
            print(f'BROKEN: {b}', file=sys.stderr)
        return 2
    return 0


def main(argv=None):
    argv = sys.argv[1:] if argv is None else argv
    if argv and argv[0] == '--shard-run':
        _, prop, tier, seed, sp, op = argv
        with open(sp) as f:
            shard = json.load(f)
        try:
            import faulthandler
            faulthandler.enable()
        except Exception:  # pragma: no cover
            pass
        res = run_shard_inprocess(prop, tier, int(seed), shard, partial_path=op + '.partial')
        with open(op, 'w') as f:
            json.dump(res, f)
        return 0
    ap = argparse.ArgumentParser()
    ap.add_argument('prop', nargs='?')
    ap.add_argument('--tier', default=os.environ.get('VERIF_TIER', 'quick'), choices=['quick', 'thorough'])
    ap.add_argument('--seed', type=int, default=int(os.environ.get('VERIF_SEED', '0')))
    ap.add_argument('--shard', default=None, help='run only this shard (debug; evidence still written)')
    ap.add_argument('--inprocess', action='store_true', help='debug: run the shards in this process')
    ap.add_argument('--replay', default=None)
    ap.add_argument('--list', action='store_true')
    a = ap.parse_args(argv)
    if a.list:
        for p in PROPS:
            try:
                m = load_prop(p)
                print(p, len(m.shards('quick', 0)), len(m.shards('thorough', 0)))
            except Exception as e:
                print(p, 'missing', e)
        return 0
    prop = a.prop.upper()
    if a.replay:
        with open(a.replay) as f:
            rp = json.load(f)
        mod = load_prop(prop)
        os.environ.update(shard_env())
        res = run_shard_inprocess(prop, rp['tier'], rp['seed'], rp['shard'])
        res['violations'] = [v for v in res['violations'] if v['key'] == rp['key']]
        return finish(prop, rp['tier'], rp['seed'], mod, [res], res['wall_s'], replay=a.replay)
    if a.inprocess:
        mod = load_prop(prop)
        os.environ.update(shard_env())
        t0 = time.time()
        shards = [s for s in get_shards(mod, a.tier, a.seed) if a.shard in (None, s['name'])]
        results = [run_shard_inprocess(prop, a.tier, a.seed, s) for s in shards]
        return finish(prop, a.tier, a.seed, mod, results, time.time() - t0)
    return run_check(prop, a.tier, a.seed, only_shard=a.shard)


if __name__ == '__main__':
    sys.exit(main())
