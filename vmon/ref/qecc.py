"""Reference model for C19 (quantum error-correcting codes). Nothing here imports numqi.

Conventions: a state on n qubits is a vector of length 2^n, qubit 0 is the most significant bit of the index
(left-most Kronecker factor). A batch of states is an array (..., 2^n). Operators are applied to the state *tensor*
((...,2,2,...,2)) by axis operations, so no 2^n x 2^n matrix is ever built here (except in the small self-check).
"""
import itertools
import math
import re

import numpy as np

from . import pauli as rp

_ZSIGN = np.array([1.0, -1.0])
_YPHASE = np.array([-1j, 1j])


def num_qubit_of(dim):
    n = int(round(math.log2(dim))) if dim > 0 else -1
    if n < 0 or 2**n != dim:
        raise ValueError(f'{dim} is not a power of two')
    return n


def _bshape(n_lead, n, q, vec):
    shape = [1] * (n_lead + n)
    shape[n_lead + q] = 2
    return vec.reshape(shape)


def apply_pauli(states, letters):
    """(letters[0] (x) letters[1] (x) ...) applied to every state of the batch `states` (..., 2^n).
    X flips the qubit's axis; Z multiplies it by (1,-1); Y|0> = i|1>, Y|1> = -i|0>: flip, then multiply by (-i, i)."""
    states = np.asarray(states)
    n = len(letters)
    if states.shape[-1] != 2**n:
        raise ValueError(f'state dimension {states.shape[-1]} does not match {n} qubits')
    lead = states.shape[:-1]
    nl = len(lead)
    t = states.reshape(lead + (2,) * n)
    for q, ch in enumerate(letters):
        if ch == 'I':
            continue
        ax = nl + q
        if ch == 'X':
            t = np.flip(t, axis=ax)
        elif ch == 'Z':
            t = t * _bshape(nl, n, q, _ZSIGN)
        elif ch == 'Y':
            t = np.flip(t, axis=ax) * _bshape(nl, n, q, _YPHASE)
        else:
            raise ValueError(f'bad Pauli letter {ch!r}')
    return np.ascontiguousarray(t).reshape(states.shape)


def apply_op(states, op, index):
    """general k-qubit operator `op` (2^k x 2^k, first listed qubit = most significant) on the qubits `index` of every
    state of the batch (..., 2^n)."""
    states = np.asarray(states)
    op = np.asarray(op)
    index = [int(i) for i in index]
    k = len(index)
    n = num_qubit_of(states.shape[-1])
    if op.shape != (2**k, 2**k) or len(set(index)) != k or any(not 0 <= i < n for i in index):
        raise ValueError('bad operator / index')
    lead = states.shape[:-1]
    nl = len(lead)
    t = states.reshape(lead + (2,) * n)
    axes = [nl + i for i in index]
    opt = op.reshape((2,) * (2 * k))
    r = np.tensordot(opt, t, axes=(list(range(k, 2 * k)), axes))  # out axes first, then the untouched axes in order
    r = np.moveaxis(r, list(range(k)), axes)
    return np.ascontiguousarray(r).reshape(states.shape)


def apply_controlled(states, op, controls, targets):
    """op on `targets` in the subspace where every control qubit is 1"""
    states = np.asarray(states)
    n = num_qubit_of(states.shape[-1])
    controls = sorted(int(c) for c in controls)
    targets = [int(t) for t in targets]
    if set(controls) & set(targets) or len(set(controls)) != len(controls):
        raise ValueError('bad control / target')
    lead = states.shape[:-1]
    nl = len(lead)
    t = np.array(states.reshape(lead + (2,) * n))  # copy
    sel = [slice(None)] * (nl + n)
    for c in controls:
        sel[nl + c] = 1
    sel = tuple(sel)
    sub = t[sel]  # axes of the control qubits removed
    rest = [q for q in range(n) if q not in controls]
    pos = {q: i for i, q in enumerate(rest)}
    flat = np.ascontiguousarray(sub).reshape(lead + (2**len(rest),))
    new = apply_op(flat, op, [pos[q] for q in targets])
    t[sel] = new.reshape(sub.shape)
    return t.reshape(states.shape)


def run_gate_list(gates, n, inputs):
    """own simulation of a gate program: gates = [('unitary', matrix, index_tuple) | ('control', matrix, controls, targets)],
    inputs (..., 2^n)."""
    q = np.asarray(inputs, dtype=np.complex128)
    for g in gates:
        if g[0] == 'unitary':
            q = apply_op(q, g[1], g[2])
        elif g[0] == 'control':
            q = apply_controlled(q, g[1], g[2], g[3])
        else:
            raise ValueError(f'unsupported gate kind {g[0]!r}')
    return q


# ----------------------------------------------------------------------------------------------- Pauli strings
def pauli_signed_permutation(letters):
    """the matrix of a Pauli string as a signed permutation: column c has its only non-zero entry in row
    rows[c] with value vals[c]. Built with integer bit operations (no Kronecker product)."""
    n = len(letters)
    cols = np.arange(2**n, dtype=np.int64)
    rows = cols.copy()
    vals = np.ones(2**n, dtype=np.complex128)
    for q, ch in enumerate(letters):
        sh = n - 1 - q
        bit = (cols >> sh) & 1  # input bit of qubit q
        if ch == 'I':
            continue
        if ch == 'X':
            rows = rows ^ (1 << sh)
        elif ch == 'Z':
            vals = vals * np.where(bit == 0, 1.0, -1.0)
        elif ch == 'Y':
            rows = rows ^ (1 << sh)
            vals = vals * np.where(bit == 0, 1j, -1j)  # Y|0> = i|1>, Y|1> = -i|0>
        else:
            raise ValueError(f'bad Pauli letter {ch!r}')
    return rows, vals


def matrix_is_pauli(mat, letters, tol=0.0):
    """is the dense matrix `mat` the Pauli string `letters` (global phase included)? returns (ok, max abs deviation)"""
    mat = np.asarray(mat)
    n = len(letters)
    if mat.shape != (2**n, 2**n):
        return False, float('inf')
    rows, vals = pauli_signed_permutation(letters)
    cols = np.arange(2**n)
    dev_on = np.abs(mat[rows, cols] - vals).max()
    tmp = np.array(mat, dtype=np.complex128)
    tmp[rows, cols] = 0
    dev_off = np.abs(tmp).max()
    dev = float(max(dev_on, dev_off))
    return bool(np.isfinite(dev) and dev <= tol), dev


def decode_pauli_matrix(mat):
    """letters of a dense matrix that is a Pauli string with phase +1, else None (decided exactly via the dense product)"""
    mat = np.asarray(mat)
    if mat.ndim != 2 or mat.shape[0] != mat.shape[1]:
        return None
    try:
        n = num_qubit_of(mat.shape[0])
    except ValueError:
        return None
    col0 = mat[:, 0]
    nz = np.flatnonzero(col0)
    if len(nz) != 1:
        return None
    xmask = int(nz[0])
    letters = []
    for q in range(n):
        sh = n - 1 - q
        x = (xmask >> sh) & 1
        c = 1 << sh
        a, b = mat[xmask, 0], mat[c ^ xmask, c]
        if a == 0:
            return None
        ratio = b / a
        if ratio == 1:
            z = 0
        elif ratio == -1:
            z = 1
        else:
            return None
        letters.append({(0, 0): 'I', (1, 0): 'X', (0, 1): 'Z', (1, 1): 'Y'}[(x, z)])
    letters = ''.join(letters)
    ok, _ = matrix_is_pauli(mat, letters, 0.0)
    return letters if ok else None


_INDEXED = re.compile(r'[XYZI][0-9]+')


def listed_letters(text):
    """the Pauli string named by a listed stabilizer, either 'XIYXX' or 'X0Y2X3X4' (unlisted qubits are I; the number
    of qubits of the indexed form is 1 + the largest index named)."""
    if re.search('[0-9]', text) is None:
        if not text or set(text) - set('IXYZ'):
            raise ValueError(f'bad Pauli string {text!r}')
        return text
    items = _INDEXED.findall(text)
    if ''.join(items) != text:
        raise ValueError(f'bad indexed Pauli string {text!r}')
    pairs = [(it[0], int(it[1:])) for it in items]
    if len({i for _, i in pairs}) != len(pairs):
        raise ValueError('repeated qubit index')
    n = max(i for _, i in pairs) + 1
    out = ['I'] * n
    for ch, i in pairs:
        out[i] = ch
    return ''.join(out)


def paulis_by_weight(n, wmin, wmax):
    """all Pauli strings on n qubits with wmin <= weight <= wmax. n<=7: filter of ALL 4^n strings; larger n: placed
    letters (support subsets x non-identity letters); the count is checked against sum C(n,w) 3^w in both cases."""
    wmax = min(wmax, n)
    if n <= 7:
        out = [s for s in rp.all_letters(n) if wmin <= rp.weight(s) <= wmax]
    else:
        out = []
        for w in range(max(wmin, 0), wmax + 1):
            for pos in itertools.combinations(range(n), w):
                for let in itertools.product('XYZ', repeat=w):
                    s = ['I'] * n
                    for p, ch in zip(pos, let):
                        s[p] = ch
                    out.append(''.join(s))
    expect = sum(math.comb(n, w) * 3**w for w in range(max(wmin, 0), wmax + 1))
    if len(out) != expect or len(set(out)) != expect:
        raise AssertionError('reference Pauli enumeration is inconsistent')
    return out


def errors_below_distance(n, d):
    """every Pauli error of weight 1..d-1"""
    return paulis_by_weight(n, 1, d - 1)


def asymmetric_errors(n, d, cz):
    """documented rule of the asymmetric error set: all Pauli strings with 0 < n_x + n_y + cz*n_z < d
    (filter over all 4^n strings)."""
    out = []
    for s in rp.all_letters(n):
        nxy = s.count('X') + s.count('Y')
        nz = s.count('Z')
        if nxy + nz == 0:
            continue
        if nxy + cz * nz < d:
            out.append(s)
    return out


# ----------------------------------------------------------------------------------------------- code properties
def gram(code):
    code = np.asarray(code)
    return code.conj() @ code.T


def kl_matrix(code, letters):
    """M[i,j] = <c_i| E |c_j> for the Pauli string E"""
    code = np.asarray(code)
    return code.conj() @ apply_pauli(code, letters).T


def kl_defect(mat):
    """(largest off-diagonal modulus, largest deviation of a diagonal entry from the mean of the diagonal)"""
    mat = np.asarray(mat)
    k = mat.shape[0]
    dg = np.diagonal(mat)
    off = mat - np.diag(dg)
    worst_off = float(np.abs(off).max()) if k > 1 else 0.0
    spread = float(np.abs(dg - dg.mean()).max())
    return worst_off, spread


def weight_enumerators(code):
    """Shor-Laflamme enumerators of the projector P = sum_i |c_i><c_i| (code words orthonormal, K = rank P):
         A_w = K^-2 sum_{wt(E)=w} |tr(E P)|^2          B_w = K^-1 sum_{wt(E)=w} tr(E P E^dag P)
    for w = 0..n (A_0 = B_0 = 1), by direct enumeration of all 4^n Pauli strings E.
    With M_E[i,j] = <c_i|E|c_j>: tr(E P) = tr(M_E), tr(E P E^dag P) = sum_ij |M_E[i,j]|^2.
    Consequences used by the monitor (derived from this definition):
      * {E / sqrt(2^n)} is an orthonormal operator basis, so sum_E |tr(E P)|^2 = 2^n tr(P^2) = 2^n K  => sum_w A_w = 2^n / K;
      * sum_E E P E^dag = 2^n tr(P) 1, so sum_E tr(E P E^dag P) = 2^n K^2                             => sum_w B_w = 2^n K;
      * Cauchy-Schwarz on tr(M_E) = <1, M_E>: |tr M_E|^2 <= K sum|M_E[i,j]|^2, i.e. A_w <= B_w term by term, with
        equality for E iff M_E is proportional to the identity (the Knill-Laflamme condition for E) => A_w = B_w for w < d."""
    code = np.asarray(code, dtype=np.complex128)
    k, dim = code.shape
    n = num_qubit_of(dim)
    a = np.zeros(n + 1)
    b = np.zeros(n + 1)
    conj = code.conj()
    for s in rp.all_letters(n):
        m = conj @ apply_pauli(code, s).T
        w = rp.weight(s)
        a[w] += abs(np.trace(m))**2
        b[w] += float(np.sum(np.abs(m)**2))
    return a / k**2, b / k


# ----------------------------------------------------------------------------------------------- secondary entry points
def klip(code, op_list):
    """M[e,i,j] = <c_i| E_e |c_j> for operator sequences E_e = [(qubits, matrix), ...] (applied left to right to the ket)"""
    code = np.asarray(code, dtype=np.complex128)
    k = code.shape[0]
    out = np.zeros((len(op_list), k, k), dtype=np.complex128)
    cc = code.conj()
    for e, seq in enumerate(op_list):
        q1 = code
        for ind, op in seq:
            q1 = apply_op(q1, np.asarray(op), list(ind))
        out[e] = cc @ q1.T
    return out


def klip_bound(code, op_list):
    """per-sequence a-priori bound |M[e,i,j]| <= max_i|c_i|^2 * prod ||op||_2 (the scale rounding errors are relative to)"""
    code = np.asarray(code, dtype=np.complex128)
    r2 = float((np.abs(code)**2).sum(axis=1).max()) if code.size else 0.0
    out = np.zeros(len(op_list))
    for e, seq in enumerate(op_list):
        b = r2
        for _, op in seq:
            b *= float(np.linalg.norm(np.asarray(op, dtype=np.complex128), 2))
        out[e] = b
    return out


def kl_loss(ip, kind):
    """Knill-Laflamme loss of a stack M[e] of K x K matrices: sum_e [ sum_{i<j} h(|M_ij|) + sum_i h(|M_ii - mean_i M_ii|) ],
    h(x) = x ('L1') or x^2 ('L2'). Returns (loss, scale) with scale = sum_e sum_ij h(|M_ij|) (what rounding is relative to)."""
    if kind not in ('L1', 'L2'):
        raise ValueError(kind)
    ip = np.asarray(ip, dtype=np.complex128)
    h = (lambda x: x) if kind == 'L1' else (lambda x: x * x)
    k = ip.shape[1]
    loss = 0.0
    for m in ip:
        for i in range(k):
            for j in range(i + 1, k):
                loss += h(abs(m[i, j]))
        dg = np.array([m[i, i] for i in range(k)])
        mean = dg.sum() / k
        for i in range(k):
            loss += h(abs(dg[i] - mean))
    return float(loss), float(h(np.abs(ip)).sum())


def split_elements(labels, counts):
    """all ways to pick disjoint unordered subsets of sizes counts[0], counts[1], ... from `labels` (each subset reported as
    the tuple of its labels in the order of `labels`), as a list of tuples of tuples"""
    labels = list(labels)
    out = []

    def rec(rest, cs, acc):
        if not cs:
            out.append(tuple(acc))
            return
        for pick in itertools.combinations(range(len(rest)), cs[0]):
            chosen = tuple(rest[i] for i in pick)
            left = [x for i, x in enumerate(rest) if i not in pick]
            rec(left, cs[1:], acc + [chosen])

    rec(labels, list(counts), [])
    return out


_NAME_SYM = re.compile(r'^\(\(\s*([0-9]+)\s*,\s*([0-9]+)\s*,\s*([0-9]+)\s*\)\)$')
_NAME_ASYM = re.compile(r'^\(\(\s*([0-9]+)\s*,\s*([0-9]+)\s*,\s*de\(([0-9.eE+-]+)\)\s*=\s*([0-9]+)\s*\)\)$')


def parse_code_name(text):
    """'((n,K,d))' -> (n, K, None, d); '((n,K,de(w)=d))' -> (n, K, w, d)"""
    m = _NAME_SYM.match(text)
    if m:
        return int(m.group(1)), int(m.group(2)), None, int(m.group(3))
    m = _NAME_ASYM.match(text)
    if m:
        return int(m.group(1)), int(m.group(2)), float(m.group(3)), int(m.group(4))
    raise ValueError(f'bad code name {text!r}')


def degeneracy_spectrum(state):
    """eigenvalues (ascending) of the Gram matrix of {E|psi>: E = identity or a weight-1 Pauli}"""
    state = np.asarray(state, dtype=np.complex128).reshape(-1)
    n = num_qubit_of(state.shape[0])
    vecs = [apply_pauli(state, s) for s in paulis_by_weight(n, 0, 1)]
    v = np.stack(vecs)
    g = v.conj() @ v.T
    return np.linalg.eigvalsh((g + g.conj().T) / 2)


# ----------------------------------------------------------------------------------------------- self check (import time, cheap)
def _selfcheck():
    rng = np.random.default_rng(12345)
    eye8 = np.eye(8, dtype=np.complex128)
    for s in rp.all_letters(3):
        dense = rp.dense((0, s))
        # applying E to the basis vector e_c gives column c of the matrix
        assert np.array_equal(apply_pauli(eye8, s).T, dense), s
        ok, dev = matrix_is_pauli(dense, s)
        assert ok and dev == 0, s
        assert decode_pauli_matrix(dense) == s
        assert not matrix_is_pauli(-1j * dense, s, 1e-12)[0]
    v = rng.normal(size=(2, 16)) + 1j * rng.normal(size=(2, 16))
    op = rng.normal(size=(2, 2)) + 1j * rng.normal(size=(2, 2))
    full = np.kron(np.kron(np.eye(2), op), np.eye(4))
    assert np.abs(apply_op(v, op, [1]) - v @ full.T).max() < 1e-12
    op2 = rng.normal(size=(4, 4)) + 1j * rng.normal(size=(4, 4))
    # qubits (3,1): first listed qubit is the most significant index of the operator
    o4 = op2.reshape(2, 2, 2, 2)  # [o3, o1, i3, i1]
    # o4[a,c,b,d] = [o3,o1,i3,i1]; full matrix indices: out (q0,q1,q2,q3) = (x,c,z,a), in (q0,q1,q2,q3) = (y,d,w,b)
    full = np.einsum('acbd,xy,zw->xczaydwb', o4, np.eye(2), np.eye(2)).reshape(16, 16)
    assert np.abs(apply_op(v, op2, [3, 1]) - v @ full.T).max() < 1e-12
    cx = np.array([[0, 1], [1, 0]], dtype=np.complex128)
    proj1 = np.diag([0.0, 1.0])
    proj0 = np.diag([1.0, 0.0])
    full = np.kron(np.kron(np.eye(2), np.kron(np.eye(2), proj0)), np.eye(2)) + np.kron(np.kron(cx, np.kron(np.eye(2), proj1)), np.eye(2))
    assert np.abs(apply_controlled(v, cx, [2], [0]) - v @ full.T).max() < 1e-12
    assert listed_letters('X0Y2X3X4') == 'XIYXX' and listed_letters('Z10X0') == 'XIIIIIIIIIZ'
    assert sorted(errors_below_distance(3, 3)) == sorted(s for s in rp.all_letters(3) if 1 <= rp.weight(s) <= 2)
    assert len(paulis_by_weight(8, 1, 2)) == 24 + 252
    assert parse_code_name('((5,2,3))') == (5, 2, None, 3) and parse_code_name('((6,2,de(1.5)=4))') == (6, 2, 1.5, 4)
    assert split_elements([0, 1, 2], [1, 1]) == [((0,), (1,)), ((0,), (2,)), ((1,), (0,)), ((1,), (2,)), ((2,), (0,)), ((2,), (1,))]
    assert len(split_elements(range(5), [2, 0, 1])) == 30
    m = np.array([[[1, 2j], [3, 5]]], dtype=np.complex128)
    assert abs(kl_loss(m, 'L1')[0] - (2 + 2 + 2)) < 1e-12 and abs(kl_loss(m, 'L2')[0] - (4 + 4 + 4)) < 1e-12
    x = np.array([[0, 1], [1, 0]], dtype=np.complex128)
    assert np.abs(klip(v[:, :4], [[([1], x)], []])[0] - v[:, :4].conj() @ apply_pauli(v[:, :4], 'IX').T).max() < 1e-12


_selfcheck()
