"""Reference partial trace: the explicit index contraction. Nothing here imports numqi.

rho acts on H_0 (x) H_1 (x) .. (x) H_{N-1} with dims (d_0..d_{N-1}), subsystem 0 the slowest (left-most Kronecker
factor). Tr_{not keep}(rho)[(k),(k')] = sum_t rho[(k,t),(k',t)], kept subsystems in ascending index order.
"""
import itertools
import numpy as np


def normalise_keep(keep, n):
    """keep given as int / set / list / tuple / array -> sorted tuple of distinct ints"""
    if isinstance(keep, (int, np.integer)):
        keep = [int(keep)]
    keep = sorted({int(x) for x in keep})
    assert all(0 <= x < n for x in keep)
    return tuple(keep)


def partial_trace(rho, dims, keep):
    """move the kept row/column axes in front, group (K,T,K,T) and sum the entries with equal traced index."""
    dims = [int(x) for x in dims]
    n = len(dims)
    keep = normalise_keep(keep, n)
    drop = tuple(x for x in range(n) if x not in keep)
    rho = np.asarray(rho)
    D = int(np.prod(dims, dtype=np.int64))
    assert rho.size == D * D
    t = rho.astype(np.complex128).reshape(dims + dims)
    order = list(keep) + list(drop) + [n + x for x in keep] + [n + x for x in drop]
    K = int(np.prod([dims[x] for x in keep], dtype=np.int64)) if keep else 1
    T = int(np.prod([dims[x] for x in drop], dtype=np.int64)) if drop else 1
    t = t.transpose(order).reshape(K, T, K, T)
    out = np.zeros((K, K), dtype=np.complex128)
    for s in range(T):
        out += t[:, s, :, s]
    return out


def partial_trace_loops(rho, dims, keep):
    """the definition as plain python loops over multi-indices (tiny sizes; used to validate `partial_trace`)."""
    dims = [int(x) for x in dims]
    n = len(dims)
    keep = normalise_keep(keep, n)
    drop = [x for x in range(n) if x not in keep]
    D = int(np.prod(dims, dtype=np.int64))
    rho = np.asarray(rho).astype(np.complex128).reshape(D, D)
    stride = [int(np.prod(dims[x + 1:], dtype=np.int64)) for x in range(n)]

    def flat(mi):
        return sum(a * b for a, b in zip(mi, stride))

    kd = [dims[x] for x in keep]
    K = int(np.prod(kd, dtype=np.int64)) if keep else 1
    out = np.zeros((K, K), dtype=np.complex128)
    for r, kr in enumerate(itertools.product(*[range(x) for x in kd])):
        for c, kc in enumerate(itertools.product(*[range(x) for x in kd])):
            acc = 0
            for tr in itertools.product(*[range(dims[x]) for x in drop]):
                mr = [0] * n
                mc = [0] * n
                for x, v in zip(keep, kr):
                    mr[x] = v
                for x, v in zip(keep, kc):
                    mc[x] = v
                for x, v in zip(drop, tr):
                    mr[x] = v
                    mc[x] = v
                acc += rho[flat(mr), flat(mc)]
            out[r, c] = acc
    return out


def all_keep_subsets(n, include_empty=False, include_full=True):
    for r in range(0 if include_empty else 1, n + 1 if include_full else n):
        for c in itertools.combinations(range(n), r):
            yield c


def _selfcheck():
    rng = np.random.default_rng(7)
    for dims in [(2, 3), (3, 2, 2), (2, 2, 3, 2)]:
        D = int(np.prod(dims))
        rho = rng.normal(size=(D, D)) + 1j * rng.normal(size=(D, D))
        for keep in all_keep_subsets(len(dims), include_empty=True):
            a = partial_trace(rho, dims, keep)
            b = partial_trace_loops(rho, dims, keep)
            assert a.shape == b.shape and np.abs(a - b).max() < 1e-12, (dims, keep)
    # product operator: Tr_B (X (x) Y) = X Tr(Y)
    X = rng.normal(size=(2, 2)) + 1j * rng.normal(size=(2, 2))
    Y = rng.normal(size=(3, 3)) + 1j * rng.normal(size=(3, 3))
    assert np.abs(partial_trace(np.kron(X, Y), (2, 3), {0}) - X * np.trace(Y)).max() < 1e-12
    assert np.abs(partial_trace(np.kron(X, Y), (2, 3), {1}) - Y * np.trace(X)).max() < 1e-12


_selfcheck()
