"""Reference model for C06 (boundaries along rays from the maximally mixed state, inner/outer models).

Pure numpy, nothing here imports numqi. Conventions (the ones the property statement uses):
  * rho0 = I/d; a Hermitian trace-one matrix is rho = rho0 + sum_i v_i M_i with the generalised Gell-Mann matrices
    M_i (traceless, Hermitian, Tr(M_i M_j) = 2 delta_ij); v is the Bloch vector, |v| the "Gell-Mann distance".
  * ray(rho, beta) = rho0 + beta * (rho - rho0)/|v(rho)|.
  * bipartite index (a, b) -> a*dB + b (A is the left Kronecker factor).
"""
import functools
import itertools
import math

import numpy as np


# ----------------------------------------------------------------------------- Gell-Mann / Bloch vector
@functools.lru_cache(maxsize=None)
def gm_basis(d):
    """d*d-1 traceless Hermitian matrices with Tr(Mi Mj) = 2 delta_ij (own ordering: X-like, Y-like, diagonal)."""
    mats = []
    for i in range(d):
        for j in range(i + 1, d):
            m = np.zeros((d, d), dtype=np.complex128)
            m[i, j] = 1
            m[j, i] = 1
            mats.append(m)
    for i in range(d):
        for j in range(i + 1, d):
            m = np.zeros((d, d), dtype=np.complex128)
            m[i, j] = -1j
            m[j, i] = 1j
            mats.append(m)
    for l in range(1, d):
        m = np.zeros((d, d), dtype=np.complex128)
        c = math.sqrt(2.0 / (l * (l + 1)))
        for j in range(l):
            m[j, j] = c
        m[l, l] = -l * c
        mats.append(m)
    ret = np.stack(mats)
    ret.flags.writeable = False
    return ret


def _selfcheck():
    for d in (2, 3, 4):
        b = gm_basis(d)
        g = np.einsum('iab,jba->ij', b, b)
        assert np.abs(g - 2 * np.eye(d * d - 1)).max() < 1e-12
        assert np.abs(np.einsum('iaa->i', b)).max() < 1e-12


_selfcheck()


def herm(x):
    x = np.asarray(x, dtype=np.complex128)
    return (x + x.conj().T) / 2


def bloch(rho):
    """Bloch vector by explicit basis expansion: v_i = Tr(rho M_i)/2."""
    rho = np.asarray(rho, dtype=np.complex128)
    b = gm_basis(rho.shape[0])
    return np.einsum('iab,ba->i', b, rho).real / 2


def from_bloch(v, d):
    return np.eye(d, dtype=np.complex128) / d + np.einsum('i,iab->ab', np.asarray(v, dtype=np.float64), gm_basis(d))


def bloch_norm(rho):
    return float(np.linalg.norm(bloch(rho)))


def unit_direction(rho):
    """(u, norm): u traceless Hermitian with Bloch norm 1 pointing from rho0 to rho; norm = |v(rho)|."""
    rho = np.asarray(rho, dtype=np.complex128)
    d = rho.shape[0]
    v = bloch(rho)
    n = float(np.linalg.norm(v))
    u = np.einsum('i,iab->ab', v / n, gm_basis(d))
    return u, n


def ray_point(rho, beta, norm=None):
    """rho0 + beta*(rho-rho0)/norm, norm defaulting to the Gell-Mann norm of rho."""
    rho = np.asarray(rho, dtype=np.complex128)
    d = rho.shape[0]
    rho0 = np.eye(d) / d
    tl = rho - (np.trace(rho) / d) * np.eye(d)
    if norm is None:
        norm = math.sqrt(float(np.vdot(tl, tl).real) / 2)
    return rho0 + (beta / norm) * tl


def direction_digest_source(rho, decimals=7):
    """rounded unit Bloch vector (the identity of a *direction*, independent of the length of rho)."""
    v = bloch(rho)
    n = np.linalg.norm(v)
    return np.round(v / n, decimals) + 0.0


# ----------------------------------------------------------------------------- PSD / PPT tests (own eigensolver calls)
def min_eig(x):
    return float(np.linalg.eigvalsh(herm(x))[0])


def partial_transpose_B(rho, dA, dB):
    """explicit index loop: out[(a,b),(a',b')] = rho[(a,b'),(a',b)]."""
    rho = np.asarray(rho, dtype=np.complex128)
    out = np.empty_like(rho)
    for a in range(dA):
        for b in range(dB):
            for a2 in range(dA):
                for b2 in range(dB):
                    out[a * dB + b, a2 * dB + b2] = rho[a * dB + b2, a2 * dB + b]
    return out


def psd_margin(rho):
    return min_eig(rho)


def pt_margin(rho, dA, dB):
    return min_eig(partial_transpose_B(rho, dA, dB))


def ppt_margin(rho, dA, dB):
    """min over the spectrum of rho and of its partial transpose (>=0 <=> state and PPT)."""
    return min(min_eig(rho), pt_margin(rho, dA, dB))


def boundary_by_bisection(margin_of_beta, sign=+1, rel=1e-13):
    """largest |beta| (with the given sign) such that margin_of_beta(beta) >= 0, for a convex set containing beta=0
    in its interior. Independent of any closed formula: expand, then bisect."""
    lo, hi = 0.0, 1e-3
    n = 0
    while margin_of_beta(sign * hi) >= 0:
        lo, hi = hi, hi * 2
        n += 1
        if n > 60:
            return None
    for _ in range(200):
        mid = (lo + hi) / 2
        if margin_of_beta(sign * mid) >= 0:
            lo = mid
        else:
            hi = mid
        if hi - lo <= rel * hi:
            break
    return sign * (lo + hi) / 2


def dm_boundary(rho, norm=None):
    """(beta_l, beta_u) of the positive-semidefinite cone along the ray of rho, by bisection."""
    f = lambda beta: min_eig(ray_point(rho, beta, norm))
    return boundary_by_bisection(f, -1), boundary_by_bisection(f, +1)


def ppt_boundary(rho, dA, dB, norm=None, within_dm=True):
    if within_dm:
        f = lambda beta: ppt_margin(ray_point(rho, beta, norm), dA, dB)
    else:
        f = lambda beta: pt_margin(ray_point(rho, beta, norm), dA, dB)
    return boundary_by_bisection(f, -1), boundary_by_bisection(f, +1)


# ----------------------------------------------------------------------------- inner models
def product_mixture(lam, ketA, ketB):
    """sum_i lam_i |a_i b_i><a_i b_i| by an explicit loop (kets are rows)."""
    lam = np.asarray(lam, dtype=np.float64)
    ketA = np.asarray(ketA, dtype=np.complex128)
    ketB = np.asarray(ketB, dtype=np.complex128)
    d = ketA.shape[1] * ketB.shape[1]
    out = np.zeros((d, d), dtype=np.complex128)
    for l, a, b in zip(lam, ketA, ketB):
        psi = np.kron(a, b)
        out += l * np.outer(psi, psi.conj())
    return out


@functools.lru_cache(maxsize=None)
def dicke_embedding(klist, dB):
    """rows: the normalised symmetric (Dicke) vectors of (C^dB)^{(x) k}, one per occupation tuple in `klist`
    (a tuple of tuples, each summing to k). Site 0 is the left-most Kronecker factor."""
    k = sum(klist[0])
    out = np.zeros((len(klist), dB**k), dtype=np.float64)
    for r, occ in enumerate(klist):
        assert sum(occ) == k and len(occ) == dB
        letters = [lvl for lvl, n in enumerate(occ) for _ in range(n)]
        idx = set()
        for perm in set(itertools.permutations(letters)):
            i = 0
            for c in perm:
                i = i * dB + c
            idx.add(i)
        idx = sorted(idx)
        out[r, idx] = 1 / math.sqrt(len(idx))
    out.flags.writeable = False
    return out


def bosonic_reduced_state(coeff, klist, dA, dB):
    """coeff (dA, #Dicke): |psi> = sum_{a,D} coeff[a,D] |a>|D> on A (x) Sym^k(B); returns Tr_{B^(k-1)} |psi><psi| on A (x) B
    and the norm of psi. Explicit embedding into (C^dB)^{(x) k} followed by an explicit contraction."""
    coeff = np.asarray(coeff, dtype=np.complex128)
    emb = dicke_embedding(tuple(tuple(int(t) for t in x) for x in klist), dB)
    k = sum(klist[0])
    full = coeff @ emb  # (dA, dB^k)
    t = full.reshape(dA, dB, dB**(k - 1))
    rho = np.einsum('abr,cdr->abcd', t, t.conj()).reshape(dA * dB, dA * dB)
    return rho, float(np.linalg.norm(full))


# ----------------------------------------------------------------------------- named directions (own constructions)
def proj(psi):
    psi = np.asarray(psi, dtype=np.complex128)
    psi = psi / np.linalg.norm(psi)
    return np.outer(psi, psi.conj())


def max_entangled(dA, dB):
    """|phi> = sum_{i<min(dA,dB)} |i i>/sqrt(min)."""
    m = min(dA, dB)
    psi = np.zeros(dA * dB, dtype=np.complex128)
    for i in range(m):
        psi[i * dB + i] = 1
    return proj(psi)


def swap_operator(d):
    s = np.zeros((d * d, d * d), dtype=np.complex128)
    for i in range(d):
        for j in range(d):
            s[i * d + j, j * d + i] = 1
    return s


def werner_like(d, a):
    """(I - a*SWAP)/(d^2 - a d): the Werner family on d x d."""
    return (np.eye(d * d) - a * swap_operator(d)) / (d * d - a * d)


def tiles_bes():
    """the bound entangled state of the 'tiles' unextendible product basis on 3x3: (I - sum_i |u_i><u_i|)/4."""
    e = np.eye(3)
    s2 = math.sqrt(2)
    vecs = [
        np.kron(e[0], (e[0] - e[1]) / s2),
        np.kron(e[2], (e[1] - e[2]) / s2),
        np.kron((e[0] - e[1]) / s2, e[2]),
        np.kron((e[1] - e[2]) / s2, e[0]),
        np.kron((e[0] + e[1] + e[2]) / math.sqrt(3), (e[0] + e[1] + e[2]) / math.sqrt(3)),
    ]
    p = sum(np.outer(v, v.conj()) for v in vecs)
    return (np.eye(9) - p) / 4


# ----------------------------------------------------------------------------- reference-built k-symmetric-extendible states
def _perm_matrix(perm, d):
    """operator on (C^d)^{(x) n} moving the tensor factor at position perm[i] to position i (a permutation matrix)."""
    n = len(perm)
    idx = np.arange(d**n).reshape([d] * n)
    src = np.transpose(idx, perm).reshape(-1)
    m = np.zeros((d**n, d**n))
    m[np.arange(d**n), src] = 1
    return m


def _perm_sign_fix(perm):
    n = len(perm)
    seen = [False] * n
    sign = 1
    for i in range(n):
        if not seen[i]:
            j, l = i, 0
            while not seen[j]:
                seen[j] = True
                j = perm[j]
                l += 1
            if l % 2 == 0:
                sign = -sign
    return sign, sum(1 for i in range(n) if perm[i] == i)


@functools.lru_cache(maxsize=None)
def hook_isotypic_projector(d, n):
    """central projector of S_n on (C^d)^{(x) n} onto the isotypic component of the Young diagram (2,1^(n-2)):
    P = (dim_lambda/n!) sum_pi chi(pi) P_pi with chi(pi) = sgn(pi) (fix(pi) - 1), dim_lambda = n-1.
    It commutes with every permutation and with U^{(x) n}; it is non-zero iff n-1 <= d."""
    assert n >= 2
    tot = np.zeros((d**n, d**n))
    for perm in itertools.permutations(range(n)):
        s, f = _perm_sign_fix(perm)
        c = s * (f - 1)
        if c:
            tot += c * _perm_matrix(perm, d)
    p = tot * ((n - 1) / math.factorial(n))
    assert np.abs(p - p.T).max() < 1e-12 and np.abs(p @ p - p).max() < 1e-10, 'hook projector self-check'
    p.flags.writeable = False
    return p


def reduce_ABk_to_AB(x, dA, dB, k):
    m = np.asarray(x).reshape(dA * dB, dB**(k - 1), dA * dB, dB**(k - 1))
    return np.einsum('arbr->ab', m)


@functools.lru_cache(maxsize=None)
def antisymmetriser(d, n):
    tot = np.zeros((d**n, d**n))
    for perm in itertools.permutations(range(n)):
        tot += _perm_sign_fix(perm)[0] * _perm_matrix(perm, d)
    tot /= math.factorial(n)
    tot.flags.writeable = False
    return tot


def hook_kext_state(d, k):
    """a U(x)U-invariant (Werner-type) state on C^d (x) C^d with an explicit k-symmetric (non-bosonic) extension on B:
    rho_{A B1..Bk} = Q/Tr Q with the projector Q = P_hook - (1_A (x) Asym(B^k) - Asym(A B^k)), i.e. the part of the
    (2,1^(k-1)) isotypic component in which the k copies of B are *not* totally antisymmetric. Q commutes with every
    permutation of the B factors. Returns (rho_AB, rho_ABk) or None when Q = 0."""
    n = k + 1
    p = hook_isotypic_projector(d, n)
    q = p - (np.kron(np.eye(d), antisymmetriser(d, k)) - antisymmetriser(d, n))
    t = np.trace(q)
    if t < 0.5:
        return None
    ev = np.linalg.eigvalsh((q + q.T) / 2)
    assert np.abs(ev * (ev - 1)).max() < 1e-9, 'Q must be a projector'
    ext = q / t
    return herm(reduce_ABk_to_AB(ext, d, d, k)), ext


def symmetrised_kext_state(x, dA, dB, k):
    """(1/k!) sum_pi P_pi X P_pi^dagger over the permutations of the k copies of B, reduced to A B1: k-symmetric-extendible
    by construction for any PSD trace-one X on A (x) B^k."""
    x = np.asarray(x, dtype=np.complex128)
    t = x.reshape([dA] + [dB] * k + [dA] + [dB] * k)
    out = np.zeros_like(t)
    for perm in itertools.permutations(range(k)):
        ax = [0] + [1 + p for p in perm] + [k + 1] + [k + 2 + p for p in perm]
        out += np.transpose(t, ax)
    out /= math.factorial(k)
    ext = out.reshape(dA * dB**k, dA * dB**k)
    return herm(reduce_ABk_to_AB(ext, dA, dB, k)), ext


# ----------------------------------------------------------------------------- independent SDP for the bosonic k-extension boundary
def all_occupations(k, dB):
    """all occupation tuples (n_0..n_{dB-1}) with sum k (own ordering)."""
    if dB == 1:
        return ((k,),)
    out = []
    for n0 in range(k, -1, -1):
        for rest in all_occupations(k - n0, dB - 1):
            out.append((n0,) + rest)
    return tuple(out)


@functools.lru_cache(maxsize=None)
def bosonic_reduction_matrix(dA, dB, k):
    """M with vec_F(rho_AB) = M vec_F(X) for X on A (x) Sym^k(B) (Dicke coordinates, own ordering):
    rho_AB = sum_r K_r X K_r^T, K_r = 1_A (x) W_r, W_r[b, D] = <b, r | D> (r runs over the basis of B^(k-1))."""
    emb = dicke_embedding(all_occupations(k, dB), dB)      # (nd, dB^k), rows orthonormal
    nd = emb.shape[0]
    w = emb.reshape(nd, dB, dB**(k - 1))
    m = np.zeros(((dA * dB)**2, (dA * nd)**2))
    for r in range(dB**(k - 1)):
        wr = w[:, :, r].T                                   # (dB, nd)
        if not np.any(wr):
            continue
        kr = np.kron(np.eye(dA), wr)                        # (dA*dB, dA*nd)
        m += np.kron(kr, kr)                                # vec_F(K X K^T) = (K (x) K) vec_F(X) for real K
    m.flags.writeable = False
    return m, nd


def bosonic_ext_boundary_sdp(rho, dA, dB, k, eps=1e-7):
    """max beta such that rho0 + beta*unit(rho) = Tr_{B^(k-1)} X for some PSD X supported on A (x) Sym^k(B).
    Own formulation (explicit Dicke embedding, one PSD block), solved with cvxpy/SCS at tolerance eps. Returns None if the
    solver does not report 'optimal'."""
    import cvxpy as cp
    m, nd = bosonic_reduction_matrix(dA, dB, k)
    d = dA * dB
    u, _ = unit_direction(rho)
    x = cp.Variable((dA * nd, dA * nd), hermitian=True)
    beta = cp.Variable()
    target = np.eye(d) / d + beta * u
    cons = [x >> 0, m @ cp.vec(x, order='F') == cp.vec(target, order='F')]
    prob = cp.Problem(cp.Maximize(beta), cons)
    try:
        prob.solve(solver='SCS', eps=eps, max_iters=200000)
    except cp.error.SolverError:
        return None
    if prob.status != 'optimal' or beta.value is None:
        return None
    return float(beta.value)


# ----------------------------------------------------------------------------- rays given by expectation values
def ray_from_expectations(op_list, direction, cond_max=1e8):
    """the traceless Hermitian X with Tr[X A_i] = n_i for all i, when the A_i are traceless Hermitian and span the whole
    traceless space (then {rho: Tr[rho A_i] = beta n_i} is the single ray rho0 + beta X). None otherwise."""
    ops = np.asarray(op_list, dtype=np.complex128)
    n = np.asarray(direction, dtype=np.float64)
    m, d = ops.shape[0], ops.shape[1]
    if m != d * d - 1 or n.shape != (m,):
        return None
    if np.abs(np.einsum('iaa->i', ops)).max() > 1e-10 or np.abs(ops - ops.conj().transpose(0, 2, 1)).max() > 1e-10:
        return None
    gram = np.einsum('iab,jba->ij', ops, ops).real
    if np.linalg.cond(gram) > cond_max:
        return None
    c = np.linalg.solve(gram, n)
    return herm(np.einsum('i,iab->ab', c, ops))
