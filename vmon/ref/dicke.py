"""Reference Dicke basis / symmetric subspace, written from the definition. Nothing here imports numqi.

n copies of a d-level system, copy 0 is the most significant digit of the basis index (left-most Kronecker factor).
Occupation tuple occ=(k_0..k_{d-1}), sum = n: |D_occ> = uniform superposition of all basis strings in which level l
occurs k_l times. Order of the basis: lexicographic order of the occupation tuples (the order of numqi's
get_dicke_klist: (0,..,0,n) first, (n,0,..,0) last).
"""
import functools
import itertools
import math
import numpy as np


def number(n, d):
    return math.comb(n + d - 1, d - 1)


def copies_from_number(nd, d):
    """the unique n>=1 with number(n,d)==nd, or None"""
    n = 1
    while number(n, d) < nd:
        n += 1
    return n if number(n, d) == nd else None


@functools.lru_cache(maxsize=None)
def occupations(n, d):
    if (n + 1)**d <= 200000:
        return tuple(t for t in itertools.product(range(n + 1), repeat=d) if sum(t) == n)

    def rec(dd, nn):
        if dd == 1:
            return [(nn,)]
        return [(x,) + y for x in range(nn + 1) for y in rec(dd - 1, nn - x)]
    return tuple(rec(d, n))


@functools.lru_cache(maxsize=64)
def digits(n, d):
    """(d**n, n) array of the base-d digits of every basis index, copy 0 most significant"""
    idx = np.arange(d**n, dtype=np.int64)
    out = np.zeros((d**n, n), dtype=np.int64)
    for pos in range(n - 1, -1, -1):
        out[:, pos] = idx % d
        idx = idx // d
    out.setflags(write=False)
    return out


@functools.lru_cache(maxsize=64)
def occupation_of_index(n, d):
    """(d**n, d): how often each level occurs in each basis string"""
    dg = digits(n, d)
    out = np.stack([(dg == l).sum(axis=1) for l in range(d)], axis=1)
    out.setflags(write=False)
    return out


def multinomial(occ):
    r = math.factorial(sum(occ))
    for k in occ:
        r //= math.factorial(k)
    return r


def dicke(occ):
    occ = tuple(int(x) for x in occ)
    d, n = len(occ), sum(occ)
    mask = np.all(occupation_of_index(n, d) == np.array(occ), axis=1)
    assert int(mask.sum()) == multinomial(occ)
    return mask.astype(np.float64) / math.sqrt(multinomial(occ))


@functools.lru_cache(maxsize=64)
def basis(n, d):
    ret = np.stack([dicke(o) for o in occupations(n, d)])
    ret.setflags(write=False)
    return ret


def permutation_index(n, d, perm):
    """index map of the operator permuting the tensor factors: new[i_0..i_{n-1}] = old[i_perm0 ..]"""
    return np.arange(d**n, dtype=np.int64).reshape([d] * n).transpose(perm).reshape(-1)


@functools.lru_cache(maxsize=32)
def symmetriser(n, d):
    """(1/n!) sum over all n! permutations of the copies of the permutation operator (dense, d**n x d**n)"""
    D = d**n
    P = np.zeros((D, D), dtype=np.float64)
    rows = np.arange(D)
    cnt = 0
    for perm in itertools.permutations(range(n)):
        np.add.at(P, (rows, permutation_index(n, d, perm)), 1.0)
        cnt += 1
    P /= cnt
    P.setflags(write=False)
    return P


@functools.lru_cache(maxsize=64)
def B_tensor(n, d):
    """B[r,s,a,b] = Tr_{copies 1..n-1} <r|D_a><D_b|s> on copy 0 = sum_rest D_a[(r,rest)] D_b[(s,rest)]"""
    bs = basis(n, d)
    nd = bs.shape[0]
    t = bs.reshape(nd * d, d**(n - 1))
    ret = np.ascontiguousarray((t @ t.T).reshape(nd, d, nd, d).transpose(1, 3, 0, 2))  # [a,r,b,s] -> [r,s,a,b]
    ret.setflags(write=False)
    return ret


def embed(psi, n, d):
    """(dimA, #Dicke) coefficients -> (dimA, d**n) amplitudes in A (x) B^n"""
    return np.asarray(psi).astype(np.complex128) @ basis(n, d)


def reduce_explicit(psi, n, d):
    """embed with the Dicke basis, trace out copies 1..n-1 explicitly: rho[(i,r),(j,s)] = sum_x phi[i,r,x] conj(phi[j,s,x])"""
    psi = np.asarray(psi)
    dimA = psi.shape[0]
    phi = embed(psi, n, d).reshape(dimA * d, d**(n - 1))
    out = np.zeros((dimA * d, dimA * d), dtype=np.complex128)
    for x in range(phi.shape[1]):
        out += np.outer(phi[:, x], phi[:, x].conj())
    return out


def _selfcheck():
    assert occupations(2, 3) == ((0, 0, 2), (0, 1, 1), (0, 2, 0), (1, 0, 1), (1, 1, 0), (2, 0, 0))
    assert copies_from_number(6, 3) == 2 and copies_from_number(5, 3) is None and copies_from_number(3, 3) == 1
    # W state = Dicke with one excitation (level 1 once, level 0 twice): (|001>+|010>+|100>)/sqrt3
    w = np.zeros(8)
    w[[1, 2, 4]] = 1 / np.sqrt(3)
    assert np.allclose(dicke((2, 1)), w)
    for n, d in [(1, 2), (2, 2), (3, 2), (2, 3), (3, 3), (4, 2)]:
        bs = basis(n, d)
        P = symmetriser(n, d)
        assert bs.shape == (number(n, d), d**n)
        assert np.allclose(bs @ bs.T, np.eye(len(bs)))
        assert np.allclose(P @ P, P) and np.allclose(P, P.T) and abs(np.trace(P) - number(n, d)) < 1e-10
        assert np.allclose(bs.T @ bs, P)
        B = B_tensor(n, d)
        occ = np.array(occupations(n, d))
        for l in range(d):  # diagonal blocks: probability of finding level l = k_l/n
            assert np.allclose(B[l, l], np.diag(occ[:, l] / n))
    # reduction of a product state |a>|b>^n is |a><a| (x) |b><b|
    rng = np.random.default_rng(3)
    a = rng.normal(size=2) + 1j * rng.normal(size=2)
    b = rng.normal(size=3) + 1j * rng.normal(size=3)
    a, b = a / np.linalg.norm(a), b / np.linalg.norm(b)
    bbb = functools.reduce(np.kron, [b] * 3)
    coeff = np.outer(a, basis(3, 3) @ bbb)
    ab = np.kron(a, b)
    assert np.allclose(reduce_explicit(coeff, 3, 3), np.outer(ab, ab.conj()))
    assert np.allclose(np.einsum('ia,rsab,jb->irjs', coeff, B_tensor(3, 3), coeff.conj()).reshape(6, 6), np.outer(ab, ab.conj()))


_selfcheck()
