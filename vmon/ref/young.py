"""Reference combinatorics of partitions and standard Young tableaux (exact python integers).
Nothing here imports numqi."""
import functools
import math
from fractions import Fraction


def partition_count_table(N):
    """p[n][m] = number of partitions of n into parts of size <= m (0<=n,m<=N); coin-change recurrence:
    p[n][m] = p[n][m-1] + p[n-m][m]."""
    p = [[0] * (N + 1) for _ in range(N + 1)]
    for m in range(N + 1):
        p[0][m] = 1
    for n in range(1, N + 1):
        for m in range(1, N + 1):
            p[n][m] = p[n][m - 1] + (p[n - m][m] if n >= m else 0)
    return p


def partition_count(N):
    """number of partitions of N by the one-dimensional coin-change DP (independent of the table above)."""
    ways = [1] + [0] * N
    for part in range(1, N + 1):
        for n in range(part, N + 1):
            ways[n] += ways[n - part]
    return ways[N]


def partition_count_euler(N):
    """Euler's pentagonal number recurrence (third, independent way)."""
    p = [1] + [0] * N
    for n in range(1, N + 1):
        s, k = 0, 1
        while True:
            g1 = k * (3 * k - 1) // 2
            g2 = k * (3 * k + 1) // 2
            if g1 > n:
                break
            sign = 1 if k % 2 else -1
            s += sign * p[n - g1]
            if g2 <= n:
                s += sign * p[n - g2]
            k += 1
        p[n] = s
    return p[N]


def partitions(N, maxpart=None):
    """all partitions of N as non-increasing tuples (own recursion)."""
    if maxpart is None:
        maxpart = N
    if N == 0:
        yield ()
        return
    for first in range(min(N, maxpart), 0, -1):
        for rest in partitions(N - first, first):
            yield (first,) + rest


def is_partition(shape):
    shape = [int(x) for x in shape]
    return len(shape) > 0 and all(x > 0 for x in shape) and all(a >= b for a, b in zip(shape, shape[1:]))


def conjugate(shape):
    shape = [int(x) for x in shape]
    return tuple(sum(1 for r in shape if r > j) for j in range(shape[0]))


def hook_lengths(shape):
    """hook(i,j) = (cells to the right) + (cells below) + 1, from the definition."""
    shape = [int(x) for x in shape]
    conj = conjugate(shape)
    return [[(shape[i] - j - 1) + (conj[j] - i - 1) + 1 for j in range(shape[i])] for i in range(len(shape))]


def syt_count_hook(shape):
    """f_lambda = N! / prod hooks (exact)."""
    N = sum(int(x) for x in shape)
    prod = 1
    for row in hook_lengths(shape):
        for h in row:
            prod *= h
    q, r = divmod(math.factorial(N), prod)
    assert r == 0
    return q


@functools.lru_cache(maxsize=None)
def _syt_rec(shape):
    if sum(shape) <= 1:
        return 1
    total = 0
    for i in range(len(shape)):
        # removable corner: last cell of row i when the next row is shorter
        if shape[i] > (shape[i + 1] if i + 1 < len(shape) else 0):
            s = list(shape)
            s[i] -= 1
            total += _syt_rec(tuple(x for x in s if x > 0))
    return total


def syt_count_recursive(shape):
    """number of standard tableaux by removing the cell holding the largest entry (no hook formula)."""
    return _syt_rec(tuple(int(x) for x in shape))


def sud_irrep_dim(shape, d):
    """dimension of the SU(d)/GL(d) irrep of Young diagram `shape`: prod (d + content) / hook (0 if more than d rows)."""
    shape = [int(x) for x in shape]
    if len(shape) > d:
        return 0
    r = Fraction(1)
    hooks = hook_lengths(shape)
    for i, row in enumerate(hooks):
        for j, h in enumerate(row):
            r *= Fraction(d + j - i, h)
    assert r.denominator == 1
    return int(r)


def _selfcheck():
    assert [partition_count(n) for n in (1, 2, 3, 4, 5, 10, 20)] == [1, 2, 3, 5, 7, 42, 627]
    for n in range(0, 25):
        assert partition_count(n) == partition_count_euler(n) == partition_count_table(max(n, 1))[n][max(n, 1)] \
            == sum(1 for _ in partitions(n))
    assert syt_count_hook((2, 1)) == 2 and syt_count_hook((4, 3, 1, 1)) == 216
    for n in range(1, 9):
        tot = 0
        for s in partitions(n):
            assert syt_count_hook(s) == syt_count_recursive(s)
            tot += syt_count_hook(s)**2
        assert tot == math.factorial(n)
    assert conjugate((3, 1)) == (2, 1, 1)
    assert sud_irrep_dim((2, 1), 3) == 8 and sud_irrep_dim((1, 1, 1), 2) == 0 and sud_irrep_dim((2,), 2) == 3
    for d, k in ((2, 4), (3, 3)):
        assert sum(sud_irrep_dim(s, d) * syt_count_hook(s) for s in partitions(k)) == d**k


_selfcheck()
