"""Reference model for C05: separable states with an explicit certificate.

Pure numpy; nothing here imports numqi. A *decomposition certificate* for a state rho on parties of dimensions `dims` is
    weights w_i >= 0, sum_i w_i = 1, and unit vectors v_i^(p) in C^{dims[p]}
with  rho = sum_i w_i |v_i^(1) .. v_i^(n)><v_i^(1) .. v_i^(n)|  (party 1 is the left-most Kronecker factor).
`verify()` re-checks every one of these facts before a label "separable for this dim tuple" may be issued.

A few named families are also provided with the reference's own formulas; where an explicit decomposition is known it is
returned (isotropic states 0<=alpha<=1/(d+1), Werner states -1<=alpha<=0 for d=2,3 through a complete set of mutually
unbiased bases, the Horodecki end points), otherwise the certificate is *analytic* (family + parameter inside the separable
range published with the family) and says so.
"""
import itertools
import math

import numpy as np


class Certificate:
    """kind 'decomposition': weights (n,), vectors: list over parties of arrays (n, d_p).
    kind 'analytic': family name + parameter, separable range taken from the literature."""

    def __init__(self, dims, weights=None, vectors=None, kind='decomposition', family=None, param=None, note=None):
        self.dims = tuple(int(x) for x in dims)
        self.kind = kind
        self.weights = None if weights is None else np.asarray(weights, dtype=np.float64)
        self.vectors = None if vectors is None else [np.asarray(v, dtype=np.complex128) for v in vectors]
        self.family = family
        self.param = param
        self.note = note

    @property
    def num_term(self):
        return 0 if self.weights is None else int(self.weights.shape[0])

    def describe(self):
        d = {'dims': list(self.dims), 'kind': self.kind}
        if self.kind == 'decomposition':
            d['terms'] = self.num_term
        else:
            d.update(family=self.family, param=self.param)
        if self.note:
            d['note'] = self.note
        return d


def product_vector(vs):
    out = np.array([1.0 + 0j])
    for v in vs:
        out = np.kron(out, np.asarray(v, dtype=np.complex128))
    return out


def rebuild(cert):
    """sum_i w_i |v_i><v_i| by an explicit loop over the terms."""
    D = int(np.prod(cert.dims))
    out = np.zeros((D, D), dtype=np.complex128)
    for i in range(cert.num_term):
        psi = product_vector([v[i] for v in cert.vectors])
        out += cert.weights[i] * np.outer(psi, psi.conj())
    return out


def verify(cert, rho, tol=1e-12):
    """(ok, reason). Every clause of the definition is checked; rho must equal the rebuilt mixture entry-wise to `tol`."""
    rho = np.asarray(rho)
    D = int(np.prod(cert.dims))
    if rho.shape != (D, D):
        return False, f'shape {rho.shape} does not match dims {cert.dims}'
    if cert.kind == 'analytic':
        ref = FAMILY[cert.family](cert.param)
        if ref is None:
            return False, 'parameter outside the separable range of the family'
        err = float(np.abs(ref - rho).max())
        return (err <= tol), f'analytic family {cert.family}({cert.param}); |rho-ref|max={err:.2e}'
    w, vs = cert.weights, cert.vectors
    if w is None or vs is None or len(vs) != len(cert.dims) or w.ndim != 1 or w.shape[0] == 0:
        return False, 'malformed certificate'
    if not np.all(np.isfinite(w)) or w.min() < 0:
        return False, 'negative or non-finite weight'
    if abs(float(w.sum()) - 1) > 1e-12:
        return False, f'weights sum to {w.sum()!r}'
    for p, v in enumerate(vs):
        if v.shape != (w.shape[0], cert.dims[p]):
            return False, f'party {p}: vectors have shape {v.shape}'
        n = np.sqrt((v.real**2 + v.imag**2).sum(axis=1))
        if np.abs(n - 1).max() > 1e-12:
            return False, f'party {p}: vector norms deviate from 1 by {np.abs(n - 1).max():.2e}'
    err = float(np.abs(rebuild(cert) - rho).max())
    return (err <= tol), f'|rho - sum_i w_i prod|max = {err:.2e}'


def coarsenings(dims):
    """all groupings of *adjacent* parties into >= 2 blocks: a product vector across `dims` is a product vector across each
    of them. Returns list of (coarse_dims, blocks) with blocks = list of lists of party indices."""
    n = len(dims)
    ret = []
    for cuts in range(1, n):
        for pos in itertools.combinations(range(1, n), cuts):
            edges = (0,) + pos + (n,)
            blocks = [list(range(edges[i], edges[i + 1])) for i in range(len(edges) - 1)]
            cd = tuple(int(np.prod([dims[p] for p in b])) for b in blocks)
            ret.append((cd, blocks))
    return ret


def coarsen(cert, blocks):
    """the same decomposition seen as a product across the blocks."""
    if cert.kind != 'decomposition':
        raise ValueError('only decomposition certificates can be coarsened')
    vecs = []
    for b in blocks:
        rows = [product_vector([cert.vectors[p][i] for p in b]) for i in range(cert.num_term)]
        vecs.append(np.stack(rows))
    cd = tuple(int(np.prod([cert.dims[p] for p in b])) for b in blocks)
    return Certificate(cd, cert.weights, vecs, note=cert.note)


def gellmann_norm(rho):
    """|v| of rho = I/d + sum_i v_i M_i with Tr(Mi Mj) = 2 delta_ij: sqrt(Tr((rho - I Tr(rho)/d)^2)/2)."""
    rho = np.asarray(rho, dtype=np.complex128)
    d = rho.shape[0]
    t = rho - np.eye(d) * (np.trace(rho) / d)
    return math.sqrt(max(0.0, float(np.vdot(t, t).real) / 2))


def offdiag_max(rho):
    rho = np.asarray(rho)
    return float(np.abs(rho - np.diag(np.diag(rho))).max())


# ----------------------------------------------------------------------------- generators of certificates
def unit(v):
    v = np.asarray(v, dtype=np.complex128)
    return v / math.sqrt(float(np.vdot(v, v).real))


def random_unit(rng, d, real=False):
    v = rng.normal(size=d) + (0 if real else 1j * rng.normal(size=d))
    return unit(v)


def nearby_unit(rng, v, angle, real=False):
    """a unit vector at angle `angle` (radians, on the sphere of the real/complex Hilbert space) from v."""
    d = v.shape[0]
    for _ in range(20):
        u = rng.normal(size=d) + (0 if real else 1j * rng.normal(size=d))
        u = u - v * np.vdot(v, u)
        n = math.sqrt(float(np.vdot(u, u).real))
        if n > 1e-3:
            u = u / n
            return unit(math.cos(angle) * v + math.sin(angle) * u)
    raise RuntimeError('could not build an orthogonal direction')


def basis_vector(d, i):
    e = np.zeros(d, dtype=np.complex128)
    e[i] = 1
    return e


def cert_from_terms(dims, weights, terms):
    """terms: list (over terms) of lists (over parties) of vectors."""
    w = np.asarray(weights, dtype=np.float64)
    w = w / w.sum()
    vecs = [np.stack([unit(t[p]) for t in terms]) for p in range(len(dims))]
    return Certificate(dims, w, vecs)


def product_basis_cert(dims, weights=None):
    """mixture of all computational-basis product states (uniform weights: the maximally mixed state)."""
    idx = list(itertools.product(*[range(d) for d in dims]))
    if weights is None:
        weights = np.ones(len(idx))
    terms = [[basis_vector(d, i) for d, i in zip(dims, t)] for t in idx]
    return cert_from_terms(dims, weights, terms)


def expand_local_mixture(dims, weights, local_dms):
    """sum_i w_i rho_i^(1) (x) .. (x) rho_i^(n) with local density matrices -> pure product terms through the
    eigen-decomposition of every factor. Eigenvalues below 0 are clipped (and must be > -1e-12)."""
    W, T = [], []
    for wi, dms in zip(weights, local_dms):
        eig = []
        for m in dms:
            m = np.asarray(m, dtype=np.complex128)
            evl, evc = np.linalg.eigh((m + m.conj().T) / 2)
            if evl[0] < -1e-12:
                raise ValueError('local factor is not positive semidefinite')
            eig.append((np.clip(evl, 0, None), evc))
        for combo in itertools.product(*[range(len(e[0])) for e in eig]):
            ww = float(wi)
            for (evl, _), j in zip(eig, combo):
                ww *= float(evl[j])
            if ww <= 0:
                continue
            W.append(ww)
            T.append([evc[:, j] for (_, evc), j in zip(eig, combo)])
    return cert_from_terms(dims, W, T)


# ----------------------------------------------------------------------------- mutually unbiased bases (projective 2-design)
def mub_vectors(d):
    """d(d+1) unit vectors forming a complete set of mutually unbiased bases for d = 2, 3."""
    if d == 2:
        s = 1 / math.sqrt(2)
        return np.array([[1, 0], [0, 1], [s, s], [s, -s], [s, 1j * s], [s, -1j * s]], dtype=np.complex128)
    if d == 3:
        w = np.exp(2j * np.pi / 3)
        vs = [basis_vector(3, i) for i in range(3)]
        for m in range(3):
            for k in range(3):
                vs.append(np.array([w**((m * j * j + k * j) % 3) for j in range(3)], dtype=np.complex128) / math.sqrt(3))
        return np.stack(vs)
    raise ValueError('complete MUB set implemented for d=2,3 only')


def swap_operator(d):
    s = np.zeros((d * d, d * d), dtype=np.complex128)
    for i in range(d):
        for j in range(d):
            s[i * d + j, j * d + i] = 1
    return s


def max_entangled_proj(d):
    """|Phi+><Phi+|, Phi+ = sum_i |ii>/sqrt(d)"""
    psi = np.zeros(d * d, dtype=np.complex128)
    for i in range(d):
        psi[i * d + i] = 1 / math.sqrt(d)
    return np.outer(psi, psi.conj())


def ref_werner(d, alpha):
    """(I - alpha SWAP)/(d^2 - d alpha), alpha in [-1, 1]; separable iff alpha <= 1/d."""
    return (np.eye(d * d) - alpha * swap_operator(d)) / (d * d - d * alpha)


def ref_isotropic(d, alpha):
    """(1-alpha) I/d^2 + alpha |Phi+><Phi+|, alpha in [-1/(d^2-1), 1]; separable iff alpha <= 1/(d+1)."""
    return (1 - alpha) * np.eye(d * d) / (d * d) + alpha * max_entangled_proj(d)


def ref_horodecki3x3(a):
    """Horodecki 1997 3x3 family (entries written out from the paper's matrix); separable only at a=0 and a=1."""
    x = a / (8 * a + 1)
    m = np.zeros((9, 9), dtype=np.complex128)
    for i in range(9):
        m[i, i] = x
    for i, j in [(0, 4), (0, 8), (4, 8)]:
        m[i, j] = x
        m[j, i] = x
    m[6, 6] = (1 + a) / (2 * (8 * a + 1))
    m[8, 8] = (1 + a) / (2 * (8 * a + 1))
    m[6, 8] = math.sqrt(1 - a * a) / (2 * (8 * a + 1))
    m[8, 6] = m[6, 8]
    return m


def ref_horodecki2x4(b):
    x = b / (7 * b + 1)
    m = np.zeros((8, 8), dtype=np.complex128)
    for i in range(8):
        m[i, i] = x
    for i, j in [(0, 5), (1, 6), (2, 7)]:
        m[i, j] = x
        m[j, i] = x
    m[4, 4] = (1 + b) / (2 * (7 * b + 1))
    m[7, 7] = (1 + b) / (2 * (7 * b + 1))
    m[4, 7] = math.sqrt(1 - b * b) / (2 * (7 * b + 1))
    m[7, 4] = m[4, 7]
    return m


def ref_antoine(q):
    """two-qutrit family of Antoine et al. 2022: separable for q in [0, 1/2] (by symmetry also [-1/2, 0])."""
    bp, bm = (2.5 + q) / 21, (2.5 - q) / 21
    m = np.diag(np.array([2 / 21, bm, bp, bp, 2 / 21, bm, bm, bp, 2 / 21])).astype(np.complex128)
    for i, j in [(0, 4), (0, 8), (4, 8)]:
        m[i, j] = 2 / 21
        m[j, i] = 2 / 21
    return m


def _fam_werner(param):
    d, alpha = param
    return ref_werner(d, alpha) if -1 <= alpha <= 1 / d else None


def _fam_isotropic(param):
    d, alpha = param
    return ref_isotropic(d, alpha) if -1 / (d * d - 1) <= alpha <= 1 / (d + 1) else None


def _fam_antoine(param):
    (q,) = param
    return ref_antoine(q) if 0 <= q <= 0.5 else None


def _fam_h2x4(param):
    (b,) = param
    return ref_horodecki2x4(b) if b in (0, 1) else None


FAMILY = {'werner': _fam_werner, 'isotropic': _fam_isotropic, 'antoine2022': _fam_antoine, 'horodecki2x4': _fam_h2x4}


def isotropic_cert(d, alpha):
    """explicit decomposition for 0 <= alpha <= 1/(d+1), d in {2,3}:
    rho = t * mean_v |v v^*><v v^*| + (1-t) I/d^2 with t = alpha (d+1), v over a complete MUB set (a 2-design:
    mean |v v^*><v v^*| = (I + d |Phi+><Phi+|)/(d(d+1)))."""
    if d in (2, 3) and 0 <= alpha <= 1 / (d + 1):
        t = alpha * (d + 1)
        vs = mub_vectors(d)
        n = len(vs)
        basis = product_basis_cert((d, d))
        w = np.concatenate([np.full(n, t / n), (1 - t) * basis.weights])
        va = np.concatenate([vs, basis.vectors[0]])
        vb = np.concatenate([vs.conj(), basis.vectors[1]])
        keep = w > 0
        return Certificate((d, d), w[keep] / w[keep].sum(), [va[keep], vb[keep]], note=f'isotropic({d},{alpha}) via MUB 2-design')
    return Certificate((d, d), kind='analytic', family='isotropic', param=(d, float(alpha)))


def werner_cert(d, alpha):
    """explicit decomposition for -1 <= alpha <= 0, d in {2,3}: rho = s * mean_v |v v><v v| + (1-s) I/d^2 with
    s = -alpha (d+1)/(d-alpha) (mean |v v><v v| = (I + SWAP)/(d(d+1)))."""
    if d in (2, 3) and -1 <= alpha <= 0:
        s = -alpha * (d + 1) / (d - alpha)
        vs = mub_vectors(d)
        n = len(vs)
        basis = product_basis_cert((d, d))
        w = np.concatenate([np.full(n, s / n), (1 - s) * basis.weights])
        va = np.concatenate([vs, basis.vectors[0]])
        vb = np.concatenate([vs, basis.vectors[1]])
        keep = w > 0
        return Certificate((d, d), w[keep] / w[keep].sum(), [va[keep], vb[keep]], note=f'werner({d},{alpha}) via MUB 2-design')
    return Certificate((d, d), kind='analytic', family='werner', param=(d, float(alpha)))


def horodecki3x3_cert(a):
    """a=0: the pure product state |2>(|0>+|2>)/sqrt2. a=1: mean over phases (Z3 x Z3 x Z3) of |v v^*><v v^*| with
    v = (w^k0, w^k1, w^k2)/sqrt3, which equals (I + sum_{i!=j}|ii><jj|)/9."""
    if a == 0:
        return cert_from_terms((3, 3), [1.0], [[basis_vector(3, 2), np.array([1, 0, 1], dtype=np.complex128)]])
    if a == 1:
        w = np.exp(2j * np.pi / 3)
        terms = []
        for ks in itertools.product(range(3), repeat=3):
            v = np.array([w**k for k in ks], dtype=np.complex128) / math.sqrt(3)
            terms.append([v, v.conj()])
        return cert_from_terms((3, 3), np.ones(len(terms)), terms)
    raise ValueError('separable only at a in {0,1}')


def horodecki2x4_cert(b):
    """b=0: the pure product state |1>(|0>+|3>)/sqrt2; b=1: analytic."""
    if b == 0:
        return cert_from_terms((2, 4), [1.0], [[basis_vector(2, 1), np.array([1, 0, 0, 1], dtype=np.complex128)]])
    return Certificate((2, 4), kind='analytic', family='horodecki2x4', param=(int(b),))


def antoine_cert(q):
    return Certificate((3, 3), kind='analytic', family='antoine2022', param=(float(q),))


def _selfcheck():
    for d in (2, 3):
        vs = mub_vectors(d)
        g = np.abs(vs.conj() @ vs.T)**2
        for i in range(len(vs)):
            for j in range(len(vs)):
                same_basis = (i // d) == (j // d)
                expect = (1.0 if i == j else 0.0) if same_basis else 1 / d
                assert abs(g[i, j] - expect) < 1e-12
        design = sum(np.outer(np.kron(v, v.conj()), np.kron(v, v.conj()).conj()) for v in vs) / len(vs)
        assert np.abs(design - (np.eye(d * d) + d * max_entangled_proj(d)) / (d * (d + 1))).max() < 1e-12
        for alpha in (0.0, 0.1, 1 / (d + 1)):
            c = isotropic_cert(d, alpha)
            assert c.kind == 'decomposition' and verify(c, ref_isotropic(d, alpha))[0]
        for alpha in (-1.0, -0.3, 0.0):
            c = werner_cert(d, alpha)
            assert c.kind == 'decomposition' and verify(c, ref_werner(d, alpha))[0]
        assert werner_cert(d, 1 / d).kind == 'analytic' and verify(werner_cert(d, 1 / d), ref_werner(d, 1 / d))[0]
    for a in (0, 1):
        assert verify(horodecki3x3_cert(a), ref_horodecki3x3(a))[0]
    assert verify(horodecki2x4_cert(0), ref_horodecki2x4(0))[0]
    c = product_basis_cert((2, 3, 2))
    assert verify(c, np.eye(12) / 12)[0]
    for cd, blocks in coarsenings((2, 3, 2)):
        assert verify(coarsen(c, blocks), np.eye(12) / 12)[0]
    assert sorted(cd for cd, _ in coarsenings((2, 3, 2))) == [(2, 3, 2), (2, 6), (6, 2)]
    bad = Certificate((2, 2), [0.5, 0.5], [np.eye(2), np.eye(2)])
    assert not verify(bad, np.eye(4) / 4)[0]


_selfcheck()
