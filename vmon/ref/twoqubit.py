"""Reference model for the two-qubit entanglement measures and the convex-roof ensembles (C13, used by C05 too).

Pure numpy/scipy; nothing here imports numqi. Conventions: bipartite index (a, b) -> a*dB + b (A is the left
Kronecker factor), natural logarithm, a pure bipartite state is the coefficient matrix psi[a, b].

Routes chosen to differ from numqi's:
  * concurrence: the Wootters numbers are the *singular values* of the complex symmetric matrix A^T (Y(x)Y) A with
    rho = A A^dagger (Takagi form; numqi takes sqrt of eigvalsh(sqrt(rho) rho~ sqrt(rho))), own spin flip matrix;
  * entropy / geometric measure: written in terms of q = C^2 / (2 (1 + sqrt(1-C^2))) = (1-sqrt(1-C^2))/2 (no cancellation),
    0 log 0 = 0 by scipy.special.xlogy;
  * partial transpose: explicit digit arithmetic on the indices (no reshape/transpose);
  * pure states: Schmidt coefficients by SVD.
"""
import functools
import math

import numpy as np
import scipy.special

LOG2 = math.log(2.0)
SY = np.array([[0, -1j], [1j, 0]], dtype=np.complex128)
YY = np.kron(SY, SY)  # real matrix: antidiag(-1, 1, 1, -1)


def herm(x):
    x = np.asarray(x, dtype=np.complex128)
    return (x + x.conj().T) / 2


# ----------------------------------------------------------------------------- partial transpose (any number of parties)
@functools.lru_cache(maxsize=None)
def _pt_index(dims, party):
    """index arrays (I, J) such that PT_party(rho)[i, j] = rho[I[i, j], J[i, j]]: the digit of `party` is exchanged
    between the row and the column index. Built by explicit mixed-radix digit arithmetic."""
    dims = tuple(int(x) for x in dims)
    D = 1
    for x in dims:
        D *= x
    stride = 1
    for x in dims[party + 1:]:
        stride *= x
    dp = dims[party]
    I = np.empty((D, D), dtype=np.int64)
    J = np.empty((D, D), dtype=np.int64)
    for i in range(D):
        di = (i // stride) % dp
        for j in range(D):
            dj = (j // stride) % dp
            I[i, j] = i + (dj - di) * stride
            J[i, j] = j + (di - dj) * stride
    I.flags.writeable = False
    J.flags.writeable = False
    return I, J


def partial_transpose(rho, dims, party):
    rho = np.asarray(rho, dtype=np.complex128)
    I, J = _pt_index(tuple(int(x) for x in dims), int(party))
    return rho[I, J]


def pt_eigenvalues(rho, dims, party=None):
    """ascending eigenvalues of the partial transpose on `party` (default: last party)."""
    if party is None:
        party = len(dims) - 1
    return np.linalg.eigvalsh(herm(partial_transpose(rho, dims, party)))


def pt_min_eig_all(rho, dims):
    """smallest eigenvalue over the partial transposes on every single party."""
    return min(float(pt_eigenvalues(rho, dims, p)[0]) for p in range(len(dims)))


def negativity(rho, dims):
    """sum of the absolute values of the negative eigenvalues of the partial transpose (two parties)."""
    ev = pt_eigenvalues(rho, dims, 1)
    return float(-ev[ev < 0].sum())


# ----------------------------------------------------------------------------- closed forms on two qubits
def psd_factor(rho, rank=None):
    """A (d x r) with A A^dagger = rho (eigenvalues clipped at 0, the r largest kept)."""
    evl, evc = np.linalg.eigh(herm(rho))
    evl = np.clip(evl, 0, None)
    if rank is not None:
        evl, evc = evl[-rank:], evc[:, -rank:]
    return evc * np.sqrt(evl)


def wootters_numbers(rho):
    """descending lambda_1..lambda_4: square roots of the eigenvalues of rho rho~, rho~ = (Y(x)Y) rho^* (Y(x)Y),
    computed as the singular values of A^T (Y(x)Y) A."""
    A = psd_factor(rho)
    T = A.T @ YY @ A
    return np.linalg.svd(T, compute_uv=False)


def concurrence(rho):
    lam = wootters_numbers(rho)
    return float(max(0.0, lam[0] - lam[1] - lam[2] - lam[3]))


def q_of_concurrence(C):
    """q = (1 - sqrt(1-C^2))/2 without cancellation."""
    C = min(max(float(C), 0.0), 1.0)
    return C * C / (2 * (1 + math.sqrt(1 - C * C)))


def binary_entropy(x):
    return float(-scipy.special.xlogy(x, x) - scipy.special.xlogy(1 - x, 1 - x))


def eof_of_concurrence(C):
    """h((1+sqrt(1-C^2))/2), natural log."""
    q = q_of_concurrence(C)
    return float(-scipy.special.xlogy(q, q) - scipy.special.xlog1py(1 - q, -q))


def gme_of_concurrence(C):
    return q_of_concurrence(C)


def linear_entropy_of_concurrence(C):
    """convex roof of the linear entropy 1-Tr(rho_A^2) on two qubits: a pure state has 1-Tr rho_A^2 = C^2/2 and the roof of
    C^2 is C(rho)^2 (all members of Wootters' optimal ensemble have the same concurrence; Jensen for the other direction)."""
    C = min(max(float(C), 0.0), 1.0)
    return C * C / 2


def eof(rho):
    return eof_of_concurrence(concurrence(rho))


def gme(rho):
    return gme_of_concurrence(concurrence(rho))


# ----------------------------------------------------------------------------- pure bipartite states psi[a, b]
def schmidt2(psi):
    """squared Schmidt coefficients (not normalised: they sum to |psi|^2)."""
    s = np.linalg.svd(np.asarray(psi, dtype=np.complex128), compute_uv=False)
    return s * s


def _pair_sum(s2):
    """sum_{j<k} s2_j s2_k"""
    t = 0.0
    for j in range(len(s2)):
        for k in range(j + 1, len(s2)):
            t += float(s2[j]) * float(s2[k])
    return t


def concurrence_pure_weighted(psi):
    """p * C(psi/|psi|) with p = |psi|^2 and C = sqrt(2 (1 - Tr rho_A^2)): equals 2 sqrt(sum_{j<k} s_j^2 s_k^2)
    (for two qubits: 2 |det psi|)."""
    return 2 * math.sqrt(_pair_sum(schmidt2(psi)))


def concurrence_pure(psi):
    psi = np.asarray(psi, dtype=np.complex128)
    p = float(np.vdot(psi, psi).real)
    return concurrence_pure_weighted(psi) / p


def entropy_pure_weighted(psi):
    """p * S(rho_A of psi/|psi|), p = |psi|^2: -sum s2 log s2 + p log p."""
    s2 = schmidt2(psi)
    p = float(s2.sum())
    return float(-scipy.special.xlogy(s2, s2).sum() + scipy.special.xlogy(p, p))


def eof_pure(psi):
    psi = np.asarray(psi, dtype=np.complex128)
    p = float(np.vdot(psi, psi).real)
    return entropy_pure_weighted(psi / math.sqrt(p))


def linear_entropy_pure_weighted(psi):
    """p (1 - Tr rho_A^2) = p - sum s2^2 / p = 2 sum_{j<k} s2_j s2_k / p"""
    s2 = schmidt2(psi)
    p = float(s2.sum())
    if p <= 0:
        return 0.0
    return 2 * _pair_sum(s2) / p


def gme_pure_weighted(psi):
    """p (1 - max Schmidt coefficient^2 of psi/|psi|) = p - s2_max: the largest squared overlap with a product state is
    the largest squared singular value."""
    s2 = schmidt2(psi)
    return float(s2.sum() - s2.max())


# ----------------------------------------------------------------------------- ensembles of the convex-roof models
def ensemble(S, M):
    """S: (dA, dB, r) with sum_k S[..k] S[..k]^* = rho; M: (N, r) Stiefel point. Member i is psi_i = sum_k S[:,:,k] M[i,k]."""
    S = np.asarray(S, dtype=np.complex128)
    M = np.asarray(M, dtype=np.complex128)
    return np.einsum('abk,ik->iab', S, M)


def ensemble_state(psis):
    """sum_i |psi_i><psi_i| as a (dA dB x dA dB) matrix, by an explicit loop."""
    psis = np.asarray(psis, dtype=np.complex128)
    d = psis.shape[1] * psis.shape[2]
    out = np.zeros((d, d), dtype=np.complex128)
    for psi in psis:
        v = psi.reshape(-1)
        out += np.outer(v, v.conj())
    return out


def ensemble_value(psis, kind):
    """the ensemble average sum_i p_i E(psi_i/sqrt(p_i)) of a pure-state measure E."""
    f = {'eof': entropy_pure_weighted, 'concurrence': concurrence_pure_weighted,
         'linear_entropy': linear_entropy_pure_weighted, 'gme': gme_pure_weighted}[kind]
    return float(sum(f(psi) for psi in psis))


def closed_form(rho, kind):
    """the closed-form convex roof of the same measure on two qubits."""
    C = concurrence(rho)
    return {'eof': eof_of_concurrence, 'concurrence': lambda c: c, 'linear_entropy': linear_entropy_of_concurrence,
            'gme': gme_of_concurrence}[kind](C)


def product_overlap_loss(psis, kets):
    """1 - sum_i |sum_ab psi_i[a,b] x_i[a] y_i[b]|^2 for unit vectors x_i, y_i (kets = [X (N,dA), Y (N,dB)])."""
    X, Y = [np.asarray(k, dtype=np.complex128) for k in kets]
    t = 0.0
    for psi, x, y in zip(psis, X, Y):
        ov = 0j
        for a in range(psi.shape[0]):
            for b in range(psi.shape[1]):
                ov += psi[a, b] * x[a] * y[b]
        t += abs(ov)**2
    return 1 - t


# ----------------------------------------------------------------------------- states (own constructions)
def bell(i=0):
    s = 1 / math.sqrt(2)
    return np.array([[s, 0, 0, s], [s, 0, 0, -s], [0, s, s, 0], [0, s, -s, 0]][i], dtype=np.complex128)


def proj(v):
    v = np.asarray(v, dtype=np.complex128)
    return np.outer(v, v.conj())


def werner2(p):
    """p |psi-><psi-| + (1-p) I/4 ; concurrence max(0, (3p-1)/2), separable iff p <= 1/3."""
    return p * proj(bell(3)) + (1 - p) * np.eye(4) / 4


def isotropic2(p):
    """p |phi+><phi+| + (1-p) I/4 ; concurrence max(0, (3p-1)/2)."""
    return p * proj(bell(0)) + (1 - p) * np.eye(4) / 4


def bell_diagonal(w):
    """sum_i w_i |bell_i><bell_i| ; concurrence max(0, 2 max(w) - 1)."""
    return sum(float(wi) * proj(bell(i)) for i, wi in enumerate(w))


def _selfcheck():
    # spin flip is what it should be
    assert np.array_equal(YY, np.fliplr(np.diag([-1, 1, 1, -1])).astype(np.complex128))
    for i in range(4):
        assert abs(concurrence(proj(bell(i))) - 1) < 1e-12
    prod = np.kron([0.6, 0.8j], [1 / math.sqrt(2), -1 / math.sqrt(2)])
    assert concurrence(proj(prod)) < 1e-12
    for p in (0.0, 0.2, 1 / 3, 0.5, 0.9, 1.0):
        assert abs(concurrence(werner2(p)) - max(0, (3 * p - 1) / 2)) < 1e-12
        assert abs(negativity(werner2(p), (2, 2)) - max(0, (3 * p - 1) / 4)) < 1e-12
    w = np.array([0.7, 0.1, 0.15, 0.05])
    assert abs(concurrence(bell_diagonal(w)) - 0.4) < 1e-12
    psi = np.array([[0.8, 0.1j], [0.2, 0.5]], dtype=np.complex128)
    psi = psi / np.linalg.norm(psi)
    c = 2 * abs(np.linalg.det(psi))
    assert abs(concurrence(proj(psi.reshape(-1))) - c) < 1e-12 and abs(concurrence_pure(psi) - c) < 1e-12
    assert abs(eof_pure(psi) - eof_of_concurrence(c)) < 1e-12
    assert abs(eof_of_concurrence(1.0) - LOG2) < 1e-15 and eof_of_concurrence(0.0) == 0.0
    assert abs(gme_of_concurrence(1.0) - 0.5) < 1e-15
    assert abs(binary_entropy(0.3) - eof_of_concurrence(2 * math.sqrt(0.3 * 0.7))) < 1e-14
    # partial transpose: product operators transpose one factor, and it is an involution
    a = np.arange(4).reshape(2, 2) + 1j
    b = np.arange(9).reshape(3, 3) - 2j
    assert np.array_equal(partial_transpose(np.kron(a, b), (2, 3), 1), np.kron(a, b.T))
    assert np.array_equal(partial_transpose(np.kron(a, b), (2, 3), 0), np.kron(a.T, b))
    c3 = np.kron(np.kron(a, b), a)
    assert np.array_equal(partial_transpose(c3, (2, 3, 2), 1), np.kron(np.kron(a, b.T), a))


_selfcheck()
