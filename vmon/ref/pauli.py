"""Reference Pauli algebra: an element is (k, letters) meaning i^k * letters[0] (x) letters[1] (x) ...
Nothing here imports numqi. Qubit 0 is the left-most Kronecker factor."""
import itertools
import functools
import numpy as np

S = {
    'I': np.array([[1, 0], [0, 1]], dtype=np.complex128),
    'X': np.array([[0, 1], [1, 0]], dtype=np.complex128),
    'Y': np.array([[0, -1j], [1j, 0]], dtype=np.complex128),
    'Z': np.array([[1, 0], [0, -1]], dtype=np.complex128),
}
LETTERS = 'IXYZ'

# hand-written single-qubit multiplication table: a*b = i^k c
_MUL = {
    ('I', 'I'): (0, 'I'), ('I', 'X'): (0, 'X'), ('I', 'Y'): (0, 'Y'), ('I', 'Z'): (0, 'Z'),
    ('X', 'I'): (0, 'X'), ('X', 'X'): (0, 'I'), ('X', 'Y'): (1, 'Z'), ('X', 'Z'): (3, 'Y'),
    ('Y', 'I'): (0, 'Y'), ('Y', 'X'): (3, 'Z'), ('Y', 'Y'): (0, 'I'), ('Y', 'Z'): (1, 'X'),
    ('Z', 'I'): (0, 'Z'), ('Z', 'X'): (1, 'Y'), ('Z', 'Y'): (3, 'X'), ('Z', 'Z'): (0, 'I'),
}


def _selfcheck():
    for (a, b), (k, c) in _MUL.items():
        assert np.array_equal(S[a] @ S[b], (1j**k) * S[c]), (a, b)


_selfcheck()


def mul(p, q):
    k = (p[0] + q[0]) % 4
    out = []
    for a, b in zip(p[1], q[1]):
        kk, c = _MUL[(a, b)]
        k = (k + kk) % 4
        out.append(c)
    return k, ''.join(out)


def inv(p):
    # letters are involutions; (i^k P)^-1 = i^-k P
    return (-p[0]) % 4, p[1]


def commute(p, q):
    n = sum(1 for a, b in zip(p[1], q[1]) if a != 'I' and b != 'I' and a != b)
    return n % 2 == 0


def is_hermitian(p):
    return p[0] % 2 == 0


def dense(p):
    m = functools.reduce(np.kron, [S[c] for c in p[1]])
    return (1j**p[0]) * m


def to_f2(p):
    """numqi's documented F2 layout [b0, b1, x_1..x_n, z_1..z_n], operator = i^(2 b0+b1) prod_j X^x_j Z^z_j.
    Y = i X Z, so each Y letter contributes one factor i: i^k letters = i^(k + #Y) prod X^x Z^z."""
    k, s = p
    x = [1 if c in 'XY' else 0 for c in s]
    z = [1 if c in 'ZY' else 0 for c in s]
    kk = (k + s.count('Y')) % 4
    return np.array([kk // 2, kk % 2] + x + z, dtype=np.uint8)


def from_f2(v):
    v = [int(t) for t in v]
    n = (len(v) - 2) // 2
    x, z = v[2:2 + n], v[2 + n:]
    s = ''.join({(0, 0): 'I', (1, 0): 'X', (0, 1): 'Z', (1, 1): 'Y'}[(a, b)] for a, b in zip(x, z))
    k = (2 * v[0] + v[1] - s.count('Y')) % 4
    return k, s


def f2_dense(v):
    """dense matrix straight from the F2 definition (independent of from_f2/dense)."""
    v = [int(t) for t in v]
    n = (len(v) - 2) // 2
    mats = []
    for j in range(n):
        m = np.eye(2, dtype=np.complex128)
        if v[2 + j]:
            m = m @ S['X']
        if v[2 + n + j]:
            m = m @ S['Z']
        mats.append(m)
    return (1j**(2 * v[0] + v[1])) * functools.reduce(np.kron, mats)


def index_of(s):
    r = 0
    for c in s:
        r = r * 4 + LETTERS.index(c)
    return r


def str_of(index, n):
    out = []
    for _ in range(n):
        out.append(LETTERS[index % 4])
        index //= 4
    return ''.join(reversed(out))


def all_elements(n):
    for k in range(4):
        for t in itertools.product(LETTERS, repeat=n):
            yield k, ''.join(t)


def all_letters(n):
    for t in itertools.product(LETTERS, repeat=n):
        yield ''.join(t)


def weight(s):
    return sum(1 for c in s if c != 'I')
