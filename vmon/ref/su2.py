"""Reference model for SU(2), SO(3), spin-j representations, angular momentum and Clebsch-Gordan coefficients.
Nothing here imports numqi; nothing here uses Euler-angle extraction.

Conventions (fixed here, then *measured* against numqi by the contracts, not assumed):
  * covering map   U sigma_j U^dagger = sum_i R_ij sigma_i,  i.e.  R_ij = Re Tr(sigma_i U sigma_j U^dagger)/2,
    so that U = exp(-i theta n.sigma/2) covers the active rotation by theta about n (Rodrigues).
  * Euler angles are z-y-z:  R = Rz(alpha) Ry(beta) Rz(gamma),  U = uz(alpha) uy(beta) uz(gamma).
  * spin-j basis |j,m>, m = j, j-1, ..., -j (descending), Condon-Shortley phases.
  * D^j(U) is the action of U on homogeneous polynomials of degree 2j (Schwinger-boson construction):
    it needs no angles, is an exact homomorphism, and D^{1/2}(U) = U.
"""
import math
from fractions import Fraction
import numpy as np

SX = np.array([[0, 1], [1, 0]], dtype=np.complex128)
SY = np.array([[0, -1j], [1j, 0]], dtype=np.complex128)
SZ = np.array([[1, 0], [0, -1]], dtype=np.complex128)
SIGMA = np.stack([SX, SY, SZ])
AXES = {'x': np.array([1.0, 0, 0]), 'y': np.array([0, 1.0, 0]), 'z': np.array([0, 0, 1.0])}


def dagger(a):
    return np.conj(np.swapaxes(a, -1, -2))


# ----------------------------------------------------------------------------- SO(3) / SU(2) elements
def rot3(axis, theta):
    """active rotation by theta about the unit vector `axis` (Rodrigues formula)."""
    n = AXES[axis] if isinstance(axis, str) else np.asarray(axis, dtype=np.float64)
    n = n / np.linalg.norm(n)
    K = np.array([[0, -n[2], n[1]], [n[2], 0, -n[0]], [-n[1], n[0], 0]])
    return np.eye(3) + math.sin(theta) * K + (1 - math.cos(theta)) * (K @ K)


def su2_axis(axis, theta):
    """exp(-i theta n.sigma/2)"""
    n = AXES[axis] if isinstance(axis, str) else np.asarray(axis, dtype=np.float64)
    n = n / np.linalg.norm(n)
    ns = n[0] * SX + n[1] * SY + n[2] * SZ
    return math.cos(theta / 2) * np.eye(2) - 1j * math.sin(theta / 2) * ns


def euler_so3(alpha, beta, gamma):
    """Rz(alpha) Ry(beta) Rz(gamma); scalars or broadcastable arrays -> (...,3,3)."""
    a, b, g = np.broadcast_arrays(np.asarray(alpha, dtype=np.float64), np.asarray(beta, dtype=np.float64), np.asarray(gamma, dtype=np.float64))
    out = np.zeros(a.shape + (3, 3))
    for idx in np.ndindex(a.shape):
        out[idx] = rot3('z', float(a[idx])) @ rot3('y', float(b[idx])) @ rot3('z', float(g[idx]))
    return out


def euler_su2(alpha, beta, gamma):
    a, b, g = np.broadcast_arrays(np.asarray(alpha, dtype=np.float64), np.asarray(beta, dtype=np.float64), np.asarray(gamma, dtype=np.float64))
    out = np.zeros(a.shape + (2, 2), dtype=np.complex128)
    for idx in np.ndindex(a.shape):
        out[idx] = su2_axis('z', float(a[idx])) @ su2_axis('y', float(b[idx])) @ su2_axis('z', float(g[idx]))
    return out


def cover(U):
    """SU(2) -> SO(3): R_ij = Re Tr(sigma_i U sigma_j U^dagger)/2, batched over leading axes."""
    U = np.asarray(U, dtype=np.complex128)
    return 0.5 * np.einsum('iab,...bc,jcd,...ad->...ij', SIGMA, U, SIGMA, np.conj(U)).real


def so3_defect(R):
    """max(|R R^T - 1|, |det R - 1|) per element; inf when not finite/real-valued."""
    R = np.asarray(R)
    if R.size == 0:
        return np.zeros(R.shape[:-2])
    if np.iscomplexobj(R):
        im = np.abs(R.imag).max(axis=(-1, -2))
        R = R.real
    else:
        im = 0
    R = R.astype(np.float64)
    with np.errstate(all='ignore'):
        d0 = np.abs(R @ np.swapaxes(R, -1, -2) - np.eye(3)).max(axis=(-1, -2))
        d1 = np.abs(np.linalg.det(R) - 1)
        ret = np.maximum(np.maximum(d0, d1), im)
    return np.where(np.isfinite(ret), ret, np.inf)


def su2_defect(U):
    U = np.asarray(U, dtype=np.complex128)
    if U.size == 0:
        return np.zeros(U.shape[:-2])
    with np.errstate(all='ignore'):
        d0 = np.abs(U @ dagger(U) - np.eye(2)).max(axis=(-1, -2))
        d1 = np.abs(U[..., 0, 0] * U[..., 1, 1] - U[..., 0, 1] * U[..., 1, 0] - 1)
        ret = np.maximum(d0, d1)
    return np.where(np.isfinite(ret), ret, np.inf)


def unitary_defect(D):
    D = np.asarray(D, dtype=np.complex128)
    n = D.shape[-1]
    with np.errstate(all='ignore'):
        ret = np.abs(D @ dagger(D) - np.eye(n)).max(axis=(-1, -2))
    return np.where(np.isfinite(ret), ret, np.inf)


def polar_so3(R):
    """polar angle of the image of e_z, from the last row: beta in [0,pi] (arctan2: accurate at both poles)."""
    R = np.asarray(R).real
    return np.arctan2(np.hypot(R[..., 2, 0], R[..., 2, 1]), R[..., 2, 2])


def polar_su2(U):
    U = np.asarray(U)
    return 2 * np.arctan2(np.abs(U[..., 0, 1]), np.abs(U[..., 0, 0]))


def pole_distance(beta):
    beta = np.asarray(beta, dtype=np.float64)
    return np.minimum(np.abs(beta), np.abs(np.pi - beta))


def signed_permutations_det1():
    """the 24 signed 3x3 permutation matrices of determinant +1 (rotation group of the cube)."""
    import itertools
    ret = []
    for perm in itertools.permutations(range(3)):
        for signs in itertools.product([1, -1], repeat=3):
            m = np.zeros((3, 3))
            for i in range(3):
                m[i, perm[i]] = signs[i]
            if round(np.linalg.det(m)) == 1:
                ret.append(m)
    assert len(ret) == 24
    return ret


def binary_octahedral():
    """the 48 elements of SU(2) covering the cube group: closure of the quarter turns about x, y, z."""
    gens = [su2_axis(ax, math.pi / 2) for ax in 'xyz']
    elems = [np.eye(2, dtype=np.complex128)]
    frontier = list(elems)
    while frontier:
        new = []
        for e in frontier:
            for g in gens:
                c = g @ e
                if not any(np.abs(c - x).max() < 1e-9 for x in elems):
                    elems.append(c)
                    new.append(c)
        frontier = new
    assert len(elems) == 48
    return elems


# ----------------------------------------------------------------------------- angular momentum, spin-j
def angmom(j2):
    """(Jx, Jy, Jz) for j = j2/2, basis m = j..-j, from J+|m> = sqrt(j(j+1)-m(m+1)) |m+1>."""
    n = j2 + 1
    j = Fraction(j2, 2)
    ms = [j - k for k in range(n)]
    jz = np.diag([float(m) for m in ms]).astype(np.complex128)
    jp = np.zeros((n, n), dtype=np.complex128)
    for k in range(1, n):  # |m_k> -> |m_{k-1}> = |m_k + 1>
        m = ms[k]
        jp[k - 1, k] = math.sqrt(float(j * (j + 1) - m * (m + 1)))
    jm = jp.conj().T
    return (jp + jm) / 2, (jp - jm) / 2j, jz


def _polypow(c, k):
    out = np.array([1.0 + 0j])
    for _ in range(k):
        out = np.convolve(out, c)
    return out


def irrep(j2, U):
    """D^j(U) for one 2x2 matrix U (any invertible matrix; unitary for U in SU(2)).
    basis e_k = x^(n-k) y^k / sqrt((n-k)! k!), k = 0..n (m = j-k); (rho(U) f)(x,y) = f((x,y) U)."""
    n = int(j2)
    U = np.asarray(U, dtype=np.complex128)
    assert U.shape == (2, 2)
    D = np.zeros((n + 1, n + 1), dtype=np.complex128)
    cx = np.array([U[0, 0], U[1, 0]])  # x -> U00 x + U10 y   (coefficients in powers of t=y/x)
    cy = np.array([U[0, 1], U[1, 1]])  # y -> U01 x + U11 y
    lf = [math.lgamma(k + 1) for k in range(n + 2)]
    for k in range(n + 1):
        poly = np.convolve(_polypow(cx, n - k), _polypow(cy, k))  # degree n in t
        for kp in range(n + 1):
            w = math.exp(0.5 * (lf[n - kp] + lf[kp] - lf[n - k] - lf[k]))
            D[kp, k] = w * poly[kp]
    return D


def irrep_batch(j2, U):
    U = np.asarray(U, dtype=np.complex128)
    shape = U.shape[:-2]
    flat = U.reshape(-1, 2, 2)
    out = np.zeros((flat.shape[0], j2 + 1, j2 + 1), dtype=np.complex128)
    for i in range(flat.shape[0]):
        out[i] = irrep(j2, flat[i])
    return out.reshape(shape + (j2 + 1, j2 + 1))


# cartesian (x,y,z) -> spherical (m=+1,0,-1) components, Condon-Shortley: e_{+1} = -(x+iy)/sqrt2, e_0 = z, e_{-1} = (x-iy)/sqrt2
SPH = np.array([[-1, -1j, 0], [0, 0, math.sqrt(2)], [1, -1j, 0]], dtype=np.complex128).T / math.sqrt(2)  # columns = e_m in cartesian


def spin1_from_so3(R):
    """D^1 in the |1,m> basis from the cartesian rotation matrix: SPH^dagger R SPH."""
    R = np.asarray(R, dtype=np.complex128)
    return dagger(SPH) @ R @ SPH


# ----------------------------------------------------------------------------- Clebsch-Gordan (Racah formula)
def _f(n2):
    """factorial of n2/2 (n2 must be an even non-negative integer)."""
    assert n2 % 2 == 0 and n2 >= 0, n2
    return math.factorial(n2 // 2)


def cg(j1d, m1d, j2d, m2d, Jd, Md):
    """<j1 m1 j2 m2 | J M> with all arguments doubled integers; Condon-Shortley convention; exact rational under the root."""
    if m1d + m2d != Md or not (abs(j1d - j2d) <= Jd <= j1d + j2d) or (j1d + j2d + Jd) % 2:
        return 0.0
    if abs(m1d) > j1d or abs(m2d) > j2d or abs(Md) > Jd or (j1d + m1d) % 2 or (j2d + m2d) % 2 or (Jd + Md) % 2:
        return 0.0
    pref = Fraction((Jd + 1) * _f(Jd + j1d - j2d) * _f(Jd - j1d + j2d) * _f(j1d + j2d - Jd), _f(j1d + j2d + Jd + 2))
    pref *= _f(Jd + Md) * _f(Jd - Md) * _f(j1d - m1d) * _f(j1d + m1d) * _f(j2d - m2d) * _f(j2d + m2d)
    s = Fraction(0)
    for k in range(0, (j1d + j2d - Jd) // 2 + 1):
        args = [2 * k, j1d + j2d - Jd - 2 * k, j1d - m1d - 2 * k, j2d + m2d - 2 * k, Jd - j2d + m1d + 2 * k, Jd - j1d - m2d + 2 * k]
        if any(a < 0 for a in args):
            continue
        den = 1
        for a in args:
            den *= _f(a)
        s += Fraction((-1)**k, den)
    val = pref * s * s
    return math.copysign(math.sqrt(float(val)), float(s)) if s != 0 else 0.0


def cg_table(j1d, j2d):
    """list of (Jd, C[Jd+1, j1d+1, j2d+1]) for Jd = |j1d-j2d|, ..., j1d+j2d (step 2), m indices descending."""
    ret = []
    for Jd in range(abs(j1d - j2d), j1d + j2d + 1, 2):
        C = np.zeros((Jd + 1, j1d + 1, j2d + 1))
        for a in range(Jd + 1):
            for b in range(j1d + 1):
                for c in range(j2d + 1):
                    C[a, b, c] = cg(j1d, j1d - 2 * b, j2d, j2d - 2 * c, Jd, Jd - 2 * a)
        ret.append((Jd, C))
    return ret


def total_angmom(j1d, j2d):
    """J1 (x) 1 + 1 (x) J2 for the three components, on the product basis (m1 major, m2 minor, both descending)."""
    a = angmom(j1d)
    b = angmom(j2d)
    return [np.kron(x, np.eye(j2d + 1)) + np.kron(np.eye(j1d + 1), y) for x, y in zip(a, b)]


def block_angmom(Jds):
    n = sum(J + 1 for J in Jds)
    out = [np.zeros((n, n), dtype=np.complex128) for _ in range(3)]
    p = 0
    for J in Jds:
        ops = angmom(J)
        for k in range(3):
            out[k][p:p + J + 1, p:p + J + 1] = ops[k]
        p += J + 1
    return out


# ----------------------------------------------------------------------------- self-check of the reference
def _selfcheck():
    rng = np.random.default_rng(12345)
    for _ in range(4):
        n = rng.normal(size=3)
        th = float(rng.uniform(-7, 7))
        U = su2_axis(n, th)
        R = rot3(n, th)
        assert su2_defect(U) < 1e-13 and so3_defect(R) < 1e-13
        assert np.abs(cover(U) - R).max() < 1e-13
        V = su2_axis(rng.normal(size=3), float(rng.uniform(-7, 7)))
        assert np.abs(cover(U @ V) - cover(U) @ cover(V)).max() < 1e-13
        assert np.abs(spin1_from_so3(cover(U)) - irrep(2, U)).max() < 1e-13
        for j2 in (0, 1, 2, 3, 6):
            D = irrep(j2, U)
            assert unitary_defect(D) < 1e-12
            assert np.abs(irrep(j2, U @ V) - D @ irrep(j2, V)).max() < 1e-12
            if j2 == 1:
                assert np.abs(D - U).max() < 1e-14
    # generators: d/dtheta D^j(exp(-i theta s_k/2)) at 0 = -i J_k
    h = 1e-6
    for j2 in (1, 2, 5):
        J = angmom(j2)
        for k, ax in enumerate('xyz'):
            d = (irrep(j2, su2_axis(ax, h)) - irrep(j2, su2_axis(ax, -h))) / (2 * h)
            assert np.abs(d + 1j * J[k]).max() < 1e-8
        jj = (j2 / 2) * (j2 / 2 + 1)
        assert np.abs(J[0] @ J[1] - J[1] @ J[0] - 1j * J[2]).max() < 1e-13
        assert np.abs(J[0] @ J[0] + J[1] @ J[1] + J[2] @ J[2] - jj * np.eye(j2 + 1)).max() < 1e-12
    # CG: known values and unitarity / intertwining
    assert abs(cg(1, 1, 1, -1, 2, 0) - math.sqrt(0.5)) < 1e-15 and abs(cg(1, 1, 1, -1, 0, 0) - math.sqrt(0.5)) < 1e-15
    assert abs(cg(1, -1, 1, 1, 0, 0) + math.sqrt(0.5)) < 1e-15
    assert abs(cg(2, 0, 1, 1, 1, 1) + math.sqrt(1 / 3)) < 1e-15 and abs(cg(2, 2, 1, -1, 1, 1) - math.sqrt(2 / 3)) < 1e-15
    for j1d, j2d in ((1, 1), (2, 1), (3, 2), (0, 3)):
        tab = cg_table(j1d, j2d)
        W = np.concatenate([c.reshape(c.shape[0], -1) for _, c in tab], axis=0)
        assert np.abs(W @ W.T - np.eye(W.shape[0])).max() < 1e-13
        tot = total_angmom(j1d, j2d)
        blk = block_angmom([J for J, _ in tab])
        for k in range(3):
            assert np.abs(W @ tot[k] @ W.T - blk[k]).max() < 1e-13


_selfcheck()
