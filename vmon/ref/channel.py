"""Reference model for quantum channels (C12). Nothing here imports numqi.

Conventions (the ones *documented* in numqi/channel/_internal.py and numqi/random/_internal.py, re-derived here from
the definition of the channel E(rho) = sum_k K_k rho K_k^dagger, never from numqi code):

  Kraus       K[k, a, i]                      shape (terms, dim_out, dim_in)
  Choi        C[i, a, j, b] = E(|i><j|)[a, b]   index order (in, out, in, out); matrix form (i*dout+a, j*dout+b)
  super-op    S[a*dout+b, i*din+j] = E(|i><j|)[a, b]   i.e. acts on the row-major vectorisation of rho
  Bloch map   rho = I/d + sum_m r_m G_m  (G_m generalised Gell-Mann, Tr G_m G_n = 2 delta_mn, order: symmetric (i<j,
              row-major), antisymmetric (same order), diagonal l=1..d-1);   r_out = A r_in + b

Everything is written with explicit loops / explicit index expressions on purpose (sizes are <= 5x5).
"""
import numpy as np


# ----------------------------------------------------------------------------------------------- channel action
def apply_kraus(kop, rho):
    kop = np.asarray(kop, dtype=np.complex128)
    rho = np.asarray(rho, dtype=np.complex128)
    out = np.zeros((kop.shape[1], kop.shape[1]), dtype=np.complex128)
    for k in range(kop.shape[0]):
        out += kop[k] @ rho @ kop[k].conj().T
    return out


def matrix_unit(d, i, j):
    m = np.zeros((d, d), dtype=np.complex128)
    m[i, j] = 1
    return m


def choi4_from_kraus(kop):
    """C[i,a,j,b] = E(|i><j|)[a,b], built column by column from the channel action itself."""
    kop = np.asarray(kop, dtype=np.complex128)
    _, dout, din = kop.shape
    c4 = np.zeros((din, dout, din, dout), dtype=np.complex128)
    for i in range(din):
        for j in range(din):
            c4[i, :, j, :] = apply_kraus(kop, matrix_unit(din, i, j))
    return c4


def choi_from_kraus(kop):
    c4 = choi4_from_kraus(kop)
    n = c4.shape[0] * c4.shape[1]
    return c4.reshape(n, n)


def super_from_choi4(c4):
    """S[a*dout+b, i*din+j] = C[i,a,j,b] (explicit loops)."""
    din, dout = c4.shape[:2]
    s = np.zeros((dout * dout, din * din), dtype=np.complex128)
    for i in range(din):
        for j in range(din):
            for a in range(dout):
                for b in range(dout):
                    s[a * dout + b, i * din + j] = c4[i, a, j, b]
    return s


def choi4_from_super(s, din, dout):
    s = np.asarray(s, dtype=np.complex128)
    c4 = np.zeros((din, dout, din, dout), dtype=np.complex128)
    for i in range(din):
        for j in range(din):
            for a in range(dout):
                for b in range(dout):
                    c4[i, a, j, b] = s[a * dout + b, i * din + j]
    return c4


def super_from_kraus(kop):
    return super_from_choi4(choi4_from_kraus(kop))


def apply_choi4(c4, rho):
    """E(rho) = sum_ij rho[i,j] E(|i><j|) = sum_ij rho[i,j] C[i,:,j,:]."""
    c4 = np.asarray(c4, dtype=np.complex128)
    rho = np.asarray(rho, dtype=np.complex128)
    din, dout = c4.shape[:2]
    out = np.zeros((dout, dout), dtype=np.complex128)
    for i in range(din):
        for j in range(din):
            out += rho[i, j] * c4[i, :, j, :]
    return out


def apply_super(s, rho):
    s = np.asarray(s, dtype=np.complex128)
    rho = np.asarray(rho, dtype=np.complex128)
    din = rho.shape[0]
    dout = int(round(np.sqrt(s.shape[0])))
    out = np.zeros((dout, dout), dtype=np.complex128)
    for a in range(dout):
        for b in range(dout):
            acc = 0
            for i in range(din):
                for j in range(din):
                    acc += s[a * dout + b, i * din + j] * rho[i, j]
            out[a, b] = acc
    return out


def isqrt_exact(n):
    r = int(round(np.sqrt(n)))
    return r if r * r == n else None


# ----------------------------------------------------------------------------------------------- CPTP predicates
def kraus_tp_defect(kop):
    """max |sum_k K^dagger K - I|"""
    kop = np.asarray(kop, dtype=np.complex128)
    din = kop.shape[2]
    acc = np.zeros((din, din), dtype=np.complex128)
    for k in range(kop.shape[0]):
        acc += kop[k].conj().T @ kop[k]
    return float(np.abs(acc - np.eye(din)).max())


def choi4_tp_defect(c4):
    """max |Tr_out C - I_in|"""
    din, dout = c4.shape[:2]
    pt = np.zeros((din, din), dtype=np.complex128)
    for a in range(dout):
        pt += c4[:, a, :, a]
    return float(np.abs(pt - np.eye(din)).max())


def hermitian_defect(m):
    m = np.asarray(m, dtype=np.complex128)
    return float(np.abs(m - m.conj().T).max()) if m.size else 0.0


def min_eig(m):
    m = np.asarray(m, dtype=np.complex128)
    return float(np.linalg.eigvalsh((m + m.conj().T) / 2).min())


def is_state(rho, tol=1e-9):
    rho = np.asarray(rho)
    if rho.ndim != 2 or rho.shape[0] != rho.shape[1] or not np.all(np.isfinite(rho)):
        return False
    return hermitian_defect(rho) <= tol and abs(np.trace(rho) - 1) <= tol and min_eig(rho) >= -tol


# ----------------------------------------------------------------------------------------------- Gell-Mann / Bloch
_GM_CACHE = {}


def gellmann_basis(d):
    """list of the d*d-1 traceless generalised Gell-Mann matrices: Tr(G_m G_n) = 2 delta_mn.
    order: symmetric E_ij+E_ji (i<j, row-major), antisymmetric -i E_ij + i E_ji (same order), diagonal l=1..d-1:
    sqrt(2/(l(l+1))) diag(1,...,1 [l times], -l, 0, ...)."""
    if d in _GM_CACHE:
        return _GM_CACHE[d]
    ret = []
    for i in range(d):
        for j in range(i + 1, d):
            m = np.zeros((d, d), dtype=np.complex128)
            m[i, j] = 1
            m[j, i] = 1
            ret.append(m)
    for i in range(d):
        for j in range(i + 1, d):
            m = np.zeros((d, d), dtype=np.complex128)
            m[i, j] = -1j
            m[j, i] = 1j
            ret.append(m)
    for l in range(1, d):
        m = np.zeros((d, d), dtype=np.complex128)
        for t in range(l):
            m[t, t] = 1
        m[l, l] = -l
        ret.append(m * np.sqrt(2 / (l * (l + 1))))
    # self-check of the basis (hermitian, traceless, orthogonal with norm 2)
    for p, gp in enumerate(ret):
        assert np.array_equal(gp, gp.conj().T) and abs(np.trace(gp)) < 1e-14
        for q, gq in enumerate(ret):
            assert abs(np.trace(gp @ gq) - (2 if p == q else 0)) < 1e-12
    assert len(ret) == d * d - 1
    _GM_CACHE[d] = ret
    return ret


def bloch_vector(rho):
    """r_m = Tr(G_m rho)/2 (real for hermitian rho); rho = Tr(rho) I/d + sum r_m G_m."""
    rho = np.asarray(rho, dtype=np.complex128)
    d = rho.shape[0]
    return np.array([np.trace(g @ rho) / 2 for g in gellmann_basis(d)], dtype=np.complex128).reshape(d * d - 1)


def bloch_to_dm(r, d):
    out = np.eye(d, dtype=np.complex128) / d
    for c, g in zip(r, gellmann_basis(d)):
        out = out + c * g
    return out


def gellmann_coefficients(mat):
    """all d*d coefficients of an arbitrary square matrix in numqi's documented order (X-like, Y-like, Z-like, I) with
    the identity element sqrt(2/d) I last:  mat = sum_m v_m G_m,  v_m = Tr(G_m mat)/2."""
    mat = np.asarray(mat, dtype=np.complex128)
    d = mat.shape[0]
    v = [np.trace(g @ mat) / 2 for g in gellmann_basis(d)]
    v.append(np.trace(np.sqrt(2 / d) * np.eye(d) @ mat) / 2)
    return np.array(v, dtype=np.complex128)


def bloch_map_from_choi4(c4):
    """A[m,n] = Tr(G^out_m E(G^in_n))/2,  b[m] = Tr(G^out_m E(I/din))/2  =>  r_out = A r_in + b for trace-one input."""
    din, dout = c4.shape[:2]
    gin = gellmann_basis(din)
    gout = gellmann_basis(dout)
    A = np.zeros((dout * dout - 1, din * din - 1), dtype=np.complex128)
    b = np.zeros(dout * dout - 1, dtype=np.complex128)
    e_id = apply_choi4(c4, np.eye(din) / din)
    for m, gm in enumerate(gout):
        b[m] = np.trace(gm @ e_id) / 2
    for n, gn in enumerate(gin):
        e_gn = apply_choi4(c4, gn)
        for m, gm in enumerate(gout):
            A[m, n] = np.trace(gm @ e_gn) / 2
    return A, b


# ----------------------------------------------------------------------------------------------- generators
def _gauss(rng, shape, is_complex):
    x = rng.normal(size=shape)
    if is_complex:
        x = x + 1j * rng.normal(size=shape)
    return x


def rand_isometry(rng, n, m, is_complex=True):
    """(n, m) matrix with orthonormal columns, n >= m."""
    assert n >= m
    q, r = np.linalg.qr(_gauss(rng, (n, m), is_complex))
    ph = np.diag(r).copy()
    ph[ph == 0] = 1
    return q * (ph / np.abs(ph))


def rand_kraus(rng, nterm, din, dout, is_complex=True):
    """CPTP Kraus operators (nterm, dout, din): the Stinespring isometry cut into blocks. needs nterm*dout >= din."""
    v = rand_isometry(rng, nterm * dout, din, is_complex)
    return v.reshape(nterm, dout, din)


def rand_state(rng, d, rank=None, is_complex=True):
    rank = d if rank is None else rank
    g = _gauss(rng, (d, rank), is_complex)
    rho = g @ g.conj().T
    return rho / np.trace(rho).real


def rand_state_spectrum(rng, d, spectrum, is_complex=True):
    u = rand_isometry(rng, d, d, is_complex)
    return (u * np.asarray(spectrum)) @ u.conj().T


def replacement_kraus(sigma, din):
    """E(rho) = Tr(rho) sigma :  K_{m,j} = sqrt(l_m) |v_m><j|"""
    sigma = np.asarray(sigma, dtype=np.complex128)
    evl, evc = np.linalg.eigh(sigma)
    ret = []
    for m in range(len(evl)):
        if evl[m] > 1e-13:
            for j in range(din):
                k = np.zeros((sigma.shape[0], din), dtype=np.complex128)
                k[:, j] = np.sqrt(evl[m]) * evc[:, m]
                ret.append(k)
    return np.stack(ret)


def measure_prepare_kraus(rng, din, dout, is_complex=True):
    """measure in a random orthonormal basis of the input, prepare a random pure state of the output."""
    u = rand_isometry(rng, din, din, is_complex)
    ret = []
    for j in range(din):
        psi = _gauss(rng, (dout,), is_complex)
        psi = psi / np.linalg.norm(psi)
        ret.append(np.outer(psi, u[:, j].conj()))
    return np.stack(ret)


def partial_trace_kraus(dkeep, dtrace, keep_first=True):
    """Kraus operators of the partial trace on C^dkeep (x) C^dtrace (or the reverse order)."""
    ret = []
    for t in range(dtrace):
        e = np.zeros((1, dtrace))
        e[0, t] = 1
        ret.append(np.kron(np.eye(dkeep), e) if keep_first else np.kron(e, np.eye(dkeep)))
    return np.stack(ret).astype(np.complex128)


def compose_kraus(k2, k1):
    """Kraus operators of E2 o E1"""
    return np.stack([b @ a for b in k2 for a in k1])


def tensor_kraus(k1, k2):
    return np.stack([np.kron(a, b) for a in k1 for b in k2])
