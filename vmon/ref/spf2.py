"""Reference arithmetic for Sp(2n,F2). Nothing here imports numqi.

Conventions (those documented in numqi/group/spf2.py): vectors are rows of length 2n, the symplectic form is
<u,v> = u[:n].v[n:] + u[n:].v[:n] (mod 2) = u Lambda v^T with Lambda = [[0,I],[I,0]]; a matrix S is symplectic when
S Lambda S^T = Lambda (mod 2) (its rows are a symplectic basis); a transvection by h maps x -> x + <x,h> h.
All arithmetic is done in int64 (no uint8 wrap-around)."""
import itertools
import math
import numpy as np


_LAM = {}


def lam(n):
    """Lambda = [[0,I],[I,0]] (cached, read-only)."""
    z = _LAM.get(n)
    if z is None:
        z = np.zeros((2 * n, 2 * n), dtype=np.int64)
        for j in range(n):
            z[j, n + j] = 1
            z[n + j, j] = 1
        z.flags.writeable = False
        _LAM[n] = z
    return z


def is_binary_matrix(S, n):
    S = np.asarray(S)
    return S.ndim == 2 and S.shape == (2 * n, 2 * n) and S.dtype.kind in 'ui' and bool(np.all((S == 0) | (S == 1)))


def is_symplectic(S):
    """S Lambda S^T == Lambda and S^T Lambda S == Lambda (mod 2), int64 arithmetic."""
    S = np.asarray(S).astype(np.int64)
    if S.ndim != 2 or S.shape[0] != S.shape[1] or S.shape[0] % 2:
        return False
    L = lam(S.shape[0] // 2)
    return bool(np.array_equal((S @ L @ S.T) % 2, L) and np.array_equal((S.T @ L @ S) % 2, L))


def sip(u, v):
    """symplectic inner product written out as a sum over qubit pairs (python ints)."""
    u = [int(t) for t in u]
    v = [int(t) for t in v]
    n = len(u) // 2
    return sum(u[j] * v[n + j] + u[n + j] * v[j] for j in range(n)) % 2


def transvect(x, *hs):
    """x (vector or matrix of row vectors) -> successive transvections, via the explicit Lambda matrix."""
    x = np.asarray(x).astype(np.int64)
    for h in hs:
        h = np.asarray(h).astype(np.int64)
        ip = (x @ (lam(h.size // 2) @ h)) % 2
        x = (x + np.multiply.outer(ip, h)) % 2
    return x


def bases(n):
    """mixed-radix bases (a_1,b_1,...,a_n,b_n): a_i = number of non-zero vectors of F2^{2i}, b_i = number of
    vectors having symplectic product 1 with a fixed non-zero vector = 2^{2i-1}."""
    out = []
    for i in range(1, n + 1):
        out += [4**i - 1, 2**(2 * i - 1)]
    return tuple(out)


def order(n):
    """|Sp(2n,F2)| = 2^(n^2) prod_{i=1..n} (4^i - 1)  (closed form, python ints)."""
    r = 2**(n * n)
    for i in range(1, n + 1):
        r *= 4**i - 1
    return r


def cosets(n):
    return tuple((4**i - 1) * 2**(2 * i - 1) for i in range(1, n + 1))


def in_range(t, n):
    b = bases(n)
    return len(t) == 2 * n and all(isinstance(x, (int, np.integer)) and 0 <= int(x) < bb for x, bb in zip(t, b))


def index_to_tuple(k, base):
    """mixed radix, first coordinate fastest."""
    out = []
    for b in base:
        out.append(k % b)
        k //= b
    return tuple(out)


def nonzero_vectors(n):
    for bits in itertools.product((0, 1), repeat=2 * n):
        if any(bits):
            yield np.array(bits, dtype=np.uint8)


def brute_force_group(n):
    """all symplectic 2n x 2n matrices by testing every binary matrix (n=1: 16 candidates, n=2: 65536).
    Returns a set of bytes (row-major uint8)."""
    assert n in (1, 2)
    d = 2 * n
    nb = d * d
    idx = np.arange(2**nb, dtype=np.int64)
    mats = ((idx[:, None] >> np.arange(nb, dtype=np.int64)) & 1).reshape(-1, d, d)
    L = lam(n)
    ok = np.all((mats @ L @ mats.transpose(0, 2, 1)) % 2 == L, axis=(1, 2))
    return {m.astype(np.uint8).tobytes() for m in mats[ok]}


def transvection_matrix(h):
    """matrix T with x T = x + <x,h> h for row vectors x."""
    h = np.asarray(h).astype(np.int64)
    n = h.size // 2
    return (np.eye(2 * n, dtype=np.int64) + np.outer(lam(n) @ h, h)) % 2


def rand_symplectic(rng, n, nfactor=None):
    """product of random transvections (they generate Sp(2n,F2)); uint8."""
    S = np.eye(2 * n, dtype=np.int64)
    for _ in range(nfactor or (4 * n + 4)):
        h = rng.integers(0, 2, size=2 * n)
        if not h.any():
            continue
        S = (S @ transvection_matrix(h)) % 2
    return S.astype(np.uint8)


def matmul2(A, B):
    return (np.asarray(A).astype(np.int64) @ np.asarray(B).astype(np.int64)) % 2


def _selfcheck():
    assert order(1) == 6 and order(2) == 720 and order(3) == 1451520
    for n in (1, 2, 3, 4):
        assert math.prod(bases(n)) == order(n) == math.prod(cosets(n))
    assert len(brute_force_group(1)) == 6
    rng = np.random.default_rng(0)
    for n in (1, 2, 5):
        S = rand_symplectic(rng, n)
        assert is_symplectic(S)
        h = rng.integers(0, 2, size=2 * n)
        x = rng.integers(0, 2, size=2 * n)
        assert np.array_equal(transvect(x, h), (x + sip(x, h) * h) % 2)
        assert np.array_equal(transvect(S, h), matmul2(S, transvection_matrix(h)))


_selfcheck()
