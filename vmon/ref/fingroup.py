"""Reference finite-group arithmetic on Cayley tables (integer exact). Nothing here imports numqi.

A table t is an (N,N) integer array, t[a,b] = index of the product a*b. Everything is decided from the axioms over
ALL pairs / triples. Reference constructions of the named groups (own element encodings, own multiplication rules)
give isomorphism invariants to compare with."""
import itertools
import math
from collections import Counter
import numpy as np


# --------------------------------------------------------------------------- axioms
def table_report(t, max_assoc=256):
    """returns dict(ok=bool, failed=<first failing axiom or None>, detail=...). Complete checks:
    shape/range, Latin square (rows and columns are permutations), associativity over all N^3 triples, unique
    two-sided identity, two-sided inverses."""
    t = np.asarray(t)
    if t.ndim != 2 or t.shape[0] != t.shape[1] or t.shape[0] == 0:
        return {'ok': False, 'failed': 'shape', 'detail': {'shape': list(t.shape)}}
    if t.dtype.kind not in 'iu':
        return {'ok': False, 'failed': 'dtype', 'detail': {'dtype': str(t.dtype)}}
    t = t.astype(np.int64)
    N = t.shape[0]
    if t.min() < 0 or t.max() >= N:
        return {'ok': False, 'failed': 'closure', 'detail': {'min': int(t.min()), 'max': int(t.max()), 'N': N}}
    ar = np.arange(N)
    rows_ok = np.all(np.sort(t, axis=1) == ar[None, :], axis=1)
    cols_ok = np.all(np.sort(t, axis=0) == ar[:, None], axis=0)
    if not rows_ok.all() or not cols_ok.all():
        return {'ok': False, 'failed': 'latin', 'detail': {'bad_rows': np.nonzero(~rows_ok)[0][:5].tolist(),
                                                           'bad_cols': np.nonzero(~cols_ok)[0][:5].tolist()}}
    if N > max_assoc:
        return {'ok': False, 'failed': 'too-large', 'detail': {'N': N}}
    lhs = t[t]            # [a,b,c] = (a*b)*c
    rhs = t[:, t]         # [a,b,c] = a*(b*c)
    bad = np.argwhere(lhs != rhs)
    if len(bad):
        a, b, c = [int(x) for x in bad[0]]
        return {'ok': False, 'failed': 'associativity', 'detail': {'triple': [a, b, c], 'n_bad_triples': int(len(bad)),
                                                                  '(ab)c': int(lhs[a, b, c]), 'a(bc)': int(rhs[a, b, c])}}
    left_id = np.nonzero(np.all(t == ar[None, :], axis=1))[0]
    right_id = np.nonzero(np.all(t == ar[:, None], axis=0))[0]
    if len(left_id) != 1 or len(right_id) != 1 or left_id[0] != right_id[0]:
        return {'ok': False, 'failed': 'identity', 'detail': {'left': left_id.tolist(), 'right': right_id.tolist()}}
    e = int(left_id[0])
    has_r = (t == e).sum(axis=1)
    has_l = (t == e).sum(axis=0)
    if not (np.all(has_r == 1) and np.all(has_l == 1)):
        return {'ok': False, 'failed': 'inverses', 'detail': {'e': e}}
    rinv = np.argmax(t == e, axis=1)
    if not np.all(t[rinv, ar] == e):
        return {'ok': False, 'failed': 'inverses', 'detail': {'e': e, 'note': 'right inverse is not a left inverse'}}
    return {'ok': True, 'failed': None, 'detail': {'N': N, 'identity': e, 'triples': N**3}}


def identity_of(t):
    t = np.asarray(t)
    ar = np.arange(len(t))
    return int(np.nonzero(np.all(t == ar[None, :], axis=1))[0][0])


def inverses(t):
    t = np.asarray(t)
    return np.argmax(t == identity_of(t), axis=1)


def element_orders(t):
    t = np.asarray(t).astype(np.int64)
    N = len(t)
    e = identity_of(t)
    out = []
    for g in range(N):
        x, k = g, 1
        while x != e:
            x = int(t[x, g])
            k += 1
            if k > N:
                raise ValueError('element order exceeds group order')
        out.append(k)
    return out


def conjugacy_classes(t):
    """list of sorted tuples; class of g = { h g h^-1 }"""
    t = np.asarray(t).astype(np.int64)
    N = len(t)
    inv = inverses(t)
    conj = t[t, inv[:, None]]  # [h,g] = (h*g)*h^-1
    seen = set()
    out = []
    for g in range(N):
        if g in seen:
            continue
        cl = tuple(sorted(set(conj[:, g].tolist())))
        seen.update(cl)
        out.append(cl)
    return out


def is_abelian(t):
    t = np.asarray(t)
    return bool(np.array_equal(t, t.T))


def invariants(t):
    """isomorphism invariants: order, abelian, multiset of element orders, multiset of class sizes, centre size,
    number of solutions of x^2=e, multiset of (element order, class size)."""
    t = np.asarray(t).astype(np.int64)
    orders = element_orders(t)
    classes = conjugacy_classes(t)
    size_of = {}
    for cl in classes:
        for g in cl:
            size_of[g] = len(cl)
    return {
        'order': int(len(t)),
        'abelian': is_abelian(t),
        'element_orders': sorted(Counter(orders).items()),
        'class_sizes': sorted(len(c) for c in classes),
        'centre': sum(1 for c in classes if len(c) == 1),
        'order_and_class_size': sorted(Counter((orders[g], size_of[g]) for g in range(len(t))).items()),
    }


# --------------------------------------------------------------------------- left regular representation
def left_regular(t):
    """L[a] e_b = e_{a*b}: L[a][t[a,b], b] = 1"""
    t = np.asarray(t).astype(np.int64)
    N = len(t)
    L = np.zeros((N, N, N), dtype=np.int64)
    for a in range(N):
        for b in range(N):
            L[a, t[a, b], b] = 1
    return L


def perm_of_matrices(L):
    """if every L[a] is a permutation matrix return p with L[a] e_j = e_{p[a,j]}, else None"""
    L = np.asarray(L)
    if L.ndim != 3 or L.shape[1] != L.shape[2]:
        return None
    if not np.all((L == 0) | (L == 1)):
        return None
    if not (np.all(L.sum(axis=1) == 1) and np.all(L.sum(axis=2) == 1)):
        return None
    return np.argmax(L, axis=1)  # [a, j] = row index of the 1 in column j


def table_from_regular(L):
    """recover the Cayley table from a (left) regular permutation representation indexed by group element:
    needs a column e with L[a] e_e = e_a for all a; then t[a,b] = p[a,b]. Returns None if L is not of that form."""
    p = perm_of_matrices(L)
    if p is None or p.shape[0] != p.shape[1]:
        return None
    N = p.shape[0]
    cand = [j for j in range(N) if np.array_equal(p[:, j], np.arange(N))]
    if len(cand) != 1:
        return None
    return p.astype(np.int64)


# --------------------------------------------------------------------------- reference constructions
def _perm_parity(p):
    inv = 0
    for i in range(len(p)):
        for j in range(i + 1, len(p)):
            inv += p[i] > p[j]
    return inv % 2


def _table_from_elements(elems, mul):
    idx = {e: i for i, e in enumerate(elems)}
    return np.array([[idx[mul(a, b)] for b in elems] for a in elems], dtype=np.int64)


def ref_symmetric(n, alternating=False):
    elems = [p for p in itertools.permutations(range(n)) if not alternating or _perm_parity(p) == 0]
    return _table_from_elements(elems, lambda a, b: tuple(a[b[i]] for i in range(n)))


def ref_dihedral(n):
    # r^k s^f with s r s = r^-1:  (k,f)(l,g) = (k + (-1)^f l, f+g)
    elems = [(k, f) for f in (0, 1) for k in range(n)]
    return _table_from_elements(elems, lambda a, b: ((a[0] + (-b[0] if a[1] else b[0])) % n, (a[1] + b[1]) % 2))


def ref_cyclic(n):
    return _table_from_elements(list(range(n)), lambda a, b: (a + b) % n)


def ref_multiplicative(n):
    elems = [x for x in range(1, n) if math.gcd(x, n) == 1]
    return _table_from_elements(elems, lambda a, b: (a * b) % n)


def ref_klein():
    elems = [(0, 0), (0, 1), (1, 0), (1, 1)]
    return _table_from_elements(elems, lambda a, b: ((a[0] + b[0]) % 2, (a[1] + b[1]) % 2))


def ref_quaternion():
    # unit quaternions +-1,+-i,+-j,+-k as integer 4-vectors with the Hamilton product
    def mul(p, q):
        a1, b1, c1, d1 = p
        a2, b2, c2, d2 = q
        return (a1 * a2 - b1 * b2 - c1 * c2 - d1 * d2, a1 * b2 + b1 * a2 + c1 * d2 - d1 * c2,
                a1 * c2 - b1 * d2 + c1 * a2 + d1 * b2, a1 * d2 + b1 * c2 - c1 * b2 + d1 * a2)
    units = [(1, 0, 0, 0), (0, 1, 0, 0), (0, 0, 1, 0), (0, 0, 0, 1)]
    elems = units + [tuple(-x for x in u) for u in units]
    return _table_from_elements(elems, mul)


def euler_phi(n):
    return sum(1 for x in range(1, n + 1) if math.gcd(x, n) == 1)


# --------------------------------------------------------------------------- characters
def character_inner(chi_a, chi_b):
    chi_a = np.asarray(chi_a)
    chi_b = np.asarray(chi_b)
    return complex(np.sum(chi_a * np.conj(chi_b)) / len(chi_a))


def _selfcheck():
    for t, n in [(ref_symmetric(3), 6), (ref_symmetric(4, True), 12), (ref_dihedral(5), 10), (ref_cyclic(7), 7),
                 (ref_multiplicative(15), 8), (ref_klein(), 4), (ref_quaternion(), 8)]:
        r = table_report(t)
        assert r['ok'] and len(t) == n, r
        assert table_from_regular(left_regular(t)) is not None and np.array_equal(table_from_regular(left_regular(t)), t)
    assert invariants(ref_quaternion())['element_orders'] == [(1, 1), (2, 1), (4, 6)]
    assert invariants(ref_dihedral(4))['element_orders'] == [(1, 1), (2, 5), (4, 2)]
    assert len(conjugacy_classes(ref_symmetric(4))) == 5
    bad = ref_cyclic(4).copy()
    bad[1, 1], bad[1, 2] = bad[1, 2], bad[1, 1]
    assert not table_report(bad)['ok']


_selfcheck()
