"""Reference generalized Gell-Mann basis, written from the definition. Nothing here imports numqi.

Documented order (numqi.gellmann.all_gellmann_matrix: "PauliX, PauliY, PauliZ, I"):
  1. symmetric      X_ab = |a><b| + |b><a|          for a<b, pairs in row-major order (0,1),(0,2),..,(d-2,d-1)
  2. antisymmetric  Y_ab = -i|a><b| + i|b><a|       same pair order
  3. diagonal       Z_l  = sqrt(2/(l(l+1))) (sum_{m<l} |m><m| - l |l><l|)   l = 1..d-1
  4. identity       sqrt(2/d) * 1
so that Tr(G_i G_j) = 2 delta_ij. tensor_n>1: Kronecker products G_{x1} (x) G_{x2} .. with x1 slowest.
All arrays returned by `basis` are read-only (shared by the cache of this module).
"""
import functools
import itertools
import numpy as np


def _unit(a, b, d):
    m = np.zeros((d, d), dtype=np.complex128)
    m[a, b] = 1
    return m


def sym(a, b, d):
    return _unit(a, b, d) + _unit(b, a, d)


def antisym(a, b, d):
    return -1j * _unit(a, b, d) + 1j * _unit(b, a, d)


def diag(l, d):
    m = np.zeros((d, d), dtype=np.complex128)
    for t in range(l):
        m[t, t] = 1
    m[l, l] = -l
    return m * np.sqrt(2.0 / (l * (l + 1)))


def ident(d):
    return np.eye(d, dtype=np.complex128) * np.sqrt(2.0 / d)


def element(i, j, d):
    """documented meaning of gellmann_matrix(i,j,d): i<j X-like on (i,j); i>j Y-like on (j,i); i=j=0 identity; i=j>0 Z-like."""
    if i < j:
        return sym(i, j, d)
    if i > j:
        return antisym(j, i, d)
    if i == 0:
        return ident(d)
    return diag(i, d)


def pairs(d):
    return [(a, b) for a in range(d) for b in range(a + 1, d)]


@functools.lru_cache(maxsize=None)
def basis(d, tensor_n=1, with_I=True):
    one = [sym(a, b, d) for a, b in pairs(d)] + [antisym(a, b, d) for a, b in pairs(d)] + [diag(l, d) for l in range(1, d)] + [ident(d)]
    if tensor_n == 1:
        ret = np.stack(one)
    else:
        ret = np.stack([functools.reduce(np.kron, [one[t] for t in idx]) for idx in itertools.product(range(d * d), repeat=tensor_n)])
    if not with_I:
        ret = ret[:-1]
    ret = np.ascontiguousarray(ret)
    ret.setflags(write=False)
    return ret


def analyse(A):
    """coefficients c_i = Tr(G_i A)/2 of (...,d,d) matrices -> (...,d*d)"""
    A = np.asarray(A).astype(np.complex128)
    d = A.shape[-1]
    G = basis(d)
    return np.einsum('iab,...ba->...i', G, A) / 2


def synthesise(v):
    """sum_i v_i G_i of (...,d*d) vectors -> (...,d,d)"""
    v = np.asarray(v).astype(np.complex128)
    d = int(round(np.sqrt(v.shape[-1])))
    assert d * d == v.shape[-1]
    return np.einsum('...i,iab->...ab', v, basis(d))


def bloch(dm):
    """real Bloch vector (without the identity component) of (...,d,d) matrices"""
    return analyse(dm)[..., :-1].real


def bloch_to_dm(v):
    """I/d + sum_i v_i G_i for (...,d*d-1) vectors"""
    v = np.asarray(v).astype(np.complex128)
    d = int(round(np.sqrt(v.shape[-1] + 1)))
    assert d * d - 1 == v.shape[-1]
    return np.einsum('...i,iab->...ab', v, basis(d)[:-1]) + np.eye(d) / d


def _selfcheck():
    # d=2: Pauli matrices and the identity; d=3: the eight Gell-Mann matrices as printed in text books
    P = basis(2)
    assert np.array_equal(P[0], [[0, 1], [1, 0]]) and np.array_equal(P[1], [[0, -1j], [1j, 0]])
    assert np.array_equal(P[2], [[1, 0], [0, -1]]) and np.allclose(P[3], np.eye(2))
    s3 = 1 / np.sqrt(3)
    lam = {
        1: [[0, 1, 0], [1, 0, 0], [0, 0, 0]], 2: [[0, -1j, 0], [1j, 0, 0], [0, 0, 0]], 3: [[1, 0, 0], [0, -1, 0], [0, 0, 0]],
        4: [[0, 0, 1], [0, 0, 0], [1, 0, 0]], 5: [[0, 0, -1j], [0, 0, 0], [1j, 0, 0]], 6: [[0, 0, 0], [0, 0, 1], [0, 1, 0]],
        7: [[0, 0, 0], [0, 0, -1j], [0, 1j, 0]], 8: [[s3, 0, 0], [0, s3, 0], [0, 0, -2 * s3]],
    }
    G = basis(3)
    for pos, k in enumerate([1, 4, 6, 2, 5, 7, 3, 8]):
        assert np.allclose(G[pos], np.array(lam[k])), k
    for d in (2, 3, 4, 5):
        G = basis(d).reshape(d * d, -1)
        assert np.allclose(G @ G.conj().T, 2 * np.eye(d * d))
        assert np.allclose(basis(d), basis(d).transpose(0, 2, 1).conj())
        for i in range(d):
            for j in range(d):
                e = element(i, j, d)
                assert abs(np.trace(e @ e) - 2) < 1e-12
    G2 = basis(2, 2)
    assert np.allclose(G2[0 * 4 + 2], np.kron(P[0], P[2])) and G2.shape == (16, 4, 4)
    assert basis(2, 2, False).shape == (15, 4, 4)


_selfcheck()
