"""Reference qubit models (no numqi imports). Convention: qubit 0 is the most significant bit of the basis index,
i.e. the left-most Kronecker factor |q0 q1 ... q_{n-1}>."""
import itertools
import numpy as np
import scipy.linalg

I2 = np.eye(2, dtype=np.complex128)
SX = np.array([[0, 1], [1, 0]], dtype=np.complex128)
SY = np.array([[0, -1j], [1j, 0]], dtype=np.complex128)
SZ = np.array([[1, 0], [0, -1]], dtype=np.complex128)
HAD = np.array([[1, 1], [1, -1]], dtype=np.complex128) / np.sqrt(2)
SG = np.diag([1, 1j]).astype(np.complex128)
TG = np.diag([1, np.exp(1j * np.pi / 4)]).astype(np.complex128)
SWAP = np.array([[1, 0, 0, 0], [0, 0, 1, 0], [0, 1, 0, 0], [0, 0, 0, 1]], dtype=np.complex128)


def bit(index, q, n):
    return (index >> (n - 1 - q)) & 1


def embed(op, targets, n, controls=()):
    """dense 2^n x 2^n matrix of `op` acting on the ordered `targets` (first target = most significant bit of op's
    index), identity elsewhere; with `controls` the operator acts only when all control qubits are 1.
    Built entry by entry with explicit bit arithmetic."""
    op = np.asarray(op)
    targets = [int(t) for t in targets]
    controls = [int(c) for c in controls]
    k = len(targets)
    assert op.shape == (2**k, 2**k)
    assert len(set(targets)) == k and not (set(targets) & set(controls))
    N = 2**n
    out = np.zeros((N, N), dtype=np.complex128)
    others = [q for q in range(n) if q not in targets]
    for col in range(N):
        if any(bit(col, c, n) == 0 for c in controls):
            out[col, col] = 1
            continue
        cin = 0
        for t in targets:
            cin = (cin << 1) | bit(col, t, n)
        base = 0
        for q in others:
            base |= bit(col, q, n) << (n - 1 - q)
        for rin in range(2**k):
            v = op[rin, cin]
            if v == 0:
                continue
            row = base
            for j, t in enumerate(targets):
                row |= ((rin >> (k - 1 - j)) & 1) << (n - 1 - t)
            out[row, col] = v
    return out


def born_marginal(psi, keep, n):
    """probabilities of the outcomes of the ascending qubit list `keep` (first kept qubit = most significant bit)."""
    psi = np.asarray(psi)
    keep = list(keep)
    out = np.zeros(2**len(keep))
    p = np.abs(psi.astype(np.complex128))**2
    for idx in range(2**n):
        o = 0
        for q in keep:
            o = (o << 1) | bit(idx, q, n)
        out[o] += p[idx]
    return out


def project(psi, keep, outcome_bits, n):
    """un-normalised projection of psi on `keep` qubits having the values `outcome_bits`."""
    psi = np.asarray(psi).astype(np.complex128)
    out = np.zeros_like(psi)
    for idx in range(2**n):
        if all(bit(idx, q, n) == b for q, b in zip(keep, outcome_bits)):
            out[idx] = psi[idx]
    return out


def rot(sigma, theta):
    return scipy.linalg.expm(-0.5j * theta * sigma)


def gate_matrix(name, params=()):
    """the reference's own gate library (from the textbook definitions)."""
    if name == 'X':
        return SX
    if name == 'Y':
        return SY
    if name == 'Z':
        return SZ
    if name == 'H':
        return HAD
    if name == 'S':
        return SG
    if name == 'T':
        return TG
    if name == 'Swap':
        return SWAP
    if name == 'rx':
        return rot(SX, params[0])
    if name == 'ry':
        return rot(SY, params[0])
    if name == 'rz':
        return rot(SZ, params[0])
    if name == 'rzz':
        return scipy.linalg.expm(-0.5j * params[0] * np.kron(SZ, SZ))
    if name == 'u3':
        theta, phi, lam = params
        return rot(SZ, phi) @ rot(SY, theta) @ rot(SZ, lam) * np.exp(0.5j * (phi + lam))
    raise KeyError(name)


def all_ordered_tuples(n, kmax):
    for k in range(1, min(kmax, n) + 1):
        for t in itertools.permutations(range(n), k):
            yield t


def all_subsets(items):
    items = list(items)
    for r in range(len(items) + 1):
        for c in itertools.combinations(items, r):
            yield c


def haar_unitary(rng, d):
    z = (rng.normal(size=(d, d)) + 1j * rng.normal(size=(d, d))) / np.sqrt(2)
    q, r = np.linalg.qr(z)
    ph = np.diag(r) / np.abs(np.diag(r))
    return q * ph


def rand_state(rng, d, real=False):
    v = rng.normal(size=d) + (0 if real else 1j * rng.normal(size=d))
    v = v.astype(np.complex128)
    return v / np.linalg.norm(v)


def rand_dm(rng, d, rank=None):
    rank = rank or d
    a = rng.normal(size=(d, rank)) + 1j * rng.normal(size=(d, rank))
    rho = a @ a.conj().T
    return rho / np.trace(rho).real
