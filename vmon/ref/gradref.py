"""Reference models for C04 (gradients): pure-autograd re-implementations of every forward for which numqi ships a
hand-written backward, plus closed-form Frechet-derivative adjoints for the matrix functions.
Nothing here imports numqi. Everything is float64 / complex128.

Conventions
  * qubit 0 is the MOST significant bit of a basis-state index; the first entry of `targets` is the most significant
    bit of the gate-matrix index.
  * a controlled gate is  (1 - P) + P (x) U  with P the projector on "all control bits are 1".
  * gradients follow torch's convention for a real loss L and a complex tensor z:  grad = dL/dRe(z) + i dL/dIm(z).

Program format (JSON-able, produced by the workload in vmon/props/c04.py and interpreted here):
  op = {'g': <gate name>, 'ctrl': [..], 'tgt': [..], 'p': <parameter source or None>, 'm': <key of a constant matrix>}
  parameter source: ['theta', name, row]  -> row of the trainable tensor theta[name]          (shape (rows, nparam))
                    ['P', key, index]     -> P[key][index] (index may be None / int / list)   placeholder tensor
                    ['fix', [v0, ..]]     -> constants (gate built without gradient)
"""
import functools

import numpy as np
import torch

CD = torch.complex128
FD = torch.float64


# ------------------------------------------------------------------------------------------------ gates
def _mat(entries, n):
    return torch.stack([e.to(CD) for e in entries]).reshape(n, n)


def gate_rx(t):
    c, s = torch.cos(t / 2), torch.sin(t / 2)
    return _mat([c, -1j * s, -1j * s, c], 2)


def gate_ry(t):
    c, s = torch.cos(t / 2), torch.sin(t / 2)
    return _mat([c, -s, s, c], 2)


def gate_rz(t):
    z = torch.zeros((), dtype=FD)
    return _mat([torch.exp(-0.5j * t), z, z, torch.exp(0.5j * t)], 2)


def gate_u3(theta, phi, lam):
    # qiskit U gate: [[cos, -e^{i lam} sin], [e^{i phi} sin, e^{i(phi+lam)} cos]]
    c, s = torch.cos(theta / 2), torch.sin(theta / 2)
    return _mat([c, -s * torch.exp(1j * lam), s * torch.exp(1j * phi), c * torch.exp(1j * (phi + lam))], 2)


def gate_rzz(t):
    a, b = torch.exp(-0.5j * t), torch.exp(0.5j * t)
    return torch.diag(torch.stack([a, b, b, a]).to(CD))


def gate_rxz(a, b):
    """two-qubit gate rx(a) (x) rz(b): NOT symmetric under exchange of its qubits (probes non-ascending targets)."""
    return torch.kron(gate_rx(a), gate_rz(b))


def gate_r3(a, b, c):
    """three-qubit gate rx(a) (x) rz(b) (x) ry(c): no symmetry under any permutation of its qubits (probes 3-cycles of targets)."""
    return torch.kron(torch.kron(gate_rx(a), gate_rz(b)), gate_ry(c))


GATES = {'rx': (gate_rx, 1, 1), 'ry': (gate_ry, 1, 1), 'rz': (gate_rz, 1, 1), 'u3': (gate_u3, 3, 1), 'rzz': (gate_rzz, 1, 2),
         'crx': (gate_rx, 1, 1), 'cry': (gate_ry, 1, 1), 'crz': (gate_rz, 1, 1), 'cu3': (gate_u3, 3, 1),
         'rxz': (gate_rxz, 2, 2), 'crxz': (gate_rxz, 2, 2), 'crzz': (gate_rzz, 1, 2),
         'r3': (gate_r3, 3, 3), 'cr3': (gate_r3, 3, 3)}
# name -> (matrix function, number of parameters, number of target qubits)

_s2 = 1 / np.sqrt(2)
CONST = {
    'X': np.array([[0, 1], [1, 0]], dtype=np.complex128),
    'Y': np.array([[0, -1j], [1j, 0]], dtype=np.complex128),
    'Z': np.array([[1, 0], [0, -1]], dtype=np.complex128),
    'H': np.array([[_s2, _s2], [_s2, -_s2]], dtype=np.complex128),
    'S': np.array([[1, 0], [0, 1j]], dtype=np.complex128),
    'T': np.array([[1, 0], [0, np.exp(0.25j * np.pi)]], dtype=np.complex128),
    'Swap': np.array([[1, 0, 0, 0], [0, 0, 1, 0], [0, 1, 0, 0], [0, 0, 0, 1]], dtype=np.complex128),
}


# ------------------------------------------------------------------------------------------------ embedding
@functools.lru_cache(maxsize=4096)
def _embed_index(n, targets, controls):
    N = 2**n
    k = len(targets)
    rows, cols, ia, ib, ident = [], [], [], [], []
    for i in range(N):
        if all((i >> (n - 1 - c)) & 1 for c in controls):
            a = 0
            for t in targets:
                a = (a << 1) | ((i >> (n - 1 - t)) & 1)
            for b in range(2**k):
                j = i
                for m, t in enumerate(targets):
                    bit = (b >> (k - 1 - m)) & 1
                    j = (j & ~(1 << (n - 1 - t))) | (bit << (n - 1 - t))
                rows.append(i)
                cols.append(j)
                ia.append(a)
                ib.append(b)
        else:
            ident.append(i)
    f = lambda x: torch.tensor(x, dtype=torch.int64)
    return f(rows), f(cols), f(ia), f(ib), f(ident)


def embed(op, targets, n, controls=()):
    """dense 2^n x 2^n operator of `op` acting on `targets` (ordered) controlled on `controls` (all ones)."""
    targets = tuple(int(t) for t in targets)
    controls = tuple(sorted(int(c) for c in controls))
    assert len(set(targets)) == len(targets) and not (set(targets) & set(controls))
    assert op.shape == (2**len(targets), 2**len(targets))
    rows, cols, ia, ib, ident = _embed_index(n, targets, controls)
    E = torch.zeros(2**n, 2**n, dtype=CD)
    E = E.index_put((rows, cols), op.to(CD)[ia, ib])
    if len(ident):
        E = E.index_put((ident, ident), torch.ones(len(ident), dtype=CD))
    return E


def run_ops(n, ops, psi0):
    """ops = [(matrix tensor, targets, controls)], applied in order to the state vector psi0 (length 2^n)."""
    q = psi0.to(CD)
    for mat, targets, controls in ops:
        q = embed(mat, targets, n, controls) @ q
    return q


def _resolve(src, theta, P):
    kind = src[0]
    if kind == 'theta':
        return theta[src[1]][src[2]].reshape(-1)
    if kind == 'P':
        t = P[src[1]]
        idx = src[2]
        if idx is not None:
            t = t[tuple(idx)] if isinstance(idx, (list, tuple)) else t[idx]
        return t.reshape(-1)
    if kind == 'fix':
        return torch.tensor(src[1], dtype=FD).reshape(-1)
    raise KeyError(kind)


def build_ops(program, theta, P, mats, shift=0):
    """interpret the JSON-able program. theta: dict name -> tensor (rows, nparam); P: dict key -> tensor;
    mats: dict key -> constant complex matrix (np.ndarray); shift: added to every qubit index."""
    ops = []
    for op in program:
        tg = [t + shift for t in op['tgt']]
        ct = [c + shift for c in op.get('ctrl', [])]
        if op.get('p') is not None:
            fn, npar, nt = GATES[op['g']]
            par = _resolve(op['p'], theta, P)
            assert par.shape == (npar,) and len(tg) == nt
            mat = fn(*par)
        elif op.get('m') is not None:
            mat = torch.tensor(np.asarray(mats[op['m']]), dtype=CD)
        else:
            mat = torch.tensor(CONST[op['g']], dtype=CD)
        ops.append((mat, tg, ct))
    return ops


def expectation_loss(psi, H):
    """<psi|H|psi> (real part; H Hermitian)."""
    return torch.vdot(psi, H.to(CD) @ psi).real


# ------------------------------------------------------------------------------------------------ Knill-Laflamme
def kl_inner_product(q, op_list, n):
    """q: (K, 2^n) code words. op_list: list of sequences [(qubit tuple, matrix), ...] applied left to right.
    returns tensor (len(op_list), K, K) with entries <q_i| E_a |q_j>."""
    out = []
    for seq in op_list:
        E = torch.eye(2**n, dtype=CD)
        for ind, op in seq:
            E = embed(torch.as_tensor(np.asarray(op), dtype=CD), [int(x) for x in ind], n) @ E
        out.append(torch.einsum('ix,xy,jy->ij', q.conj(), E, q))
    return torch.stack(out)


def kl_loss(inner, kind):
    """sum over errors of (strict upper triangle |.|^p) + (|diagonal - mean of diagonal|^p), p=1 (L1) / 2 (L2)."""
    K = inner.shape[1]
    p = {'L1': 1, 'L2': 2}[kind]
    tot = torch.zeros((), dtype=FD)
    for i in range(K):
        for j in range(i + 1, K):
            tot = tot + (torch.abs(inner[:, i, j])**p).sum()
    d = torch.stack([inner[:, i, i] for i in range(K)], dim=1)
    tot = tot + (torch.abs(d - d.mean(dim=1, keepdim=True))**p).sum()
    return tot


# ------------------------------------------------------------------------------------------------ matrix functions
def herm(x):
    return (x + x.conj().transpose(-1, -2)) / 2


def funm_eigh(A, f):
    """V f(lambda) V^H through torch.linalg.eigh (autograd valid for non-degenerate spectra)."""
    lam, V = torch.linalg.eigh(A)
    return (V * f(lam).to(V.dtype).unsqueeze(-2)) @ V.conj().transpose(-1, -2)


def sqrtm_db(A, iters=40):
    """Denman-Beavers iteration for the principal square root of a positive definite matrix; pure matmul/inverse so
    autograd is valid for degenerate spectra as well. Scaled by the trace for fast convergence."""
    d = A.shape[-1]
    eye = torch.eye(d, dtype=A.dtype)
    s = (torch.diagonal(A, dim1=-2, dim2=-1).sum(-1).real / d).reshape(A.shape[:-2] + (1, 1))
    Y = A / s
    Z = eye.expand_as(A).clone()
    for _ in range(iters):
        Yi = torch.linalg.inv(Y)
        Zi = torch.linalg.inv(Z)
        Y, Z = (Y + Zi) / 2, (Z + Yi) / 2
    return Y * torch.sqrt(s)


def sqrtm_repeat(A, s, method='eigh'):
    if method == 'eigh':
        return funm_eigh(A, lambda x: x**(0.5**s))
    for _ in range(s):
        A = sqrtm_db(A)
    return A


def pade_nodes(order):
    node, weight = np.polynomial.legendre.leggauss(order)
    return (node + 1) / 2, weight  # beta on [0,1], weights sum to 2


def pade_log_scalar(lam, num_sqrtm, order):
    """the scalar function realised by `num_sqrtm` square roots followed by an `order`-point Gauss-Legendre quadrature
    of log(x) = int_0^1 (x-1)/(1+t(x-1)) dt, times 2^num_sqrtm."""
    beta, weight = pade_nodes(order)
    x = lam**(0.5**num_sqrtm)
    tot = 0
    for b, w in zip(beta, weight):
        tot = tot + w * (x - 1) / ((1 - b) + b * x)
    return tot * 2**(num_sqrtm - 1)


def logm_pade(A, num_sqrtm, order, method='eigh'):
    """the same approximant as a matrix function; method 'eigh' (spectral) or 'db' (Denman-Beavers roots + solves)."""
    if method == 'eigh':
        return funm_eigh(A, lambda x: pade_log_scalar(x, num_sqrtm, order))
    R = sqrtm_repeat(A, num_sqrtm, 'db')
    d = A.shape[-1]
    eye = torch.eye(d, dtype=A.dtype)
    beta, weight = pade_nodes(order)
    tot = torch.zeros_like(R)
    for b, w in zip(beta, weight):
        tot = tot + w * torch.linalg.solve((1 - b) * eye + b * R, R - eye)
    return tot * 2**(num_sqrtm - 1)


def loewner_sqrt_repeat(lam, s):
    """divided differences of x -> x^(1/2^s): prod_{k=1..s} 1/(a^(1/2^k) + b^(1/2^k)) (no cancellation). numpy."""
    lam = np.asarray(lam, dtype=np.float64)
    F = np.ones(lam.shape + (lam.shape[-1],))
    r = lam
    for _ in range(s):
        r = np.sqrt(r)
        F = F / (r[..., :, None] + r[..., None, :])
    return F


def loewner_pade_log(lam, num_sqrtm, order):
    """divided differences of pade_log_scalar; for g(x)=(x-1)/((1-b)+b x): (g(x)-g(y))/(x-y) = 1/(D(x) D(y))."""
    lam = np.asarray(lam, dtype=np.float64)
    x = lam**(0.5**num_sqrtm)
    beta, weight = pade_nodes(order)
    G = 0
    for b, w in zip(beta, weight):
        D = (1 - b) + b * x
        G = G + w / (D[..., :, None] * D[..., None, :])
    return G * 2**(num_sqrtm - 1) * loewner_sqrt_repeat(lam, num_sqrtm)


def frechet_adjoint(A, G, loewner):
    """adjoint of the Frechet derivative of a (real-analytic) matrix function at Hermitian A applied to the cotangent G:
    V [ (V^H G V) o F ] V^H, F = Loewner matrix of divided differences (Daleckii-Krein). numpy, batched."""
    A = np.asarray(A)
    G = np.asarray(G)
    lam, V = np.linalg.eigh(A)
    F = loewner(lam)
    Vh = np.conj(np.swapaxes(V, -1, -2))
    return V @ ((Vh @ G @ V) * F) @ Vh, lam, V
