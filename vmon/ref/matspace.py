"""Reference model for C20 (matrix subspaces, planted low-rank subspaces, numerical ranges).

Pure numpy, nothing here imports numqi.  Conventions (taken from the documentation of
numqi.matrix_space.get_matrix_orthogonal_basis):

  class   generators                     span over   ambient dimension   representation of the result
  R       real (m,n)                     R           m n                 real (m,n)
  R_T     real symmetric (m,m)           R           m(m+1)/2            real (m,m)
  C       real/complex (m,n)             C           m n                 (m,n)
  C_T     real/complex symmetric (m,m)   C           m(m+1)/2            (m,m)
  C_H     complex Hermitian (m,m)        R           m^2                 complex (m,m)
  R_c     complex (m,n)                  R           2 m n               real embedding (2m,2n) [[re,-im],[im,re]]
  R_cT    complex symmetric (m,m)        R           m(m+1)              real embedding (2m,2m)

The inner product of a class is the trace inner product Tr(A^dagger B) over its base field (its real part for
the classes spanned over R).  `coords(cls, X)` maps matrices to coordinate vectors in which that inner product is
the standard real / Hermitian dot product, so everything below is plain linear algebra on rows.
"""
import itertools
import numpy as np

CLASSES = ('R', 'R_T', 'C', 'C_T', 'C_H', 'R_c', 'R_cT')
REAL_FIELD = {'R', 'R_T', 'C_H', 'R_c', 'R_cT'}
EMBEDDED = {'R_c', 'R_cT'}


# ----------------------------------------------------------------------------- structure classes
def embed_real(a):
    """complex (...,m,n) -> real (...,2m,2n) [[re,-im],[im,re]]"""
    a = np.asarray(a)
    re, im = a.real, a.imag
    top = np.concatenate([re, -im], axis=-1)
    bot = np.concatenate([im, re], axis=-1)
    return np.concatenate([top, bot], axis=-2)


def unembed_real(x):
    """inverse of embed_real; returns (complex array, max deviation from the embedding structure)"""
    x = np.asarray(x)
    m2, n2 = x.shape[-2:]
    if m2 % 2 or n2 % 2:
        return None, float('inf')
    m, n = m2 // 2, n2 // 2
    a, b, c, d = x[..., :m, :n], x[..., :m, n:], x[..., m:, :n], x[..., m:, n:]
    dev = 0.0
    if x.size:
        dev = max(float(np.abs(a - d).max()), float(np.abs(b + c).max()))
    return a + 1j * c, dev


def ambient_dim(cls, m, n):
    return {'R': m * n, 'C': m * n, 'R_T': m * (m + 1) // 2, 'C_T': m * (m + 1) // 2, 'C_H': m * m,
            'R_c': 2 * m * n, 'R_cT': m * (m + 1)}[cls]


def classify(mats, field, exact=1e-12, gap=1e-6):
    """structure class of the generators according to the documented table, or None when the generators sit
    between 'has the symmetry' (deviation <= exact*scale) and 'clearly has not' (deviation >= gap*scale), or in a
    corner the table does not order (real anti-symmetric: not implemented by the library; complex dtype that is
    Hermitian *and* symmetric)."""
    mats = np.asarray(mats)
    assert mats.ndim == 3 and field in ('real', 'complex')
    _, m, n = mats.shape
    scale = max(float(np.abs(mats).max()), 1e-300)
    cplx = np.iscomplexobj(mats)

    def tri(dev):
        dev = float(dev) / scale
        return True if dev <= exact else (False if dev >= gap else None)

    if m == n:
        sym = tri(np.abs(mats - mats.transpose(0, 2, 1)).max())
        anti = tri(np.abs(mats + mats.transpose(0, 2, 1)).max())
        herm = tri(np.abs(mats - mats.transpose(0, 2, 1).conj()).max())
    else:
        sym = anti = herm = False
    if sym is None or herm is None or anti is None:
        return None
    if not cplx:
        if sym:
            return 'R_T' if field == 'real' else 'C_T'
        if anti:
            return None
        return 'R' if field == 'real' else 'C'
    if field == 'real':
        if herm and sym:
            return None
        if herm:
            return 'C_H'
        if sym:
            return 'R_cT'
        return 'R_c'
    return 'C_T' if sym else 'C'


def in_class(cls, x, tol=1e-9):
    """max deviation of the returned matrices `x` (in the representation of the class) from the class structure"""
    x = np.asarray(x)
    if x.shape[0] == 0:
        return 0.0
    t = lambda y: y.transpose(0, 2, 1)
    if cls in ('R', 'C'):
        return 0.0
    if cls in ('R_T', 'C_T'):
        return float(np.abs(x - t(x)).max())
    if cls == 'C_H':
        return float(np.abs(x - t(x).conj()).max())
    z, dev = unembed_real(x)
    if z is None:
        return float('inf')
    if cls == 'R_cT':
        dev = max(dev, float(np.abs(z - t(z)).max()))
    return dev


def coords(cls, x):
    """rows = coordinate vectors in which the class inner product is the standard one (real dot for the classes
    over R, Hermitian dot for the classes over C). `x` is in the representation of the class."""
    x = np.asarray(x)
    v = x.reshape(x.shape[0], int(np.prod(x.shape[1:])))
    if cls in REAL_FIELD:
        if np.iscomplexobj(v):
            v = np.concatenate([v.real, v.imag], axis=1)
        return np.asarray(v, dtype=np.float64)
    return np.asarray(v, dtype=np.complex128)


def to_representation(cls, mats):
    """the generators in the representation in which the class returns its basis"""
    mats = np.asarray(mats)
    if cls in EMBEDDED:
        return embed_real(mats)
    return mats


# ----------------------------------------------------------------------------- linear algebra on rows
def gram(v, w=None):
    w = v if w is None else w
    return v.conj() @ w.T


def singular_values(v):
    if v.shape[0] == 0 or v.shape[1] == 0:
        return np.zeros(0)
    return np.linalg.svd(v, compute_uv=False)


def rank_decision(v, lo=1e-12, hi=1e-7):
    """(rank, ambiguous): singular values relative to the largest; anything between lo and hi is ambiguous"""
    s = singular_values(v)
    if s.size == 0 or s[0] == 0:
        return 0, False
    rel = s / s[0]
    ambiguous = bool(np.any((rel > lo) & (rel < hi)))
    return int((rel >= hi).sum()), ambiguous


def onb(v, hi=1e-7):
    """orthonormal rows spanning the row space of v"""
    if v.shape[0] == 0:
        return v[:0]
    _, s, vh = np.linalg.svd(v, full_matrices=False)
    if s.size == 0 or s[0] == 0:
        return vh[:0]
    return vh[:int((s / s[0] >= hi).sum())]


def residual_onto(space_rows, rows):
    """max-abs component of `rows` (each normalised) outside span(space_rows)"""
    if rows.shape[0] == 0:
        return 0.0
    nrm = np.linalg.norm(rows, axis=1, keepdims=True)
    nrm[nrm == 0] = 1
    rows = rows / nrm
    q = onb(space_rows)
    res = rows - (rows @ q.conj().T) @ q
    return float(np.abs(res).max())


# ----------------------------------------------------------------------------- generators of structured subspaces
def _randn(rng, cplx, *shape):
    if cplx:
        return rng.normal(size=shape) + 1j * rng.normal(size=shape)
    return rng.normal(size=shape)


def structured_generators(rng, combo, m, n, n_indep, n_gen, scale=1.0):
    """`n_gen` dependent generators spanning an `n_indep`-dimensional subspace of the class of `combo`.
    combo = (class, dtype of generators 'real'|'complex', field)"""
    cls, dt, field = combo
    cplx = dt == 'complex'
    base = _randn(rng, cplx, n_indep, m, n)
    if cls in ('R_T', 'C_T', 'R_cT'):
        base = (base + base.transpose(0, 2, 1)) / 2
    elif cls == 'C_H':
        base = (base + base.transpose(0, 2, 1).conj()) / 2
    mix = _randn(rng, field == 'complex' and cplx, n_gen, n_indep)
    # a real symmetric / real general generator list spanned over C still has real generators (documented:
    # span_C(R^mn), span_C(R_T)): the mixing is real whenever the generators' dtype is real
    gens = np.tensordot(mix, base, axes=(1, 0)) * scale
    if cls in ('R_T', 'C_T', 'R_cT'):
        gens = (gens + gens.transpose(0, 2, 1)) / 2
    elif cls == 'C_H':
        gens = (gens + gens.transpose(0, 2, 1).conj()) / 2
    return gens


def graded_generators(rng, combo, m, n, svals, n_gen, scale=1.0):
    """`n_gen` generators of the class of `combo` whose coordinate matrix (class inner product) has EXACTLY the singular values
    `svals` (times `scale`, times the constant norm factor of the embedded classes): an orthonormal family of the class (QR in
    class coordinates, coefficients in the coefficient field of the class) mixed by a matrix with orthonormal columns.
    Used for nearly rank-deficient / badly conditioned but admissible generator lists (condition number = max/min of svals)."""
    cls, dt, field = combo
    svals = np.asarray(svals, dtype=np.float64)
    k = len(svals)
    assert n_gen >= k
    base = structured_generators(rng, combo, m, n, k, k)
    v = coords(cls, to_representation(cls, base))
    cplx_coeff = (cls not in REAL_FIELD) and dt == 'complex'
    if not cplx_coeff and np.iscomplexobj(v):
        v = np.concatenate([v.real, v.imag], axis=1)
    _, r = np.linalg.qr(v.T)
    ob = np.tensordot(np.linalg.inv(r.T), base, axes=(1, 0))
    u = orthonormal_rows(_randn(rng, cplx_coeff, k, n_gen)).T
    return np.tensordot(u * svals[None, :], ob, axes=(1, 0)) * scale


COMBOS = [('R', 'real', 'real'), ('R_T', 'real', 'real'), ('C', 'real', 'complex'), ('C', 'complex', 'complex'),
          ('C_T', 'real', 'complex'), ('C_T', 'complex', 'complex'), ('C_H', 'complex', 'real'),
          ('R_cT', 'complex', 'real'), ('R_c', 'complex', 'real')]


# ----------------------------------------------------------------------------- planted subspaces
def orthonormal_rows(v):
    """orthonormal rows with the same span (Householder QR of the transpose); v must have full row rank"""
    q, r = np.linalg.qr(v.T)
    return q.T


def random_rotation(rng, n, cplx):
    q, r = np.linalg.qr(_randn(rng, cplx, n, n))
    d = np.diag(r)
    return q * (d / np.abs(d))


def planted_low_rank(rng, dA, dB, rank, N, cplx, spread=1.0):
    """orthonormal basis (N,dA,dB) of a subspace that contains a planted element of rank exactly `rank`,
    hidden by a random invertible mixing followed by orthonormalisation and a random rotation of the basis.
    Returns (basis, planted element of unit Frobenius norm, condition number of the mixing)."""
    s = np.exp(rng.uniform(np.log(1 / spread), 0, size=rank)) if spread > 1 else np.ones(rank)
    s[0] = 1.0
    u = random_rotation(rng, dA, cplx)[:, :rank]
    v = random_rotation(rng, dB, cplx)[:rank]
    planted = (u * s) @ v
    planted = planted / np.linalg.norm(planted)
    gens = np.concatenate([planted[None], _randn(rng, cplx, N - 1, dA, dB)], axis=0)
    mix = _randn(rng, cplx, N, N)
    mixed = mix @ gens.reshape(N, -1)
    basis = random_rotation(rng, N, cplx) @ orthonormal_rows(mixed)
    return basis.reshape(N, dA, dB), planted, float(np.linalg.cond(mix))


def planted_product(rng, dims, N, cplx):
    """orthonormal basis (N,*dims) of a subspace containing a planted product vector a(x)b(x)c..."""
    vecs = [_randn(rng, cplx, d) for d in dims]
    vecs = [x / np.linalg.norm(x) for x in vecs]
    planted = vecs[0]
    for x in vecs[1:]:
        planted = np.multiply.outer(planted, x)
    D = int(np.prod(dims))
    gens = np.concatenate([planted.reshape(1, D), _randn(rng, cplx, N - 1, D)], axis=0)
    mix = _randn(rng, cplx, N, N)
    basis = random_rotation(rng, N, cplx) @ orthonormal_rows(mix @ gens)
    return basis.reshape((N,) + tuple(dims)), planted, vecs, float(np.linalg.cond(mix))


def planted_symmetric_rank_one(rng, d, N):
    """orthonormal basis (N,d,d) of a real subspace of SYMMETRIC matrices containing the planted rank-one element x x^T"""
    x = rng.normal(size=d)
    x /= np.linalg.norm(x)
    planted = np.outer(x, x)
    rest = rng.normal(size=(N - 1, d, d))
    rest = (rest + rest.transpose(0, 2, 1)) / 2
    gens = np.concatenate([planted[None], rest], axis=0).reshape(N, -1)
    basis = random_rotation(rng, N, False) @ orthonormal_rows(rng.normal(size=(N, N)) @ gens)
    return basis.reshape(N, d, d), planted


def basis_with_coefficients(rng, planted, N, cplx, coeff):
    """orthonormal basis B (N, *shape) of a random N-dimensional subspace containing `planted`, rotated such that
    planted/|planted| = sum_i coeff[i] B[i] (coeff: unit vector). Used to hand over bases in which the planted element has a
    prescribed (e.g. very small) component along one basis vector."""
    planted = np.asarray(planted)
    shape = planted.shape
    D = planted.size
    e = planted.reshape(D) / np.linalg.norm(planted)
    Q = orthonormal_rows(np.concatenate([e[None], _randn(rng, cplx, N - 1, D)], axis=0))
    Q[0] = e
    coeff = np.asarray(coeff) / np.linalg.norm(coeff)
    X = _randn(rng, cplx, N, N).astype(np.complex128 if cplx else np.float64)
    X[:, 0] = coeff.conj()
    R, _ = np.linalg.qr(X)
    j = int(np.argmax(np.abs(coeff)))
    R = R * (coeff.conj()[j] / R[j, 0])
    B = R @ Q
    return B.reshape((N,) + shape)


def coefficient_profile(basis, element):
    """|<B_i, element>| for the normalised element"""
    v = np.asarray(basis).reshape(len(basis), -1)
    e = np.asarray(element).reshape(-1)
    return np.abs(v.conj() @ (e / np.linalg.norm(e)))


def random_subspace(rng, shape, N, cplx):
    D = int(np.prod(shape))
    return orthonormal_rows(_randn(rng, cplx, N, D)).reshape((N,) + tuple(shape))


def orthonormality_defect(basis):
    v = np.asarray(basis).reshape(len(basis), -1)
    return float(np.abs(gram(v) - np.eye(len(v))).max())


def membership_residual(basis, element):
    """distance of `element` (normalised) from the complex span of the orthonormal basis"""
    v = np.asarray(basis).reshape(len(basis), -1)
    e = np.asarray(element).reshape(-1)
    e = e / np.linalg.norm(e)
    c = v.conj() @ e
    return float(np.linalg.norm(e - c @ v))


def numerical_rank(mat, tol=1e-10):
    s = np.linalg.svd(np.asarray(mat), compute_uv=False)
    return int((s > tol * s[0]).sum()), s


def generic_min_rank_bound(dA, dB, N):
    """largest r such that a generic N-dimensional subspace of dA x dB matrices has no non-zero element of rank < r
    (dimension count: matrices of rank <= r-1 form a variety of dimension (r-1)(dA+dB-r+1); projectively the subspace
    misses it generically iff N <= (dA-r+1)(dB-r+1))."""
    r = 1
    while r + 1 <= min(dA, dB) and N <= (dA - r) * (dB - r):
        r += 1
    return r


# ----------------------------------------------------------------------------- numerical range
def support_value(A, theta):
    """h(theta) = max over unit x of Re(e^{i theta} x^H A x) = lambda_max((e^{i theta} A + h.c.)/2)"""
    A = np.asarray(A, dtype=np.complex128)
    H = (np.exp(1j * theta) * A + np.exp(-1j * theta) * A.conj().T) / 2
    return float(np.linalg.eigvalsh(H)[-1])


def support_values(A, thetas):
    return np.array([support_value(A, t) for t in thetas])


def outside_numerical_range(points, A, ndir=72):
    """max over points and directions of Re(e^{i phi} p) - h(phi): > 0 means p is outside W(A) (W(A) is convex and
    compact, so it is the intersection of its supporting half planes)"""
    phis = np.linspace(0, 2 * np.pi, ndir, endpoint=False)
    h = support_values(A, phis)
    pts = np.asarray(points, dtype=np.complex128).reshape(-1)
    proj = (np.exp(1j * phis)[None, :] * pts[:, None]).real
    return float((proj - h[None, :]).max())


def radial_extent(A, alpha, ngrid=1440):
    """max{x >= 0 : x e^{i alpha} in W(A)} from the support function: x cos(phi+alpha) <= h(phi) for every direction phi, i.e.
    min over cos(phi+alpha) > 0 of h(phi)/cos(phi+alpha) (grid + golden-section refinement around the best grid point; an upper
    bound of the true value that is exact up to the refinement). Also returns min_phi h(phi) (> 0 iff 0 is an interior point)."""
    A = np.asarray(A, dtype=np.complex128)
    phis = np.linspace(0, 2 * np.pi, ngrid, endpoint=False)
    h = support_values(A, phis)
    c = np.cos(phis + alpha)
    ok = c > 1e-3
    f = np.where(ok, h / np.where(ok, c, 1.0), np.inf)
    i = int(np.argmin(f))
    fun = lambda p: support_value(A, p) / np.cos(p + alpha)
    lo, hi = phis[i] - 2 * np.pi / ngrid, phis[i] + 2 * np.pi / ngrid
    g = (np.sqrt(5) - 1) / 2
    a, b = lo, hi
    x1, x2 = b - g * (b - a), a + g * (b - a)
    f1, f2 = fun(x1), fun(x2)
    for _ in range(60):
        if f1 < f2:
            b, x2, f2 = x2, x1, f1
            x1 = b - g * (b - a)
            f1 = fun(x1)
        else:
            a, x1, f1 = x1, x2, f2
            x2 = a + g * (b - a)
            f2 = fun(x2)
    return float(min(f[i], f1, f2)), float(h.min())


def rand_square(rng, d, kind):
    if kind == 'nonnormal':
        return _randn(rng, True, d, d)
    if kind == 'real-nonnormal':
        return _randn(rng, False, d, d)
    if kind == 'hermitian':
        a = _randn(rng, True, d, d)
        return (a + a.conj().T) / 2
    if kind == 'normal':
        u = random_rotation(rng, d, True)
        return (u * _randn(rng, True, d)) @ u.conj().T
    if kind == 'normal-degenerate':
        u = random_rotation(rng, d, True)
        ev = _randn(rng, True, d)
        ev[1] = ev[0]
        return (u * ev) @ u.conj().T
    if kind == 'jordan':
        return np.diag(np.ones(d - 1), 1).astype(np.complex128) * _randn(rng, True, 1)[0]
    if kind == 'unitary':
        return random_rotation(rng, d, True)
    raise ValueError(kind)


# ----------------------------------------------------------------------------- real bipartite numerical range
def product_values(M, dA, dB, xs, ys):
    """(x(x)y)^T M (x(x)y) for rows of xs, ys (unit vectors)"""
    M4 = np.asarray(M).reshape(dA, dB, dA, dB)
    return np.einsum('ka,kb,abcd,kc,kd->k', xs, ys, M4, xs, ys, optimize=True)


def product_extreme(M, dA, dB, rng, kind, nsample=64, nstart=6, nsweep=400):
    """best value of (x(x)y)^T M (x(x)y) over real unit product vectors found by sampling and by alternating
    eigenvector sweeps (each half step is an exact maximisation, so the value is monotone); a valid *lower* bound of
    the maximum (kind='max') / *upper* bound of the minimum (kind='min') over real product vectors."""
    M4 = np.asarray(M, dtype=np.float64).reshape(dA, dB, dA, dB)
    M4 = (M4 + M4.transpose(2, 3, 0, 1)) / 2
    sgn = 1.0 if kind == 'max' else -1.0
    xs = rng.normal(size=(nsample, dA))
    xs /= np.linalg.norm(xs, axis=1, keepdims=True)
    ys = rng.normal(size=(nsample, dB))
    ys /= np.linalg.norm(ys, axis=1, keepdims=True)
    vals = product_values(M4, dA, dB, xs, ys)
    order = np.argsort(-sgn * vals)
    best = float(vals[order[0]])
    best_xy = (xs[order[0]], ys[order[0]])
    for i in order[:nstart]:
        x, y = xs[i], ys[i]
        last = None
        for _ in range(nsweep):
            My = np.einsum('abcd,b,d->ac', M4, y, y)
            w, V = np.linalg.eigh((My + My.T) / 2)
            x = V[:, -1] if sgn > 0 else V[:, 0]
            Mx = np.einsum('abcd,a,c->bd', M4, x, x)
            w, V = np.linalg.eigh((Mx + Mx.T) / 2)
            y = V[:, -1] if sgn > 0 else V[:, 0]
            cur = w[-1] if sgn > 0 else w[0]
            if last is not None and abs(cur - last) <= 1e-15 * max(1.0, abs(cur)):
                break
            last = cur
        val = float(np.einsum('a,b,abcd,c,d->', x, y, M4, x, y))
        if sgn * val > sgn * best:
            best, best_xy = val, (x, y)
    return best, best_xy


def _selfcheck():
    rng = np.random.default_rng(12345)
    a = _randn(rng, True, 3, 2, 4)
    z, dev = unembed_real(embed_real(a))
    assert dev == 0 and np.array_equal(z, a)
    # embedding is a ring homomorphism and doubles the real trace inner product
    b = _randn(rng, True, 4, 3)
    assert np.abs(embed_real(a[0] @ b) - embed_real(a[0]) @ embed_real(b)).max() < 1e-12
    assert abs((embed_real(a[0]) * embed_real(a[1])).sum() - 2 * np.vdot(a[0], a[1]).real) < 1e-12
    for combo in COMBOS:
        g = structured_generators(rng, combo, 3, 3, 2, 4)
        assert classify(g, combo[2]) == combo[0], combo
        assert rank_decision(coords(combo[0], to_representation(combo[0], g)))[0] == 2, combo
    basis, planted, _ = planted_low_rank(rng, 3, 4, 2, 3, True)
    assert orthonormality_defect(basis) < 1e-12 and membership_residual(basis, planted) < 1e-12
    assert numerical_rank(planted)[0] == 2
    basis, planted, vecs, _ = planted_product(rng, (2, 2, 3), 3, False)
    assert orthonormality_defect(basis) < 1e-12 and membership_residual(basis, planted) < 1e-12
    for cplx in (False, True):
        pl = _randn(rng, cplx, 2, 3)
        cf = _randn(rng, cplx, 4)
        cf[-1] = 1e-5
        cf /= np.linalg.norm(cf)
        bb = basis_with_coefficients(rng, pl, 4, cplx, cf)
        assert orthonormality_defect(bb) < 1e-12 and membership_residual(bb, pl) < 1e-12
        assert np.abs(bb.reshape(4, -1).conj() @ (pl.reshape(-1) / np.linalg.norm(pl)) - cf).max() < 1e-12
    A = rand_square(rng, 4, 'normal')
    assert np.abs(A @ A.conj().T - A.conj().T @ A).max() < 1e-12
    # support function of a normal matrix is the support function of its eigenvalues
    ev = np.linalg.eigvals(A)
    for t in (0.0, 1.0, 2.5):
        assert abs(support_value(A, t) - (np.exp(1j * t) * ev).real.max()) < 1e-12
    assert outside_numerical_range(ev, A) < 1e-12
    assert outside_numerical_range([ev[0] + 10], A) > 1
    for combo in COMBOS:
        g = graded_generators(rng, combo, 3, 3, [1.0, 1e-2, 1e-5], 5, 10.0)
        assert classify(g, combo[2]) == combo[0], combo
        sv = singular_values(coords(combo[0], to_representation(combo[0], g)))
        assert np.abs(sv[:3] / sv[0] - [1.0, 1e-2, 1e-5]).max() < 1e-9 and sv[3] < 1e-12 * sv[0], (combo, sv)
    bs, pl = planted_symmetric_rank_one(rng, 3, 2)
    assert orthonormality_defect(bs) < 1e-12 and membership_residual(bs, pl) < 1e-12 and np.abs(bs - bs.transpose(0, 2, 1)).max() < 1e-14
    r, hmin = radial_extent(np.diag([1.0, -1.0, 1j, -1j]), 0.0)      # W = square with corners +-1, +-i
    assert abs(r - 1) < 1e-9 and hmin > 0.5
    r, _ = radial_extent(np.diag([1.0, -1.0, 1j, -1j]), np.pi / 4)
    assert abs(r - np.sqrt(0.5)) < 1e-9
    assert generic_min_rank_bound(3, 3, 4) == 2 and generic_min_rank_bound(3, 3, 5) == 1 and generic_min_rank_bound(4, 4, 4) == 3


_selfcheck()
