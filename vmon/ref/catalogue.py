"""Reference definitions for the named states / bases / closed forms of the numqi catalogue (property C18).

Pure numpy, nothing here imports numqi. Everything is written from the textbook definition with explicit loops over basis
labels (deliberately not with the reshape / fancy-index tricks a library would use), so that an index or normalisation slip
in the library cannot be shared.

Conventions: multi-partite basis index is big-endian (party 0 is the left-most Kronecker factor); entropies in nats.
"""
import itertools
import math

import numpy as np


# ------------------------------------------------------------------------------------------------ generic tools
def is_ket(x, length):
    x = np.asarray(x)
    return x.ndim == 1 and x.shape[0] == length


def projector(psi):
    psi = np.asarray(psi).reshape(-1)
    return np.outer(psi, psi.conj())


def hermitian_error(m):
    m = np.asarray(m)
    return float(np.abs(m - m.conj().T).max()) if m.size else 0.0


def min_eig(m):
    m = np.asarray(m)
    return float(np.linalg.eigvalsh((m + m.conj().T) / 2)[0])


def partial_transpose(rho, dims, parties):
    """transpose the parties listed in `parties` of an operator on (x)_i C^dims[i] (explicit axis swap)."""
    dims = [int(d) for d in dims]
    n = len(dims)
    D = int(np.prod(dims))
    t = np.asarray(rho).reshape(dims + dims)
    perm = list(range(2 * n))
    for p in parties:
        perm[p], perm[n + p] = perm[n + p], perm[p]
    return t.transpose(perm).reshape(D, D)


def bipartitions(n):
    """all non-trivial bipartitions of n parties, each given once as the subset that contains party 0's complement side."""
    ret = []
    for r in range(1, n):
        for sub in itertools.combinations(range(n), r):
            if 0 in sub:
                continue  # complement already listed (transpose of one side == transpose of the other, up to a global transpose)
            ret.append(sub)
    return ret


def kron_rows(factors):
    """factors: list of (N, d_i) arrays; returns (N, prod d_i): row k is the Kronecker product of the k-th rows."""
    N = factors[0].shape[0]
    out = []
    for k in range(N):
        v = np.array([1.0 + 0j])
        for f in factors:
            v = np.kron(v, np.asarray(f)[k])
        out.append(v)
    return np.stack(out)


def entropy_nats(p):
    p = np.asarray(p, dtype=np.float64)
    p = p[p > 0]
    return float(-(p * np.log(p)).sum())


def h2(x):
    x = float(x)
    s = 0.0
    for t in (x, 1 - x):
        if t > 0:
            s -= t * math.log(t)
    return s


def relative_entropy(rho, sigma):
    """S(rho||sigma) = tr rho (log rho - log sigma) in nats; sigma must have full support on supp(rho)."""
    rho = np.asarray(rho, dtype=np.complex128)
    sigma = np.asarray(sigma, dtype=np.complex128)
    el, ev = np.linalg.eigh((sigma + sigma.conj().T) / 2)
    q = np.real(np.einsum('ij,ik,kj->j', ev.conj(), rho, ev))  # <e_j|rho|e_j>
    a = 0.0
    for qi, li in zip(q, el):
        if qi > 1e-300:
            a -= qi * math.log(max(li, 1e-300))
    pl = np.linalg.eigvalsh((rho + rho.conj().T) / 2)
    return a - entropy_nats(pl)


# ------------------------------------------------------------------------------------------------ kets
def ghz(n):
    v = np.zeros(2**n)
    for bits in itertools.product((0, 1), repeat=n):
        if len(set(bits)) == 1:
            v[int(''.join(map(str, bits)), 2)] += 1.0
    return v / np.linalg.norm(v)  # n=1: (|0>+|1>)/sqrt2


def w_state(n):
    v = np.zeros(2**n)
    for bits in itertools.product((0, 1), repeat=n):
        if sum(bits) == 1:
            v[int(''.join(map(str, bits)), 2)] = 1.0
    return v / math.sqrt(n)


def wtype(coeff, little_endian):
    """sum_j c_j |x_j> with wt(x_j)=1, c normalised. little_endian: c_j sits on basis index 2^j, else on 2^(n-1-j)."""
    c = np.asarray(coeff)
    c = c.astype(np.complex128 if c.dtype.kind == 'c' else np.float64)  # the VALUES: small integer dtypes would overflow in the square
    c = c / math.sqrt(float((np.abs(c)**2).sum()))
    n = c.shape[0]
    v = np.zeros(2**n, dtype=c.dtype)
    for j in range(n):
        v[2**j if little_endian else 2**(n - 1 - j)] = c[j]
    return v


BELL = {  # the usual order Phi+, Phi-, Psi+, Psi- in the basis 00,01,10,11
    0: np.array([1, 0, 0, 1]) / math.sqrt(2),
    1: np.array([1, 0, 0, -1]) / math.sqrt(2),
    2: np.array([0, 1, 1, 0]) / math.sqrt(2),
    3: np.array([0, 1, -1, 0]) / math.sqrt(2),
}


def dicke(klist):
    """equal superposition of all basis states of sum(klist) qudits (dim=len(klist)) having klist[l] qudits in level l."""
    dim = len(klist)
    n = sum(klist)
    v = np.zeros(dim**n)
    count = 0
    for digits in itertools.product(range(dim), repeat=n):
        if all(digits.count(l) == klist[l] for l in range(dim)):
            idx = 0
            for t in digits:
                idx = idx * dim + t
            v[idx] = 1.0
            count += 1
    mult = math.factorial(n)
    for k in klist:
        mult //= math.factorial(k)
    assert count == mult
    return v / math.sqrt(count)


def max_entangled(d):
    v = np.zeros(d * d)
    for i in range(d):
        v[i * d + i] = 1 / math.sqrt(d)
    return v


def max_coherent(d):
    return np.full(d, 1 / math.sqrt(d))


# ------------------------------------------------------------------------------------------------ density matrices
def swap(d):
    s = np.zeros((d * d, d * d))
    for i in range(d):
        for j in range(d):
            s[i * d + j, j * d + i] = 1.0
    return s


def werner(d, alpha):
    """numqi docstring convention: alpha in [-1,1], separable for alpha<=1/d: (I - alpha*SWAP)/(d^2 - d*alpha)."""
    return (np.eye(d * d) - alpha * swap(d)) / (d * d - d * alpha)


def isotropic(d, alpha):
    """alpha in [-1/(d^2-1),1], separable for alpha<=1/(d+1): (1-alpha) I/d^2 + alpha |Phi+><Phi+|."""
    return (1 - alpha) * np.eye(d * d) / (d * d) + alpha * projector(max_entangled(d))


def max_mixed(d):
    """documented shape (d^2, d^2): the maximally mixed state of two qudits."""
    return np.eye(d * d) / (d * d)


def antoine2022(q, orientation=+1):
    """Horodecki family 2/7 |Phi3><Phi3| + (2.5+q)/7 sigma_+ + (2.5-q)/7 sigma_-  (q in [-2.5,2.5]).
    sigma_+ / sigma_- are the normalised projectors on {|i,i+1>} / {|i,i-1>} (mod 3); which of the two carries 2.5+q is not
    fixed by the docstring, `orientation=-1` exchanges them."""
    q = q * orientation
    rho = (2 / 7) * projector(max_entangled(3))
    for i in range(3):
        a = i * 3 + (i + 1) % 3
        b = i * 3 + (i - 1) % 3
        rho[a, a] += (2.5 + q) / 21
        rho[b, b] += (2.5 - q) / 21
    return rho


def horodecki_2x4(b):
    """P. Horodecki 1997, the 2x4 family, written out entry by entry."""
    s = math.sqrt(max(0.0, 1 - b * b)) / 2
    c = (1 + b) / 2
    m = np.array([
        [b, 0, 0, 0, 0, b, 0, 0],
        [0, b, 0, 0, 0, 0, b, 0],
        [0, 0, b, 0, 0, 0, 0, b],
        [0, 0, 0, b, 0, 0, 0, 0],
        [0, 0, 0, 0, c, 0, 0, s],
        [b, 0, 0, 0, 0, b, 0, 0],
        [0, b, 0, 0, 0, 0, b, 0],
        [0, 0, b, 0, s, 0, 0, c],
    ], dtype=np.float64)
    return m / (7 * b + 1)


def horodecki_3x3(a):
    """P. Horodecki 1997, the 3x3 family, written out entry by entry."""
    s = math.sqrt(max(0.0, 1 - a * a)) / 2
    c = (1 + a) / 2
    m = np.array([
        [a, 0, 0, 0, a, 0, 0, 0, a],
        [0, a, 0, 0, 0, 0, 0, 0, 0],
        [0, 0, a, 0, 0, 0, 0, 0, 0],
        [0, 0, 0, a, 0, 0, 0, 0, 0],
        [a, 0, 0, 0, a, 0, 0, 0, a],
        [0, 0, 0, 0, 0, a, 0, 0, 0],
        [0, 0, 0, 0, 0, 0, c, 0, s],
        [0, 0, 0, 0, 0, 0, 0, a, 0],
        [a, 0, 0, 0, a, 0, s, 0, c],
    ], dtype=np.float64)
    return m / (8 * a + 1)


# ------------------------------------------------------------------------------------------------ two-qubit measures
def concurrence_2qubit(rho):
    """Wootters: eigenvalues of rho * (Y(x)Y) rho^* (Y(x)Y) (non-Hermitian product, general eigenvalue solver)."""
    rho = np.asarray(rho, dtype=np.complex128)
    Y = np.array([[0, -1j], [1j, 0]])
    YY = np.kron(Y, Y)
    R = rho @ YY @ rho.conj() @ YY
    lam = np.sqrt(np.maximum(0.0, np.sort(np.linalg.eigvals(R).real)))[::-1]
    return max(0.0, float(lam[0] - lam[1] - lam[2] - lam[3]))


def eof_from_concurrence(C):
    return h2((1 + math.sqrt(max(0.0, 1 - C * C))) / 2)


def gme_from_concurrence(C):
    return (1 - math.sqrt(max(0.0, 1 - C * C))) / 2


# ------------------------------------------------------------------------------------------------ closed forms (own derivation)
def werner_f(d, alpha):
    """f = tr(rho SWAP), computed from the reference matrix (not from a formula in alpha)."""
    return float(np.trace(werner(d, alpha) @ swap(d)).real)


def werner_eof_ref(d, alpha):
    """Vollbrecht-Werner: E_F = h2((1+sqrt(1-f^2))/2) for f<0 else 0."""
    f = werner_f(d, alpha)
    return 0.0 if f >= 0 else h2((1 + math.sqrt(max(0.0, 1 - f * f))) / 2)


def werner_gme_ref(d, alpha):
    """Wei-Goldbart eq 51: (1-sqrt(1-f^2))/2 for f<=0 else 0."""
    f = werner_f(d, alpha)
    return 0.0 if f >= 0 else (1 - math.sqrt(max(0.0, 1 - f * f))) / 2


def werner_ree_ref(d, alpha):
    """REE of a Werner state with antisymmetric weight p=tr(rho P_a)>1/2: ln2 - h2(p); closest separable state p=1/2."""
    p = (1 - werner_f(d, alpha)) / 2
    return 0.0 if p <= 0.5 else math.log(2) - h2(p)


def isotropic_F(d, alpha):
    """F = <Phi+|rho|Phi+> from the reference matrix."""
    phi = max_entangled(d)
    return float((phi @ isotropic(d, alpha) @ phi).real)


def isotropic_gme_ref(d, alpha):
    F = isotropic_F(d, alpha)
    if F <= 1 / d:
        return 0.0
    return 1 - (math.sqrt(F) + math.sqrt(max(0.0, (1 - F)) * (d - 1)))**2 / d


def isotropic_eof_ref(d, alpha):
    """Terhal-Vollbrecht."""
    F = isotropic_F(d, alpha)
    if F <= 1 / d:
        return 0.0
    knee = 4 * (d - 1) / (d * d)
    if d == 2 or F <= knee:
        g = (math.sqrt(F) + math.sqrt((d - 1) * max(0.0, 1 - F)))**2 / d
        g = min(g, 1.0)
        return h2(g) + ((1 - g) * math.log(d - 1) if d > 2 else 0.0)
    return d * math.log(d - 1) * (F - 1) / (d - 2) + math.log(d)


def isotropic_ree_ref(d, alpha):
    """Rains: ln d - (1-F) ln(d-1) - h2(F) for F>=1/d."""
    F = isotropic_F(d, alpha)
    if F <= 1 / d:
        return 0.0
    return math.log(d) - (1 - F) * math.log(d - 1) - h2(F)


def qubit_dicke_gme_ref(n, k):
    """1 - max_theta |<D(n,k)|(cos t|0>+sin t|1>)^n|^2 by dense search + golden section (closest product state of a
    symmetric state with non-negative amplitudes is symmetric); no use of the stationary-point formula."""
    if k == 0 or k == n:
        return 0.0
    c = math.comb(n, k)

    def ov(t):
        return c * math.cos(t)**(2 * (n - k)) * math.sin(t)**(2 * k)

    ts = np.linspace(0, math.pi / 2, 2001)
    i = int(np.argmax([ov(t) for t in ts]))
    lo, hi = ts[max(i - 1, 0)], ts[min(i + 1, len(ts) - 1)]
    g = (math.sqrt(5) - 1) / 2
    for _ in range(200):
        a, b = hi - g * (hi - lo), lo + g * (hi - lo)
        if ov(a) < ov(b):
            lo = a
        else:
            hi = b
    return 1 - ov((lo + hi) / 2)


def max_product_overlap(psi, dims, rng, restarts=20, iters=2000, tol=1e-15):
    """max over product vectors of |<a0 a1 ...|psi>|^2 by alternating maximisation (lower bound on the true maximum)."""
    dims = [int(d) for d in dims]
    n = len(dims)
    T = np.asarray(psi, dtype=np.complex128).reshape(dims)
    best = 0.0
    for r in range(restarts):
        vs = []
        for d in dims:
            v = rng.normal(size=d) + 1j * rng.normal(size=d)
            vs.append(v / np.linalg.norm(v))
        last = -1.0
        val = 0.0
        for _ in range(iters):
            for p in range(n):
                t = T
                # contract every party but p with conj(v)
                for q in reversed(range(n)):
                    if q != p:
                        t = np.tensordot(t, vs[q].conj(), axes=([q], [0]))
                nv = np.linalg.norm(t)
                if nv < 1e-300:
                    break
                vs[p] = t / nv
                val = nv**2
            if abs(val - last) < tol:
                break
            last = val
        best = max(best, val)
    return best


def wtype_gme_ref(a, b, c, rng=None):
    """1 - max product overlap of a|100>+b|010>+c|001>, without the stationary-point algebra of the paper:
    fix the third qubit to cos(p)|0>+e^{ix}sin(p)|1>; what is left on qubits 1,2 is the matrix
    M = [[c e^{-ix} sin p, b cos p], [a cos p, 0]] whose best product overlap is its largest singular value; the
    singular values depend only on tr(MM^+) and |det M| (both independent of x), so a 1-D search over p decides."""
    a2, b2, c2 = a * a, b * b, c * c

    def lam(p):
        cp2, sp2 = np.cos(p)**2, np.sin(p)**2
        T = c2 * sp2 + (a2 + b2) * cp2
        D = a2 * b2 * cp2 * cp2
        return (T + np.sqrt(np.maximum(0.0, T * T - 4 * D))) / 2

    ts = np.linspace(0, math.pi / 2, 4001)
    vals = lam(ts)
    best = float(vals.max())
    for i in np.argsort(vals)[-3:]:
        lo, hi = ts[max(i - 1, 0)], ts[min(i + 1, len(ts) - 1)]
        g = (math.sqrt(5) - 1) / 2
        for _ in range(120):
            x1, x2 = hi - g * (hi - lo), lo + g * (hi - lo)
            if lam(x1) < lam(x2):
                lo = x1
            else:
                hi = x2
        best = max(best, float(lam((lo + hi) / 2)))
    return 1 - best


# ------------------------------------------------------------------------------------------------ UPB
def tiles_upb():
    """Bennett et al. 1999, eq (3), as a list of full product vectors in C^3 (x) C^3."""
    e = np.eye(3)
    s2 = math.sqrt(2)
    vs = [
        np.kron(e[0], (e[0] - e[1]) / s2),
        np.kron((e[0] - e[1]) / s2, e[2]),
        np.kron(e[2], (e[1] - e[2]) / s2),
        np.kron((e[1] - e[2]) / s2, e[0]),
        np.kron(e.sum(0), e.sum(0)) / 3,
    ]
    return np.stack(vs)


def pyramid_upb():
    """Bennett et al. 1999: v_j = N (cos 2 pi j/5, sin 2 pi j/5, h), h = sqrt(1+sqrt5)/2, N = 2/sqrt(5+sqrt5); p_j = v_j (x) v_{2j mod 5}."""
    h = math.sqrt(1 + math.sqrt(5)) / 2
    N = 2 / math.sqrt(5 + math.sqrt(5))
    v = [N * np.array([math.cos(2 * math.pi * j / 5), math.sin(2 * math.pi * j / 5), h]) for j in range(5)]
    return np.stack([np.kron(v[j], v[(2 * j) % 5]) for j in range(5)])


def upb_expected_size(kind, args):
    """documented number of members (QETLAB UPB page / the cited papers) and local dimensions."""
    kind = kind.lower()
    if kind in ('tiles', 'pyramid', 'sixparam'):
        return 5, (3, 3)
    if kind in ('feng4x4', 'min4x4'):
        return 8, (4, 4)
    if kind == 'feng2x2x2x2':
        return 6, (2, 2, 2, 2)
    if kind == 'quadres':
        d = int(args)
        return 2 * d - 1, (d, d)
    if kind == 'genshifts':
        n = int(args)
        return n + 1, (2,) * n
    if kind == 'gentiles1':
        d = int(args)
        return d * d - 2 * d + 1, (d, d)
    if kind == 'gentiles2':
        m, n = int(args[0]), int(args[1])
        return m * n - 2 * m + 1, (m, n)
    raise KeyError(kind)


def bes_from_vectors(vecs):
    vecs = np.asarray(vecs, dtype=np.complex128)
    D = vecs.shape[1]
    P = np.zeros((D, D), dtype=np.complex128)
    for v in vecs:
        P += np.outer(v, v.conj())
    m = np.eye(D) - P
    return m / np.trace(m).real


def min_product_overlap_with_set(factors, rng, restarts=50, iters=300, tol=1e-14):
    """min over product vectors x of sum_i |<v_i|x>|^2 (v_i = members of the UPB, given by their factors) found by
    alternating minimisation from random starts. Zero <=> a product vector orthogonal to all members exists (extendible).
    Returns the smallest value found (an upper bound of the true minimum)."""
    n = len(factors)
    facs = [np.asarray(f, dtype=np.complex128) for f in factors]
    best = np.inf
    for r in range(restarts):
        xs = []
        for f in facs:
            v = rng.normal(size=f.shape[1]) + 1j * rng.normal(size=f.shape[1])
            xs.append(v / np.linalg.norm(v))
        last = np.inf
        val = np.inf
        for _ in range(iters):
            for p in range(n):
                w = np.ones(facs[0].shape[0])
                for q in range(n):
                    if q != p:
                        w = w * np.abs(facs[q].conj() @ xs[q])**2
                M = (facs[p].T * w) @ facs[p].conj()  # sum_i w_i |f_i><f_i|
                el, ev = np.linalg.eigh((M + M.conj().T) / 2)
                xs[p] = ev[:, 0]
                val = float(max(el[0], 0.0))
            if abs(last - val) < tol or val < 1e-18:
                break
            last = val
        best = min(best, val)
        if best < 1e-18:
            break
    return best


# ------------------------------------------------------------------------------------------------ POVM / bases
def is_prime(n):
    if n < 2:
        return False
    return all(n % k for k in range(2, int(math.isqrt(n)) + 1))


def fourier(dim):
    F = np.zeros((dim, dim), dtype=np.complex128)
    for j in range(dim):
        for k in range(dim):
            ang = 2 * math.pi * ((j * k) % dim) / dim
            F[j, k] = complex(math.cos(ang), math.sin(ang)) / math.sqrt(dim)
    return F


def chebyshev_bases(d, alpha, with_computational_basis=False):
    """the four (five) bases of Carmeli-Heinosaari-Schultz-Toigo: rows are basis vectors; T_n(cos t)=cos(n t),
    p_0=1, p_n=sqrt2 T_n evaluated at the zeros of T_d (bases 0,2) and of T_(d-1) plus the last unit vector (bases 1,3);
    bases 2,3 carry the phases exp(i alpha n)."""
    def block(m, phase):
        B = np.zeros((m, d), dtype=np.complex128)
        for i in range(m):
            t = math.pi * (i + 0.5) / m
            for n in range(d):
                c = 1.0 if n == 0 else math.sqrt(2)
                B[i, n] = c * math.cos(n * t) / math.sqrt(m)
                if phase:
                    B[i, n] *= complex(math.cos(alpha * n), math.sin(alpha * n))
        return B

    last = np.zeros((1, d), dtype=np.complex128)
    last[0, d - 1] = 1
    out = [block(d, False), np.concatenate([block(d - 1, False), last]), block(d, True), np.concatenate([block(d - 1, True), last])]
    if with_computational_basis:
        out.append(np.eye(d, dtype=np.complex128))
    return out


def element_probing_eq9_bases(dim):
    """the four orthonormal bases of Baldwin-Deutsch-Kalev (PRA 93, 052105) eq. (9), even dim >= 4; rows are basis vectors:
    B1 = {(|2j> +- |2j+1>)/sqrt2}, B2 = {(|2j+1> +- |2j+2 mod d>)/sqrt2}, B3, B4 = the same with +-i on the second ket."""
    s = 1 / math.sqrt(2)
    out = []
    for shift, ph in ((0, 1), (1, 1), (0, 1j), (1, 1j)):
        B = np.zeros((dim, dim), dtype=np.complex128)
        for j in range(dim // 2):
            p, q = (2 * j + shift) % dim, (2 * j + shift + 1) % dim
            B[2 * j, p], B[2 * j, q] = s, s * ph
            B[2 * j + 1, p], B[2 * j + 1, q] = s, -s * ph
        out.append(B)
    return out
