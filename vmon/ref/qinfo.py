"""Reference distance / entropy functionals on density matrices (C12). Nothing here imports numqi.
Written from the textbook definitions with routes different from numqi's where possible (SVD instead of eigvalsh,
0 log 0 = 0 and +inf on a support violation instead of clipping eigenvalues)."""
import numpy as np


def as_dm(x):
    """a ket (ndim 1) becomes its projector"""
    x = np.asarray(x, dtype=np.complex128)
    if x.ndim == 1:
        return np.outer(x, x.conj())
    return x


def herm(m):
    m = np.asarray(m, dtype=np.complex128)
    return (m + m.conj().T) / 2


def spectrum(rho):
    return np.linalg.eigvalsh(herm(rho))


def psd_sqrt(rho):
    evl, evc = np.linalg.eigh(herm(rho))
    return (evc * np.sqrt(np.clip(evl, 0, None))) @ evc.conj().T


def fidelity(rho, sigma):
    """F = (Tr sqrt(sqrt(rho) sigma sqrt(rho)))^2 = || sqrt(rho) sqrt(sigma) ||_1^2  (nuclear norm by SVD)."""
    a = psd_sqrt(as_dm(rho))
    b = psd_sqrt(as_dm(sigma))
    return float(np.linalg.svd(a @ b, compute_uv=False).sum() ** 2)


def trace_distance(rho, sigma):
    """|| rho - sigma ||_1 / 2 (nuclear norm by SVD)."""
    d = np.asarray(rho, dtype=np.complex128) - np.asarray(sigma, dtype=np.complex128)
    return float(np.linalg.svd(d, compute_uv=False).sum() / 2)


def entropy(rho):
    """-sum l log l with 0 log 0 = 0 (natural logarithm)."""
    evl = np.clip(spectrum(rho), 0, None)
    nz = evl[evl > 0]
    return float(-(nz * np.log(nz)).sum())


def relative_entropy(rho, sigma, support_tol=1e-12):
    """S(rho||sigma) = sum_i p_i log p_i - sum_ij p_i |<u_i|v_j>|^2 log q_j ; +inf when rho has weight on ker(sigma)."""
    p, u = np.linalg.eigh(herm(rho))
    q, v = np.linalg.eigh(herm(sigma))
    p = np.clip(p, 0, None)
    q = np.clip(q, 0, None)
    ov = np.abs(u.conj().T @ v) ** 2  # ov[i, j]
    ret = 0.0
    for i in range(len(p)):
        if p[i] <= 0:
            continue
        ret += p[i] * np.log(p[i])
        for j in range(len(q)):
            w = p[i] * ov[i, j]
            if q[j] <= support_tol:
                if w > support_tol:
                    return float('inf')
                continue
            ret -= w * np.log(q[j])
    return float(ret)
