"""C04 - hand-written backward passes return the true gradient.

Monitors
  (a) `numqi.optimize._internal.hf_model_wrapper` is wrapped so that the closure it returns is itself wrapped: a
      postcondition compares the returned (fval, grad) with central finite differences of the same closure's forward
      value at two step sizes (every k-th evaluation when an optimizer drives it).
  (b) postconditions on the `backward` of every custom autograd Function (`_CircuitFunction`,
      `_KnillLaflammeInnerProductTorchOp`, `PSDMatrixSqrtm`, `_PSDMatrixSqrtmRepeat`): the returned vector-Jacobian
      product is compared with the one obtained by plain autograd through the reference re-implementation
      (vmon/ref/gradref.py: dense embedded unitaries, einsum Knill-Laflamme, Daleckii-Krein for the matrix functions).
  (c) workload-level checks of `.grad` after `backward()` against BOTH central finite differences of numqi's public
      forward and autograd through the reference re-implementation of the whole loss.
  (d) argument-mutation contracts: arguments, saved tensors and grad_output of every custom forward/backward and of the
      per-gate adjoint rules (`sim.state.apply_gate_grad`, `apply_control_n_gate_grad`) are snapshotted at call time; the
      postconditions are judged against the snapshot and any in-place modification is reported as `<fn>/mutates-...`.
  (e) histories / call order / layout (shards `history-*`): one wrapper or tensor object differentiated repeatedly with
      in-place updates in between, one cotangent re-used for two backward passes, stride-0 cotangents (out.sum()/mean()),
      the same configurations in several call orders inside one process with one repeated at the end, batched == per item,
      transposed / strided / conjugate-view / permuted-batch / single-precision / real-dtype inputs.
  (f) exact special values and API surface: circuits with all / some parameters exactly 0, pi/2, pi, 2pi and gates built with
      args=None (the gate is exactly the identity), VarQEC and knill_laflamme_loss on the grid {L1, L2} x K in {1,2,3,4},
      PSD inputs that are exactly the identity / a multiple of it / diagonal / degenerate (plus finite differences along Hermitian
      directions), and every public entry point called positionally (shipped parameter order), with keywords, with explicit
      defaults and with numpy scalars / tuple / list / set index forms, all required to give the same gradient.
  (g) numerical / size regimes, evaluation modes and object lifecycle: angles of size 1e-9..1e-6, within 1e-9..1e-5 of 0 / pi/2 / pi / 2pi and
      in [-20, 20]; three-target gates in every qubit order (3-cycles), plain and controlled, 5-qubit programs; PSD inputs that are nearly
      singular (lambda_min/lambda_max 1e-6..1e-3), nearly degenerate (c(I + eps H), eps 1e-10..1e-6), exact objects plus NON-Hermitian rounding
      noise 1e-15..1e-9, d = 1 and d = 8; gradient w.r.t. an INPUT density matrix exactly at / 1e-10..1e-6 from the maximally mixed state;
      vector-Jacobian products with a 1e-9-scaled cotangent; deepcopy / load_state_dict / two wrappers over one Circuit / two wrappers chained /
      leaf input state that requires grad / frozen parameter tensor / value under no_grad (point lifecycle/circuit); extend_circuit,
      get_model_flat_grad, check_model_gradient, minimize_adam (thorough), QueryGroverQuantumModel, deepcopy and default dtype of PSDMatrixLogm.
"""
import math
import os

import numpy as np
import torch

from vmon.ref import gradref as R

RULE = ('cases = (gate program | matrix input | model configuration, parameter point): random circuit programs on 1..4 '
        'qubits with 1..12 gates drawn from plain / controlled / multi-controlled / shared / placeholder parametrized gates '
        'and fixed gates, random Hermitian observable and initial state; random PSD inputs (full rank, degenerate, '
        'rank deficient, batched, real/complex, d=2..5); Knill-Laflamme operator lists; variational models. A case is '
        'non-trivial when it has at least one differentiable parameter and the delivered gradient is not identically zero '
        '(max|g| > 1e-8); distinct by digest of (kind, program/configuration, parameter point). Histories: one wrapper / tensor '
        'object differentiated repeatedly with in-place updates in between (fresh_gate_parameter, set_args, setP, copy_ into the '
        'input tensor, editing the previous result), one cotangent tensor re-used for two backward passes, losses built from '
        'out.sum()/mean() (stride-0 cotangent); the same configurations in three call orders inside one process (mixed-rank batch, '
        'full-rank batch, un-batched; qubit counts 4,1,3,2) with one repeated at the end; transposed / strided / conjugate-view / '
        'permuted-batch / float32 / complex64 / real-dtype inputs judged against the reference of the VALUES. Exact special values: '
        'every 10th..3rd program has all/some angles exactly 0, pi/2, pi, 2pi or gates built with args=None; PSD inputs exactly I, c*I, '
        'diagonal, degenerate; loss kinds {L1,L2} x num_logical_dim {1,2,3,4}; positional / keyword / explicit-default / numpy-scalar / '
        'sequence-index call forms of the public entry points. Regimes: every 10th program each has tiny (1e-9..1e-6) / near-special (1e-9..1e-5 off) / '
        'wide ([-20,20]) angles; three-target gates in all 6 qubit orders; every 7th program up to 5 qubits; PSD classes near-singular, near-identity, '
        'noisy-identity; d in {1, 8} every 12th matrix case; input density matrices at distance 0 / 1e-10..1e-6 / O(0.1) from the maximally mixed state; '
        'lifecycle cases (deepcopy, load_state_dict, shared Circuit, chained wrappers, leaf input state, frozen parameter) every 2nd history repetition')
EXHAUSTIVE = {'quick': False, 'thorough': False}
EXHAUSTIVE_DOMAINS = {'quick': [], 'thorough': []}
ASSUMPTIONS = [
    'finite-difference oracle: central differences at h=1e-5 and 1e-6 in float64; a disagreement counts only if it persists '
    'at both steps, exceeds 1e-6*(1+|g|max)*kappa and the two difference quotients agree with each other',
    'matrix square root / logarithm: kappa = 1/sqrt(lambda_min), 1/lambda_min; cases with kappa>1e3 are skipped as inconclusive',
    'for Hermitian-constrained inputs only the Hermitian part of the gradient w.r.t. the matrix is determined and compared',
    'rank-deficient PSD input: only the support block P g P (and finiteness with a single exact-zero eigenvalue) is judged',
    'circuit gates are unitary (the reverse sweep un-applies gates); non-unitary "unitary" gates are inadmissible and not generated',
    'reference gate conventions (rx, ry, rz, u3, rzz; qubit 0 most significant) are checked against the forward value before '
    'the autograd oracle is used',
    'arguments, saved tensors and grad_output are snapshotted at call time; every backward postcondition is judged against the '
    'snapshot, and any in-place modification is a violation of its own (<fn>/mutates-...)',
    'single-precision inputs: tolerance 1e3*eps(float32)*kappa, decision threshold 1e-2, no finite differences',
    'nearly singular PSD input: tolerance 1e3*eps*cond (cond^1.5 for repeated roots) with cond = lambda_max/lambda_min from the monitor\'s own eigh of the '
    'INPUT; beyond 1e-6*scale (cond > ~4.5e6, resp. ~2.7e4) the case is inconclusive; measured honest error is < 1e-3 of that tolerance at every decade',
    'PSD input that is Hermitian only up to noise: numqi reads one triangle, the reference the Hermitian part; tolerance is widened by '
    '4*d*max|A-A^H|*|cotangent|max*max(1, lambda_min^-2) (second-derivative bound from the input)',
    'custom (hand-differentiated) gates inside circuits, incl. the trainable FractionalGroverOracle, are judged through the closure finite '
    'differences only',
    'a numpy (non-tensor) initial state is accepted by the circuit forward but cannot be differentiated (torch rejects the state '
    'gradient returned for a non-tensor input); recorded as inconclusive, not judged',
]
TECHNIQUE = ('runtime monitoring: postcondition on the closure returned by optimize.hf_model_wrapper (finite differences of its own '
             'forward value), postconditions on the backward of every custom autograd Function (vector-Jacobian product of an '
             'independent dense/einsum/Daleckii-Krein reference), and workload-level .grad checks against finite differences and '
             'plain autograd through a re-implementation (vmon/ref/gradref.py)')
LEVEL_TEXT = ('Runtime monitoring (exploration): every gradient numqi delivers through a hand-written backward is compared, on the '
              'executions driven by random gate programs (plain/controlled/multi-controlled/shared/placeholder parameters, '
              'non-ascending targets), random PSD inputs (full rank, degenerate, rank deficient, batched, real/complex), random '
              'Knill-Laflamme operator lists, the variational models and optimizer-driven evaluations, with two independent oracles: '
              'central finite differences at two step sizes and autograd through a reference re-implementation. The verdict is '
              '"held on the executions observed"; ill-conditioned or non-differentiable inputs are counted as inconclusive, never judged.')
LEVEL_NOTE = ('Trusted base: numpy/torch numerics incl. torch autograd of elementary ops and torch.linalg.eigh/inv/solve, the reference '
              'in vmon/ref/gradref.py, the tolerance policy of DESIGN.md section 3. Out of reach: second derivatives '
              '(once_differentiable), GPU, custom/measure gates inside circuits, more than 6 qubits for the dense reference.')

P_CLOSURE = 'hf_model_wrapper.closure'
DECIDING = [P_CLOSURE, '_CircuitFunction.backward', '_KnillLaflammeInnerProductTorchOp.backward', 'PSDMatrixSqrtm.backward',
            '_PSDMatrixSqrtmRepeat.backward', 'circuit/grad-vs-fd', 'circuit/grad-vs-autograd', 'kl/grad-vs-fd',
            'kl/grad-vs-autograd', 'sqrtm/grad-vs-fd', 'sqrtm/grad-vs-autograd', 'logm/grad-vs-fd', 'logm/grad-vs-autograd',
            'entropy/grad-vs-fd', 'entropy/input-grad', 'varqec/grad-vs-autograd', 'model/grad-vs-fd', 'optimizer/grad-vs-fd',
            # histories on one object, call order, argument mutation, dtype / memory layout
            '_CircuitFunction.backward/cotangent-unmodified', '_CircuitFunction.forward/arguments-unmodified',
            '_KnillLaflammeInnerProductTorchOp.backward/cotangent-unmodified', 'PSDMatrixSqrtm.backward/cotangent-unmodified',
            '_PSDMatrixSqrtmRepeat.backward/cotangent-unmodified', 'PSDMatrixSqrtm.forward/arguments-unmodified',
            'apply_gate_grad/arguments-unmodified', 'apply_control_n_gate_grad/arguments-unmodified',
            'history/circuit/cotangent-reuse', 'history/circuit/expanded-cotangent', 'history/circuit/updates',
            'history/kl/cotangent-reuse', 'history/kl/updates', 'history/sqrtm/updates', 'history/logm/updates',
            'history/sqrtm/expanded-cotangent', 'history/logm/expanded-cotangent', 'layout/sqrtm', 'layout/logm', 'dtype/sqrtm', 'dtype/logm',
            'order/sqrtm', 'order/logm', 'order/circuit', 'lifecycle/circuit',
            # exact special values, loss kinds x logical dimensions, API surface
            'kl-loss/grad-vs-fd', 'kl-loss/grad-vs-autograd', 'api/positional-vs-keyword', 'api/circuit-forms',
            'history/sqrtm/fd-hermitian', 'history/logm/fd-hermitian']

EPS = np.finfo(np.float64).eps
STEPS = (1e-5, 1e-6)


def shards(tier, seed):
    if tier == 'quick':
        ret = [{'name': f'circuit-{i}', 'kind': 'circuit', 'n': 45} for i in range(4)]
        ret += [{'name': 'varqec', 'kind': 'varqec', 'n': 16}, {'name': 'kl', 'kind': 'kl', 'n': 40},
                {'name': 'sqrtm', 'kind': 'sqrtm', 'n': 60}, {'name': 'logm', 'kind': 'logm', 'n': 40},
                {'name': 'entropy', 'kind': 'entropy', 'n': 24}, {'name': 'models', 'kind': 'models', 'n': 2},
                {'name': 'realistic-0', 'kind': 'realistic', 'part': 0}, {'name': 'realistic-1', 'kind': 'realistic', 'part': 1},
                {'name': 'history-circuit', 'kind': 'history', 'what': 'circuit', 'n': 16}, {'name': 'history-matrix', 'kind': 'history', 'what': 'matrix', 'n': 12}]
    else:
        ret = [{'name': f'circuit-{i}', 'kind': 'circuit', 'n': 300} for i in range(14)]
        ret += [{'name': f'varqec-{i}', 'kind': 'varqec', 'n': 80} for i in range(3)]
        ret += [{'name': f'kl-{i}', 'kind': 'kl', 'n': 300} for i in range(2)]
        ret += [{'name': f'sqrtm-{i}', 'kind': 'sqrtm', 'n': 500} for i in range(2)]
        ret += [{'name': f'logm-{i}', 'kind': 'logm', 'n': 400} for i in range(2)]
        ret += [{'name': 'entropy', 'kind': 'entropy', 'n': 200}]
        ret += [{'name': f'models-{i}', 'kind': 'models', 'n': 6, 'part': i} for i in range(3)]
        ret += [{'name': f'realistic-{i}', 'kind': 'realistic', 'part': i, 'rounds': 4} for i in range(4)]
        ret += [{'name': 'repo-tests', 'kind': 'repo-tests'}]
        ret += [{'name': f'history-circuit-{i}', 'kind': 'history', 'what': 'circuit', 'n': 120, 'adam': i == 0} for i in range(3)]
        ret += [{'name': f'history-matrix-{i}', 'kind': 'history', 'what': 'matrix', 'n': 100} for i in range(2)]
    return ret


# =================================================================================================== generic helpers
def _np(x):
    return x.detach().resolve_conj().cpu().numpy() if isinstance(x, torch.Tensor) else np.asarray(x)


def _worst(ctx, table, point, value):
    d = ctx.extra.setdefault(table, {})
    if value > d.get(point, -1.0):
        d[point] = float(value)


def _count(ctx, table, key, n=1):
    d = ctx.extra.setdefault(table, {})
    d[key] = d.get(key, 0) + n


def _snap(x):
    """value snapshot of a tensor / array argument at call time (materialises expanded and non-contiguous views)."""
    if isinstance(x, torch.Tensor):
        return x.detach().clone(memory_format=torch.contiguous_format)
    if isinstance(x, np.ndarray):
        return np.array(x, copy=True)
    return None


def _same(x, snap):
    """current contents of x equal its snapshot (NaN == NaN)."""
    if snap is None:
        return True
    if isinstance(x, torch.Tensor):
        a, b = x.detach(), snap
        return a.shape == b.shape and a.dtype == b.dtype and bool(torch.equal(torch.nan_to_num(a, nan=12345.0), torch.nan_to_num(b, nan=12345.0)))
    a = np.asarray(x)
    return a.shape == snap.shape and bool(np.array_equal(a, snap, equal_nan=a.dtype.kind in 'fc'))


def _check_unmodified(ctx, key, what, items, point):
    """items: list of (label, object, snapshot). ONE monitor-condition evaluation: nothing was modified in place."""
    bad = [lab for lab, x, sn in items if not _same(x, sn)]
    ctx.check(not bad, key, what, {'modified': bad, 'before': {lab: sn for lab, x, sn in items if lab in bad},
                                   'after': {lab: x for lab, x, sn in items if lab in bad}}, point=point)
    return not bad


def _nondiff_count(ctx):
    n = getattr(ctx, '_c04', {}).get('nondiff_seen', 0)
    return n + sum(v for k, v in ctx.inconclusive_count.items() if 'rank-deficient' in k or 'ill-conditioned' in k)


def fd_judge(ctx, f, theta, g, key, what, point, kappa=1.0, max_coords=48, classes=None, witness=None):
    """central finite differences of the scalar function f (numpy vector -> float) against the gradient g.
    One monitor-condition evaluation. Returns 'held' | 'violated' | 'inconclusive'."""
    theta = np.asarray(theta, dtype=np.float64).reshape(-1)
    g = np.asarray(g)
    if g.shape != theta.shape or not np.all(np.isfinite(g.astype(np.complex128))) or np.iscomplexobj(g):
        ctx.check(False, key + '/malformed', f'{what}: gradient has wrong shape, is complex or not finite',
                  {'grad_shape': list(g.shape), 'theta_shape': list(theta.shape), 'grad': g, 'context': witness}, point=point)
        return 'violated'
    n = theta.size
    if n <= max_coords:
        dirs = list(range(n))
    else:
        dirs = sorted(int(i) for i in ctx.rng.choice(n, size=max_coords - 2, replace=False))
        for _ in range(2):
            v = ctx.rng.normal(size=n)
            dirs.append(v / np.linalg.norm(v))
    gmax = float(np.abs(g).max()) if n else 0.0
    f_mid = float(f(theta))
    fmax = abs(f_mid)
    rows = []
    for v in dirs:
        fds, second = [], []
        for h in STEPS:
            tp, tm = theta.copy(), theta.copy()
            if isinstance(v, int):
                tp[v] += h
                tm[v] -= h
            else:
                tp += h * v
                tm -= h * v
            fp, fm = float(f(tp)), float(f(tm))
            fmax = max(fmax, abs(fp), abs(fm))
            fds.append((fp - fm) / (2 * h))
            second.append(fp + fm - 2 * f_mid)
        gv = float(g[v]) if isinstance(v, int) else float(g @ v)
        # a smooth forward has second differences scaling like h^2; what does not scale is evaluation noise
        noise = abs(second[1] - second[0] * (STEPS[1] / STEPS[0])**2)
        rows.append((v if isinstance(v, int) else -1, gv, fds[0], fds[1], noise))
    if not np.isfinite(fmax) or not all(np.isfinite(r[2]) and np.isfinite(r[3]) for r in rows):
        ctx.inconclusive('fd-forward-nonfinite')
        return 'inconclusive'
    tol = max(1e-6 * (1 + gmax) * kappa, 400 * EPS * fmax / STEPS[0])
    worst = (0.0, None)
    unstable = False
    noisy = False
    for idx, gv, f1, f2, noise in rows:
        d = min(abs(gv - f1), abs(gv - f2))
        if d > tol:
            if d <= 10 * noise / (2 * STEPS[0]):
                noisy = True  # the forward value is not smooth at the 1e-5 scale here: the difference quotient is not an oracle
            elif abs(f1 - f2) <= 0.1 * d:
                if d > worst[0]:
                    worst = (d, (idx, gv, f1, f2))
            else:
                unstable = True
        else:
            _worst(ctx, 'worst_fd_disagreement_over_(1+gmax)', point, d / (1 + gmax))
    if worst[1] is not None:
        idx, gv, f1, f2 = worst[1]
        _worst(ctx, 'worst_fd_disagreement_over_(1+gmax)', point, worst[0] / (1 + gmax))
        k = key
        if classes is not None and idx >= 0:
            k = f'{key}/{classes[idx]}'
        ctx.check(False, k, f'{what}: delivered gradient differs from central finite differences at both step sizes',
                  {'coordinate': idx, 'grad': gv, 'fd_h1e-5': f1, 'fd_h1e-6': f2, 'tol': tol, 'gmax': gmax, 'kappa': kappa,
                   'theta': theta, 'full_grad': g, 'context': witness}, point=point)
        return 'violated'
    if unstable or noisy:
        ctx.hit(point)
        ctx.inconclusive('fd-unstable' if unstable else 'fd-forward-noisy')
        return 'inconclusive'
    ctx.check(True, key, what, None, point=point)
    return 'held'


def cmp_grad(ctx, got, ref, key, what, point, tol_rel=1e-8, kappa=1.0, classes=None, witness=None):
    """step-free oracle: gradient vector against the reference-autograd gradient (flat numpy vectors)."""
    got = np.asarray(got)
    ref = np.asarray(ref)
    if got.shape != ref.shape:
        ctx.check(False, key + '/shape', f'{what}: gradient shape {got.shape} vs reference {ref.shape}', witness, point=point)
        return False
    if got.size == 0:
        return ctx.check(True, key, what, None, point=point)
    with np.errstate(all='ignore'):
        err = np.abs(got.astype(np.complex128) - ref.astype(np.complex128))
    gmax = float(np.abs(ref).max())
    tol = tol_rel * (1 + gmax) * kappa
    bad = ~(err <= tol)
    _worst(ctx, 'worst_autograd_disagreement_over_(1+gmax)', point, float(np.nanmax(err)) / (1 + gmax) if np.isfinite(np.nanmax(err)) else 1e300)
    if bad.any():
        i = int(np.argmax(np.where(np.isfinite(err), err, np.inf)))
        k = key if classes is None else f'{key}/{classes[i]}'
        ctx.check(False, k, f'{what}: delivered gradient differs from autograd through the reference re-implementation',
                  {'coordinate': i, 'got': got.reshape(-1)[i], 'expected': ref.reshape(-1)[i], 'tol': tol, 'full_got': got,
                   'full_expected': ref, 'context': witness}, point=point)
        return False
    return ctx.check(True, key, what, None, point=point)


def sorted_named(model):
    return sorted([(k, v) for k, v in model.named_parameters() if v.requires_grad], key=lambda x: x[0])


def flat_from_dict(names_shapes, d):
    return np.concatenate([np.asarray(d[k], dtype=np.float64).reshape(-1) for k, _ in names_shapes]) if names_shapes else np.zeros(0)


def dict_from_flat(names_shapes, x):
    out, pos = {}, 0
    for k, shp in names_shapes:
        m = int(np.prod(shp)) if len(shp) else 1
        out[k] = np.asarray(x[pos:pos + m], dtype=np.float64).reshape(shp)
        pos += m
    return out


# =================================================================================================== monitors
def install(ctx, numqi):
    st = {'every': 1, 'closure': None, 'fn_every': 1, 'fn_count': {}}
    ctx._c04 = st
    OI = numqi.optimize._internal

    # ------------------------------------------------------------------ (a) the flat-parameter bridge
    def check_closure(inner, model, theta, ret):
        cfg = st['closure'] or {}
        cls = type(model).__name__
        key = cfg.get('key', f'hf_model_wrapper/grad-vs-fd/{cls}')
        point = cfg.get('point', 'model/grad-vs-fd')
        ok_shape = isinstance(ret, tuple) and len(ret) == 2
        if not ctx.check(ok_shape, 'hf_model_wrapper/return-type', 'closure(theta) must return (fval, grad)', {'type': repr(type(ret))}):
            return
        fval, grad = ret
        if not (isinstance(fval, float) and math.isfinite(fval)):
            ctx.inconclusive('closure-fval-nonfinite')
            return
        try:
            f0 = inner(theta, tag_grad=False)
            same_path = abs(f0 - fval) <= 1e-10 * (1 + abs(fval))
            _worst(ctx, 'worst_fval_difference_tag_grad_True_vs_False', cls, abs(f0 - fval))
            if same_path:
                fwd = lambda x: inner(x, tag_grad=False)
                _count(ctx, 'fd_forward_path', 'tag_grad=False')
            else:  # e.g. Pade logm only when gradients are requested: difference the forward that produced fval
                fwd = lambda x: inner(x, tag_grad=True)[0]
                _count(ctx, 'fd_forward_path', 'tag_grad=True (paths differ)')
            fd_judge(ctx, fwd, theta, grad, key, f'hf_model_wrapper({cls}) closure', point, kappa=cfg.get('kappa', 1.0),
                     classes=cfg.get('classes'), witness={'model': cls, 'fval': fval, 'case': cfg.get('tag')})
        finally:
            inner(theta, tag_grad=True)  # restore parameters, derived attributes and .grad of this evaluation

    def post_wrapper(c):
        if c.exc is not None:
            return
        model = c.args[0] if c.args else c.kwargs['model']
        inner = c.result
        counter = {'n': 0}

        def closure(theta, tag_grad=True):
            before = _nondiff_count(ctx)
            ret = inner(theta, tag_grad=tag_grad)
            if tag_grad and not ctx._quiet:
                ctx.hit(P_CLOSURE)
                counter['n'] += 1
                if _nondiff_count(ctx) > before:
                    # a backward postcondition saw a rank-deficient / ill-conditioned matrix-function input in this very
                    # evaluation: the loss is not differentiable here (or not to working precision); not judged
                    ctx.inconclusive('closure/non-differentiable-matrix-input-upstream')
                elif (counter['n'] - 1) % max(1, st['every']) == 0:
                    with ctx.quiet():
                        try:
                            check_closure(inner, model, np.array(theta, dtype=np.float64, copy=True), ret)
                        except Exception:
                            ctx.harness_error('post:' + P_CLOSURE)
            return ret

        closure.__vmon_orig__ = inner
        c.result = closure

    ctx.attach(OI, 'hf_model_wrapper', post=post_wrapper, point='numqi.optimize._internal.hf_model_wrapper')

    def sampled(name):
        n = st['fn_count'].get(name, 0)
        st['fn_count'][name] = n + 1
        return n % max(1, st['fn_every']) == 0

    # ------------------------------------------------------------------ (b1) circuit reverse sweep
    CF = numqi.sim._torch_utils._CircuitFunction

    def pre_cf_forward(c):
        gates, q0 = c.args[1:-2], c.args[-2]
        return {'gates': [_snap(g) for g in gates], 'q0': _snap(q0)}

    def post_cf_forward(c):
        if c.exc is not None or c.snap is None:
            return
        gates, q0 = c.args[1:-2], c.args[-2]
        c.args[0]._vmon_q0 = np.array(_np(c.snap['q0']), dtype=np.complex128, copy=True)  # the state as it was at call time
        _check_unmodified(ctx, 'circuit/forward/mutates-argument', '_CircuitFunction.forward modified a gate tensor or the input state in place',
                          [(f'gate{i}', g, sn) for i, (g, sn) in enumerate(zip(gates, c.snap['gates']))] + [('q0', q0, c.snap['q0'])],
                          '_CircuitFunction.forward/arguments-unmodified')

    ctx.attach(CF, 'forward', pre=pre_cf_forward, post=post_cf_forward, point='_CircuitFunction.forward')

    def pre_cf_backward(c):
        fctx, gout = c.args[0], c.args[1]
        return {'gout': _snap(gout), 'saved': [_snap(t) for t in fctx.saved_tensors],
                'gates': {k: np.array(v, copy=True) for k, v in fctx._numqi_data['gate_np_dict'].items()}}

    def post_cf_backward(c):
        if c.exc is not None or c.snap is None:
            return
        fctx = c.args[0]
        _check_unmodified(ctx, 'circuit/backward/mutates-cotangent-or-saved-tensors',
                          '_CircuitFunction.backward modified grad_output, a saved tensor or a gate matrix in place',
                          [('grad_output', c.args[1], c.snap['gout'])] + [(f'saved{i}', t, sn) for i, (t, sn) in enumerate(zip(fctx.saved_tensors, c.snap['saved']))]
                          + [(f'gate_np_dict[{k}]', fctx._numqi_data['gate_np_dict'][k], sn) for k, sn in c.snap['gates'].items()],
                          '_CircuitFunction.backward/cotangent-unmodified')
        if not sampled('cf'):
            return
        with torch.enable_grad():  # backward runs with grad mode off; the reference needs autograd
            _post_cf_backward(c)

    def _post_cf_backward(c):
        fctx, gout = c.args[0], c.snap['gout']  # judged against the cotangent / gate matrices as they were at call time
        data = fctx._numqi_data
        info, gdict = data['ind_gate_to_info'], c.snap['gates']
        q0 = getattr(fctx, '_vmon_q0', None)
        names = info[-1]
        nops = max(info.keys()) + 1
        if q0 is None:
            ctx.inconclusive('circuit-backward/no-forward-snapshot')
            return
        n = int(round(math.log2(q0.size)))
        if n > 6 or nops > 400:
            ctx.inconclusive('circuit-backward/too-large-for-dense-reference')
            return
        if any(info[i]['kind'] not in ('unitary', 'control') for i in range(nops)):
            ctx.inconclusive('circuit-backward/custom-or-measure-gate')
            return
        res = c.result
        ok = isinstance(res, tuple) and len(res) == len(names) + 2
        if not ctx.check(ok, 'circuit/backward/arity', 'backward must return one gradient per gate tensor, the state gradient and None',
                         {'len': len(res) if isinstance(res, tuple) else None, 'names': names}):
            return
        gt = {k: torch.tensor(np.asarray(gdict[k]), dtype=R.CD, requires_grad=True) for k in names}
        q0t = torch.tensor(q0, dtype=R.CD, requires_grad=True)
        ops, users = [], {}
        for i in range(nops):
            x = info[i]
            if x['kind'] == 'control':
                ctrl, tgt = sorted(int(t) for t in x['index'][0]), [int(t) for t in x['index'][1]]
            else:
                ctrl, tgt = [], [int(t) for t in x['index']]
            if 'ind_torch' in x:
                mat = gt[x['name']][x['ind_torch']]
                users.setdefault((x['name'], int(x['ind_torch'])), []).append(x['kind'])
            else:
                mat = torch.tensor(np.asarray(x['array']), dtype=R.CD)
            ops.append((mat, tgt, ctrl))
        out = R.run_ops(n, ops, q0t)
        saved = c.snap['saved'][0]
        if saved.shape != out.shape or float((saved - out.detach()).abs().max()) > 1e-9 * (1 + float(out.detach().abs().max())):
            ctx.inconclusive('circuit-backward/reference-forward-mismatch')
            return
        inputs = [gt[k] for k in names] + [q0t]
        refs = torch.autograd.grad(out, inputs, grad_outputs=gout.detach().to(R.CD), allow_unused=True)
        scale = 1 + max([float(r.abs().max()) for r in refs if r is not None and r.numel()] + [0.0])
        tol = 1e-9 * scale * max(1, nops / 10)
        worst = 0.0
        for j, k in enumerate(names):
            got, ref = res[j], refs[j]
            ref = torch.zeros_like(gt[k]) if ref is None else ref
            if not (isinstance(got, torch.Tensor) and got.shape == ref.shape):
                ctx.check(False, 'circuit/backward/gate-grad-shape', 'gate gradient has the wrong shape', {'name': k})
                continue
            err = (got.to(R.CD) - ref).abs().reshape(ref.shape[0], -1).max(dim=1)[0].numpy()
            bad = np.nonzero(~(err <= tol))[0]
            worst = max(worst, float(np.nanmax(err)) if err.size else 0.0)
            if len(bad):
                row = int(bad[0])
                u = users.get((k, row), [])
                cls = 'shared-param' if len(u) > 1 else ('control' if 'control' in u else 'plain')
                ctx.check(False, f'circuit/backward-vs-ref/gate-grad/{cls}',
                          '_CircuitFunction.backward: gradient w.r.t. a gate matrix differs from the vector-Jacobian product of the '
                          'dense embedded-unitary reference', {'gate': k, 'row': row, 'err': float(err[row]), 'tol': tol,
                                                              'got': got[row], 'expected': ref[row], 'uses': u,
                                                              'program': [{kk: (sorted(vv) if isinstance(vv, set) else vv) for kk, vv in info[i].items() if kk != 'array'} for i in range(nops)][:40]},
                          point='_CircuitFunction.backward/gate-grad')
            else:
                ctx.check(True, 'circuit/backward-vs-ref/gate-grad', '', None, point='_CircuitFunction.backward/gate-grad')
        got, ref = res[len(names)], refs[-1]
        if isinstance(got, torch.Tensor) and got.shape == ref.shape:
            e = float((got.to(R.CD) - ref).abs().max())
            worst = max(worst, e)
            ctx.check(e <= tol, 'circuit/backward-vs-ref/state-grad',
                      '_CircuitFunction.backward: gradient w.r.t. the input state differs from the reference',
                      lambda: {'err': e, 'tol': tol, 'got': got, 'expected': ref}, point='_CircuitFunction.backward/state-grad')
        else:
            ctx.check(False, 'circuit/backward/state-grad-shape', 'state gradient has the wrong shape/type', {'type': repr(type(got))})
        _worst(ctx, 'worst_backward_vs_reference_vjp', '_CircuitFunction', worst / scale)

    ctx.attach(CF, 'backward', pre=pre_cf_backward, post=post_cf_backward, point='_CircuitFunction.backward')

    # ------------------------------------------------------------------ (b2) Knill-Laflamme inner product
    KL = numqi.qec._internal._KnillLaflammeInnerProductTorchOp

    def _kl_ops(op_list):
        return [(f'op[{a}][{b}]', m) for a, seq in enumerate(op_list) for b, (_, m) in enumerate(seq) if isinstance(m, (np.ndarray, torch.Tensor))]

    def pre_kl_forward(c):
        return {'q0': _snap(c.args[1]), 'ops': [_snap(m) for _, m in _kl_ops(c.args[2])]}

    def post_kl_forward(c):
        if c.exc is None and c.snap is not None:
            _check_unmodified(ctx, 'kl/forward/mutates-argument', 'Knill-Laflamme forward modified the code words or an error operator in place',
                              [('q0', c.args[1], c.snap['q0'])] + [(lab, m, sn) for (lab, m), sn in zip(_kl_ops(c.args[2]), c.snap['ops'])],
                              '_KnillLaflammeInnerProductTorchOp.forward/arguments-unmodified')

    ctx.attach(KL, 'forward', pre=pre_kl_forward, post=post_kl_forward, point='_KnillLaflammeInnerProductTorchOp.forward')

    def pre_kl_backward(c):
        fctx = c.args[0]
        return {'gout': _snap(c.args[1]), 'saved': [_snap(t) for t in fctx.saved_tensors],
                'ops': [_snap(m) for _, m in _kl_ops(fctx._pyqet_data['op_list'])]}

    def post_kl_backward(c):
        if c.exc is not None or c.snap is None:
            return
        fctx = c.args[0]
        _check_unmodified(ctx, 'kl/backward/mutates-cotangent-or-saved-tensors',
                          'Knill-Laflamme backward modified grad_output, the saved code words or an error operator in place',
                          [('grad_output', c.args[1], c.snap['gout'])] + [(f'saved{i}', t, sn) for i, (t, sn) in enumerate(zip(fctx.saved_tensors, c.snap['saved']))]
                          + [(lab, m, sn) for (lab, m), sn in zip(_kl_ops(fctx._pyqet_data['op_list']), c.snap['ops'])],
                          '_KnillLaflammeInnerProductTorchOp.backward/cotangent-unmodified')
        if not sampled('kl'):
            return
        with torch.enable_grad():
            _post_kl_backward(c)

    def _post_kl_backward(c):
        fctx, gout = c.args[0], c.snap['gout']
        q0 = c.snap['saved'][0]
        op_list = fctx._pyqet_data['op_list']
        if q0.ndim != 2:
            return
        n = int(round(math.log2(q0.shape[1])))
        if n > 6 or len(op_list) > 400:
            ctx.inconclusive('kl-backward/too-large-for-dense-reference')
            return
        qt = q0.clone().to(R.CD).requires_grad_()
        out = R.kl_inner_product(qt, op_list, n)
        res = c.result
        if not (isinstance(res, tuple) and len(res) == 2 and isinstance(res[0], torch.Tensor) and res[0].shape == qt.shape and out.shape == gout.shape):
            ctx.check(False, 'kl/backward/shape', 'backward must return (grad of the code words, None)', {'q0': list(q0.shape)})
            return
        ref = torch.autograd.grad(out, qt, grad_outputs=gout.detach().to(R.CD))[0]
        scale = 1 + float(ref.abs().max())
        e = float((res[0].to(R.CD) - ref).abs().max())
        _worst(ctx, 'worst_backward_vs_reference_vjp', '_KnillLaflammeInnerProductTorchOp', e / scale)
        eps_in = float(torch.finfo(q0.dtype).eps)  # complex64 code words: the gradient is accumulated in single precision
        ctx.check(e <= max(1e-9, 1e3 * eps_in) * scale * max(1, len(op_list) / 10), 'kl/backward' + ('/complex64' if eps_in > 1e-10 else ''),
                  '_KnillLaflammeInnerProductTorchOp.backward differs from the vector-Jacobian product of the einsum reference',
                  lambda: {'err': e, 'scale': scale, 'got': res[0], 'expected': ref, 'num_ops': len(op_list),
                           'seq_lengths': [len(s) for s in op_list][:40]}, point='_KnillLaflammeInnerProductTorchOp.backward/vjp')

    ctx.attach(KL, 'backward', pre=pre_kl_backward, post=post_kl_backward, point='_KnillLaflammeInnerProductTorchOp.backward')

    # ------------------------------------------------------------------ (b3) PSD square roots
    TO = numqi._torch_op

    def pre_A(c):
        return {'A': _snap(c.args[1])}

    def snap_A(label):
        def post(c):
            if c.exc is None and c.snap is not None:
                c.args[0]._vmon_A = c.snap['A']  # the input as it was at call time
                if len(c.args) > 2:
                    c.args[0]._vmon_s = int(c.args[2])
                _check_unmodified(ctx, f'{label}/forward/mutates-argument', f'{label}.forward modified its input matrix in place',
                                  [('matA', c.args[1], c.snap['A'])], f'{label}.forward/arguments-unmodified')
        return post

    def pre_sq_backward(c):
        return {'gout': _snap(c.args[1]), 'saved': [_snap(t) for t in c.args[0].saved_tensors]}

    def sqrtm_backward_post(label, keybase):
        def post(c):
            if c.exc is not None or c.snap is None:
                return
            fctx = c.args[0]
            _check_unmodified(ctx, keybase + '/mutates-cotangent-or-saved-tensors',
                              f'{label}.backward modified grad_output or a saved tensor in place',
                              [('grad_output', c.args[1], c.snap['gout'])] + [(f'saved{i}', t, sn) for i, (t, sn) in enumerate(zip(fctx.saved_tensors, c.snap['saved']))],
                              f'{label}.backward/cotangent-unmodified')
            if not sampled(label):
                return
            gout = c.snap['gout']
            A = getattr(fctx, '_vmon_A', None)
            s = getattr(fctx, '_vmon_s', 1)
            res = c.result[0] if isinstance(c.result, tuple) and len(c.result) else None
            if A is None:
                ctx.inconclusive(f'{label}-backward/no-forward-snapshot')
                return
            if not (isinstance(res, torch.Tensor) and res.shape == A.shape):
                ctx.check(False, keybase + '/shape', 'backward must return a gradient of the input shape', {'A': list(A.shape)})
                return
            d = A.shape[-1]
            An, Gn, Rn = [_np(x).reshape(-1, d, d).astype(np.complex128 if x.is_complex() else np.float64) for x in (A, gout, res)]
            if Gn.shape != An.shape:
                return
            # tolerances scale with the precision of the INPUT dtype (DESIGN section 3); decision threshold 1e-6 / 1e-2
            EPS = float(torch.finfo(A.dtype).eps)
            THR = 1e-6 if EPS < 1e-10 else 1e-2
            if EPS > 1e-10:
                _count(ctx, 'single_precision_backward_calls', label)
            sq = _np(c.snap['saved'][0]).reshape(-1, d)
            for b in range(An.shape[0]):
                a = (An[b] + An[b].conj().T) / 2
                lam, V = np.linalg.eigh(a)
                lmax = max(float(lam[-1]), 1e-300)
                nzero = int((sq[b] == 0).sum())
                supp = lam > max(1e-9, 100 * EPS) * lmax
                if supp.all():
                    ref, _, _ = R.frechet_adjoint(a, Gn[b], lambda x: R.loewner_sqrt_repeat(x, s))
                    cond = lmax / float(lam[0])
                    scale = 1 + float(np.abs(ref).max())
                    tol = 1e3 * EPS * scale * cond**(1.0 if s == 1 else 1.5)
                    # an input that is Hermitian only up to rounding noise: numqi reads one triangle, the reference the Hermitian part;
                    # the two inputs differ by asym, the gradient by at most asym * |second derivative| * |cotangent| (bound from the INPUT)
                    asym = float(np.abs(An[b] - An[b].conj().T).max())
                    if asym > 0:
                        _worst(ctx, 'largest_input_asymmetry_judged', label, asym)
                        tol += 4 * d * asym * float(np.abs(Gn[b]).max()) * max(1.0, float(lam[0])**-2)
                    if tol > THR * scale:
                        ctx.inconclusive(f'{label}-backward/ill-conditioned')
                        continue
                    got = Rn[b]
                    if not np.all(np.isfinite(got)):
                        ctx.check(False, keybase + '/nonfinite', f'{label} backward returned a non-finite gradient for a full-rank input',
                                  {'A': a, 'eigenvalues': lam}, point=f'{label}.backward/vjp')
                        continue
                    e = float(np.abs(R.herm(torch.tensor(got)).numpy() - R.herm(torch.tensor(ref)).numpy()).max())
                    _worst(ctx, 'worst_backward_vs_reference_vjp', label, e / scale)
                    _worst(ctx, 'worst_backward_error_over_tolerance_by_log10_cond', f'{label}/cond~1e{int(math.floor(math.log10(max(cond, 1.0))))}', e / tol)
                    _count(ctx, 'backward_inputs_judged_by_log10_cond', f'{label}/cond~1e{int(math.floor(math.log10(max(cond, 1.0))))}')
                    gaps = np.diff(lam)
                    tag = '/degenerate-spectrum' if (gaps < 1e-9 * lmax).any() else ('/nearly-degenerate-spectrum' if (gaps < 1e-5 * lmax).any() else
                                                                                       ('/nearly-singular' if cond > 1e3 else ''))
                    ctx.check(e <= tol, keybase + tag,
                              f'{label} backward (Hermitian part) differs from the Daleckii-Krein adjoint of the Frechet derivative',
                              lambda: {'err': e, 'tol': tol, 'A': a, 'eigenvalues': lam, 'grad_output': Gn[b], 'got': got, 'expected': ref,
                                       'repeat': s, 'batch_index': b, 'batch': An.shape[0]}, point=f'{label}.backward/vjp')
                else:
                    # rank deficient: sqrt is not differentiable; judge finiteness (single exact zero) and the support block
                    got = Rn[b]
                    nker = int((~supp).sum())
                    _count(ctx, 'rank_deficient_inputs_seen', label)
                    st['nondiff_seen'] = st.get('nondiff_seen', 0) + 1
                    if nzero == 1 and nker == 1:
                        ctx.check(bool(np.all(np.isfinite(got))), keybase + '/zero-eig-nonfinite',
                                  f'{label} backward: a single exact-zero eigenvalue must still give a finite gradient',
                                  {'A': a, 'eigenvalues': lam}, point=f'{label}.backward/zero-eig-finite')
                    if not np.all(np.isfinite(got)):
                        ctx.inconclusive(f'{label}-backward/rank-deficient-nonfinite(not differentiable)')
                        continue
                    Vs = V[:, supp]
                    ls = lam[supp]
                    cond = lmax / float(ls[0])
                    F = R.loewner_sqrt_repeat(ls, s)
                    gs = Vs.conj().T @ Gn[b] @ Vs
                    ref_s = (gs * F)
                    got_s = Vs.conj().T @ got @ Vs
                    scale = 1 + float(np.abs(ref_s).max())
                    # the kernel block holds values ~1/sqrt(eps); its leakage into the projected block is eps*|g|max
                    tol = 1e3 * EPS * scale * cond**(1.0 if s == 1 else 1.5) + max(1e-9, 1e3 * EPS) * scale + 1e3 * EPS * float(np.abs(got).max())
                    if tol > THR * scale:
                        ctx.inconclusive(f'{label}-backward/rank-deficient-ill-conditioned')
                        continue
                    e = float(np.abs((got_s + got_s.conj().T) / 2 - (ref_s + ref_s.conj().T) / 2).max())
                    _worst(ctx, 'worst_backward_vs_reference_vjp', label + '/support-block', e / scale)
                    ctx.check(e <= tol, keybase + '/support-block',
                              f'{label} backward: support block P g P differs from the reference for a rank-deficient input',
                              lambda: {'err': e, 'tol': tol, 'A': a, 'eigenvalues': lam, 'got_block': got_s, 'expected_block': ref_s,
                                       'batch_index': b, 'batch': An.shape[0]}, point=f'{label}.backward/support-block')
        return post

    ctx.attach(TO.PSDMatrixSqrtm, 'forward', pre=pre_A, post=snap_A('PSDMatrixSqrtm'), point='PSDMatrixSqrtm.forward')
    ctx.attach(TO.PSDMatrixSqrtm, 'backward', pre=pre_sq_backward, post=sqrtm_backward_post('PSDMatrixSqrtm', 'sqrtm/backward'), point='PSDMatrixSqrtm.backward')
    ctx.attach(TO._PSDMatrixSqrtmRepeat, 'forward', pre=pre_A, post=snap_A('_PSDMatrixSqrtmRepeat'), point='_PSDMatrixSqrtmRepeat.forward')
    ctx.attach(TO._PSDMatrixSqrtmRepeat, 'backward', pre=pre_sq_backward, post=sqrtm_backward_post('_PSDMatrixSqrtmRepeat', 'logm/backward'),
               point='_PSDMatrixSqrtmRepeat.backward')

    # ------------------------------------------------------------------ (b4) the per-gate adjoint rules must not touch their arguments
    SS = numqi.sim.state

    def pre_rule(c):
        return [_snap(x) if isinstance(x, (np.ndarray, torch.Tensor)) else None for x in c.args[:3]]

    def post_rule(name):
        def post(c):
            if c.exc is None and c.snap is not None:
                _check_unmodified(ctx, f'{name}/mutates-argument', f'{name} modified q0_conj, q0_grad or the gate matrix in place '
                                  '(q0_grad of the last gate is the cotangent buffer owned by autograd)',
                                  [(lab, x, sn) for lab, x, sn in zip(('q0_conj', 'q0_grad', 'op'), c.args[:3], c.snap)], f'{name}/arguments-unmodified')
        return post

    for name in ('apply_gate_grad', 'apply_control_n_gate_grad'):
        ctx.attach(SS, name, pre=pre_rule, post=post_rule(name), point=f'numqi.sim.state.{name}')
    ctx.attach(TO.PSDMatrixLogm, 'forward', point='PSDMatrixLogm.forward')
    return st


# =================================================================================================== circuit workload
PSHAPES = {'a': (4,), 'b': (2, 3), 'pos': (3,), 'w': (), 'u': (3, 3), 'uw': (3,), 'v': (2, 2)}


def rand_unitary(rng, d):
    z = rng.normal(size=(d, d)) + 1j * rng.normal(size=(d, d))
    q, r = np.linalg.qr(z)
    return q * (np.diag(r) / np.abs(np.diag(r)))


def _holder_source(rng, npar):
    """a placeholder source whose resolved value has `npar` entries ('P', key, index)."""
    if npar == 1:
        c = int(rng.integers(4))
        if c == 0:
            return ['P', 'a', int(rng.integers(4))]
        if c == 1:
            return ['P', 'b', [int(rng.integers(2)), int(rng.integers(3))]]
        if c == 2:
            return ['P', 'pos', int(rng.integers(3))]
        return ['P', 'w', None]
    if npar == 3:
        return ['P', 'u', int(rng.integers(3))] if rng.random() < 0.7 else ['P', 'uw', None]
    return ['P', 'v', int(rng.integers(2))]


SPECIAL_ANGLES = [0.0, np.pi / 2, np.pi, 2 * np.pi]


def special_angles(rng, k, mode):
    """k angles; mode None: generic in [0,2pi); 'zero': all exactly 0.0 (the args=None default: the gate IS the identity);
    'mixed': whole gate exactly 0 (p=.35), else each angle exactly 0 / pi/2 / pi / 2pi or generic."""
    if mode is None:
        return [float(x) for x in rng.uniform(0, 2 * np.pi, size=k)]
    if mode == 'tiny':  # |theta| ~ 1e-9..1e-6 (either sign), occasionally exactly 0: the gate is the identity up to 1e-7..1e-10
        return [0.0 if rng.random() < 0.1 else float(rng.choice([-1.0, 1.0]) * 10.0**rng.uniform(-9, -6)) for _ in range(k)]
    if mode == 'near':  # within 1e-9..1e-5 of 0 / pi/2 / pi / 2pi (either side)
        return [float(SPECIAL_ANGLES[int(rng.integers(4))] + rng.choice([-1.0, 1.0]) * 10.0**rng.uniform(-9, -5)) if rng.random() < 0.7
                else float(rng.uniform(0, 2 * np.pi)) for _ in range(k)]
    if mode == 'wide':  # far outside [0, 2pi): |theta| up to 20 (the rotation gates are 4pi-periodic, their controlled versions too)
        return [float(rng.uniform(-20, 20)) for _ in range(k)]
    if mode in ('zero', 'noargs') or rng.random() < 0.35:
        return [0.0] * k
    return [float(SPECIAL_ANGLES[int(rng.integers(4))]) if rng.random() < 0.6 else float(rng.uniform(0, 2 * np.pi)) for _ in range(k)]


def gen_program(rng, nmin=1, nmax=4, lmax=12, placeholders=True, special=None):
    """random gate program (JSON-able), see vmon/ref/gradref.py for the format. Returns dict.
    special: None | 'zero' | 'noargs' (trainable Circuit-method gates built WITHOUT args, i.e. zero-initialised) | 'mixed' |
    'tiny' | 'near' | 'wide' (numerical regimes of the angles, see special_angles)."""
    n = int(rng.integers(nmin, nmax + 1))
    L = int(rng.integers(1, lmax + 1))
    prog, mats, rows, feats = [], {}, {}, set()
    ang = lambda k: special_angles(rng, k, special)
    if special:
        feats.add(f'special-angles({special})')

    def par_source(name, npar, allow_holder=True):
        r = rng.random()
        if placeholders and allow_holder and r < 0.25:
            feats.add('placeholder')
            return _holder_source(rng, npar), None
        if r < 0.33:
            return ['fix', ang(npar)], None
        vals = ang(npar)
        rows.setdefault(name, []).append(vals)
        return ['theta', name, len(rows[name]) - 1], vals

    def pick(k):
        return [int(x) for x in rng.permutation(n)[:k]]

    for _ in range(L):
        kinds = ['par1', 'par1', 'fixed', 'share']
        if n >= 2:
            kinds += ['rzz', 'rxz', 'cpar', 'cpar', 'cfixed', 'fixed2']
        if n >= 3:
            kinds += ['cpar2', 'mcpar', 'par3', 'fixed3']
        kind = kinds[int(rng.integers(len(kinds)))]
        if kind == 'share':
            cand = [i for i, op in enumerate(prog) if op.get('p') and op['p'][0] == 'theta' and 'share_of' not in op]
            if not cand:
                kind = 'par1'
            else:
                j = cand[int(rng.integers(len(cand)))]
                src = prog[j]
                nt, nc = len(src['tgt']), len(src.get('ctrl', []))
                if nc and rng.random() < 0.5 and n - nt >= 1:
                    nc = int(rng.integers(1, n - nt + 1))  # same gate object, different number of controls
                q = pick(nt + nc)
                op = {'g': src['g'], 'tgt': q[:nt], 'ctrl': sorted(q[nt:]), 'p': list(src['p']), 'share_of': j}
                prog.append(op)
                feats.add('shared-param')
                if nc:
                    feats.add('shared-control')
                continue
        if kind == 'par1':
            g = ['rx', 'ry', 'rz', 'u3'][int(rng.integers(4))]
            p, _ = par_source(g, R.GATES[g][1])
            prog.append({'g': g, 'tgt': pick(1), 'ctrl': [], 'p': p})
        elif kind == 'rzz' or kind == 'rxz':
            p, _ = par_source(kind, R.GATES[kind][1])
            t = pick(2)
            if t[0] > t[1]:
                feats.add('non-ascending-targets')
            prog.append({'g': kind, 'tgt': t, 'ctrl': [], 'p': p})
        elif kind in ('cpar', 'mcpar'):
            g = ['crx', 'cry', 'crz', 'cu3'][int(rng.integers(4))]
            nc = 1 if kind == 'cpar' else int(rng.integers(2, n))
            q = pick(1 + nc)
            p, _ = par_source(g, R.GATES[g][1])
            prog.append({'g': g, 'tgt': q[:1], 'ctrl': sorted(q[1:]), 'p': p})
            feats.add('control-param' if nc == 1 else 'multi-control-param')
        elif kind == 'cpar2':
            g = ['crxz', 'crzz'][int(rng.integers(2))]
            nc = int(rng.integers(1, n - 1))
            q = pick(2 + nc)
            p, _ = par_source(g, R.GATES[g][1])
            if q[0] > q[1]:
                feats.add('non-ascending-targets')
            prog.append({'g': g, 'tgt': q[:2], 'ctrl': sorted(q[2:]), 'p': p})
            feats.add('control-param-2q')
        elif kind in ('par3', 'fixed3'):  # three target qubits in every order incl. the 3-cycles; controlled when a qubit is left
            nc = int(rng.integers(0, n - 2)) if n > 3 else 0
            q = pick(3 + nc)
            t3 = q[:3]
            r_ = sorted(t3)
            cyc = [r_.index(x) for x in t3]
            feats.add('three-target-gate')
            if cyc in ([1, 2, 0], [2, 0, 1]):
                feats.add('three-target-gate(3-cycle order)')
            if nc:
                feats.add('three-target-gate(controlled)')
            if kind == 'par3':
                g = 'cr3' if nc else 'r3'
                p, _ = par_source(g, 3, allow_holder=False)
                prog.append({'g': g, 'tgt': t3, 'ctrl': sorted(q[3:]), 'p': p})
            else:
                k = f'm{len(mats)}'
                mats[k] = rand_unitary(rng, 8)
                prog.append({'g': 'U', 'tgt': t3, 'ctrl': sorted(q[3:]), 'm': k})
        elif kind == 'fixed':
            g = ['X', 'Y', 'Z', 'H', 'S', 'T', 'U'][int(rng.integers(7))]
            if g == 'U':
                k = f'm{len(mats)}'
                mats[k] = rand_unitary(rng, 2)
                prog.append({'g': 'U', 'tgt': pick(1), 'ctrl': [], 'm': k})
            else:
                prog.append({'g': g, 'tgt': pick(1), 'ctrl': []})
        elif kind == 'fixed2':
            if rng.random() < 0.4:
                prog.append({'g': 'Swap', 'tgt': pick(2), 'ctrl': []})
            else:
                k = f'm{len(mats)}'
                mats[k] = rand_unitary(rng, 4)
                prog.append({'g': 'U', 'tgt': pick(2), 'ctrl': [], 'm': k})
        elif kind == 'cfixed':
            r = rng.random()
            if r < 0.4:
                q = pick(2)
                prog.append({'g': ['X', 'Y', 'Z'][int(rng.integers(3))], 'tgt': q[:1], 'ctrl': q[1:]})
            elif r < 0.55 and n >= 3:
                q = pick(3)
                prog.append({'g': 'X', 'tgt': q[:1], 'ctrl': sorted(q[1:])})
            else:
                nt = 2 if (n >= 3 and rng.random() < 0.4) else 1
                nc = int(rng.integers(1, n - nt + 1))
                q = pick(nt + nc)
                k = f'm{len(mats)}'
                mats[k] = rand_unitary(rng, 2**nt)
                prog.append({'g': 'U', 'tgt': q[:nt], 'ctrl': sorted(q[nt:]), 'm': k})
    used = set()
    for op in prog:
        for q in op['tgt'] + op.get('ctrl', []):
            used.add(q)
    # numqi infers the qubit count from the largest index used
    n_eff = max(used) + 1
    if any(op.get('p') and op['p'][0] == 'P' and op.get('ctrl') for op in prog):
        feats.add('placeholder-control')
    return {'n': n_eff, 'prog': prog, 'mats': mats, 'theta': rows, 'features': sorted(feats), 'special': special}


def _np_or_torch_kron(a, b):
    if isinstance(a, torch.Tensor):
        return torch.einsum('...ij,...kl->...ikjl', a, b).reshape(*a.shape[:-2], 4, 4)
    a, b = np.asarray(a), np.asarray(b)
    return np.einsum('...ij,...kl->...ikjl', a, b).reshape(*a.shape[:-2], 4, 4)


def make_custom_gate_fns(numqi):
    def hf_rxz(a, b):
        return _np_or_torch_kron(numqi.gate.rx(a), numqi.gate.rz(b))

    def hf_r3(a, b, c):
        x, y = hf_rxz(a, b), numqi.gate.ry(c)
        if isinstance(x, torch.Tensor):
            return torch.einsum('...ij,...kl->...ikjl', x, y).reshape(*x.shape[:-2], 8, 8)
        return np.einsum('...ij,...kl->...ikjl', np.asarray(x), np.asarray(y)).reshape(*np.asarray(x).shape[:-2], 8, 8)
    return {'rxz': hf_rxz, 'crxz': hf_rxz, 'crzz': numqi.gate.rzz, 'r3': hf_r3, 'cr3': hf_r3,
            'crx': numqi.gate.rx, 'cry': numqi.gate.ry, 'crz': numqi.gate.rz, 'cu3': numqi.gate.u3}


def build_circuit(numqi, spec):
    """the numqi Circuit of a program, built through the public API (Circuit methods, ParameterGate + append_gate)."""
    circ = numqi.sim.Circuit(default_requires_grad=True)
    fns = make_custom_gate_fns(numqi)
    gates = []
    for op in spec['prog']:
        g, tg, ct, p = op['g'], tuple(op['tgt']), tuple(op.get('ctrl', [])), op.get('p')
        gate = None
        if 'share_of' in op:
            gate = gates[op['share_of']]
            circ.append_gate(gate, (set(ct), tg) if gate.kind == 'control' else tg)
        elif p is not None:
            rg = p[0] != 'fix'
            if p[0] == 'P':
                h = circ.P if p[1] == 'pos' else circ.P[p[1]]
                if p[2] is not None:
                    h = h[tuple(p[2])] if isinstance(p[2], list) else h[p[2]]
                args = h
            elif p[0] == 'fix':
                args = tuple(p[1])
            else:
                args = tuple(spec['theta'][p[1]][p[2]])
            noargs = spec.get('special') == 'noargs' and p[0] == 'theta'  # default construction: circ.ry(i), circ.cu3(c, t)
            if g in ('rx', 'ry', 'rz', 'u3'):
                gate = getattr(circ, g)(tg[0]) if noargs else getattr(circ, g)(tg[0], args, requires_grad=rg)
            elif g == 'rzz':
                gate = circ.rzz(tg) if noargs else circ.rzz(tg, args, requires_grad=rg)
            elif g in ('crx', 'cry', 'crz', 'cu3') and p[0] != 'P':
                c_ = ct if len(ct) > 1 else ct[0]
                gate = getattr(circ, g)(c_, tg[0]) if noargs else getattr(circ, g)(c_, tg[0], args, requires_grad=rg)
            elif g in ('rxz', 'r3'):
                gate = numqi.sim.ParameterGate('unitary', fns[g], args, name=g, requires_grad=rg)
                circ.append_gate(gate, tg)
            else:  # controlled two-qubit parameter gates, and placeholder arguments of controlled gates
                gate = numqi.sim.ParameterGate('control', fns[g], args, name=g, requires_grad=rg)
                circ.append_gate(gate, (ct, tg))
        elif op.get('m') is not None:
            mat = spec['mats'][op['m']]
            if len(tg) == 3:
                if ct:
                    gate = numqi.sim.Gate('control', mat, requires_grad=False, name='control3')
                    circ.append_gate(gate, (set(ct), tg))
                else:
                    gate = circ.triple_qubit_gate(mat, *tg)
            elif ct:
                gate = (circ.controlled_single_qubit_gate if len(tg) == 1 else circ.controlled_double_qubit_gate)(mat, set(ct), tg if len(tg) > 1 else tg[0])
            else:
                gate = circ.single_qubit_gate(mat, tg[0]) if len(tg) == 1 else circ.double_qubit_gate(mat, tg[0], tg[1])
        elif ct:
            if len(ct) == 2:
                gate = circ.toffoli(ct, tg[0])
            else:
                gate = {'X': circ.cnot, 'Y': circ.cy, 'Z': circ.cz}[g](ct[0], tg[0])
        else:
            gate = getattr(circ, g)(*tg)
        gates.append(gate)
    return circ


def loss_of_state(q, H, kind):
    """losses used on the final state; 'abs-sum' and 'mean' hand autograd an expanded (stride-0) cotangent."""
    if kind == 'H':
        return torch.vdot(q, H @ q).real
    if kind == 'abs-sum':
        return torch.abs(q.sum())**2
    if kind == 'mean':
        return q.real.mean() + 0.5 * q.imag.sum()
    raise KeyError(kind)


def make_circuit_model(numqi, spec, H, psi0, P_init, train_state, psi_layout='tensor', circ=None):
    circ = build_circuit(numqi, spec) if circ is None else circ

    class CircuitModel(torch.nn.Module):
        def __init__(self):
            super().__init__()
            self.circuit_torch = numqi.sim.CircuitTorchWrapper(circ)
            self.P = torch.nn.ParameterDict({k: torch.nn.Parameter(torch.tensor(v, dtype=torch.float64)) for k, v in P_init.items()})
            self.H = torch.tensor(H, dtype=torch.complex128)
            self.loss_kind = 'H'
            self.circuit = circ
            if train_state:
                self.psi_r = torch.nn.Parameter(torch.tensor(psi0.real.copy(), dtype=torch.float64))
                self.psi_i = torch.nn.Parameter(torch.tensor(psi0.imag.copy(), dtype=torch.float64))
            elif psi_layout == 'numpy':
                self.psi0 = np.array(psi0, dtype=np.complex128)
            elif psi_layout == 'strided':  # every second element of a larger buffer
                buf = torch.zeros(2 * len(psi0), dtype=torch.complex128)
                buf[::2] = torch.tensor(psi0, dtype=torch.complex128)
                self.psi0 = buf[::2]
            elif psi_layout == 'real':  # real-dtype state (psi0 must be real)
                self.psi0 = torch.tensor(np.asarray(psi0).real.copy(), dtype=torch.float64)
            else:
                self.psi0 = torch.tensor(psi0, dtype=torch.complex128)

        def forward(self):
            return loss_of_state(self.state(), self.H, self.loss_kind)

        def state(self, psi=None):
            if len(self.P):
                kw = {k: v for k, v in self.P.items() if k != 'pos'}
                if 'pos' in self.P:
                    self.circuit_torch.setP(self.P['pos'], **kw)
                else:
                    self.circuit_torch.setP(**kw)
            if psi is None:
                psi = torch.complex(self.psi_r, self.psi_i) if train_state else self.psi0
            return self.circuit_torch(psi)

    return CircuitModel()


def coordinate_classes(spec, names_shapes):
    """per flat coordinate: which kind of parameter it is (used in mechanism keys)."""
    uses = {}
    for op in spec['prog']:
        p = op.get('p')
        if p and p[0] == 'theta':
            uses.setdefault((p[1], p[2]), []).append('control' if op.get('ctrl') else 'plain')
    out = []
    for k, shp in names_shapes:
        m = int(np.prod(shp)) if len(shp) else 1
        if k.startswith('circuit_torch.theta.'):
            name = k[len('circuit_torch.theta.'):]
            per_row = m // shp[0]
            for r in range(shp[0]):
                u = uses.get((name, r), [])
                cls = 'shared-param' if len(u) > 1 else ('control' if 'control' in u else 'plain')
                out += [cls] * per_row
        elif k.startswith('P.'):
            out += ['placeholder'] * m
        else:
            out += ['initial-state'] * m
    return out


def ref_circuit(spec, values, H, psi0, train_state, shift=0, loss_fn=None):
    """reference loss and gradient (dict by numqi-style parameter name) through plain autograd on dense operators."""
    theta = {k[len('circuit_torch.theta.'):]: torch.tensor(v, dtype=R.FD, requires_grad=True) for k, v in values.items()
             if k.startswith('circuit_torch.theta.')}
    P = {k[2:]: torch.tensor(v, dtype=R.FD, requires_grad=True) for k, v in values.items() if k.startswith('P.')}
    if train_state:
        pr = torch.tensor(values['psi_r'], dtype=R.FD, requires_grad=True)
        pi = torch.tensor(values['psi_i'], dtype=R.FD, requires_grad=True)
        psi = torch.complex(pr, pi)
    else:
        psi = torch.tensor(psi0, dtype=R.CD)
    ops = R.build_ops(spec['prog'], theta, P, spec['mats'], shift=shift)
    n = int(round(math.log2(psi.numel())))
    q = R.run_ops(n, ops, psi)
    loss = R.expectation_loss(q, torch.tensor(H, dtype=R.CD)) if loss_fn is None else loss_fn(q)
    loss.backward()
    grads = {}
    for k, t in theta.items():
        grads['circuit_torch.theta.' + k] = np.zeros(t.shape) if t.grad is None else t.grad.numpy()
    for k, t in P.items():
        grads['P.' + k] = np.zeros(t.shape) if t.grad is None else t.grad.numpy()
    if train_state:
        grads['psi_r'], grads['psi_i'] = pr.grad.numpy(), pi.grad.numpy()
    return float(loss.item()), grads, _np(q)


def run_circuit_case(ctx, numqi, st, it):
    rng = ctx.rng
    special = [None, 'tiny', None, 'mixed', 'near', None, 'zero', 'wide', None, 'noargs'][it % 10]
    while True:
        spec = gen_program(rng, special=special, nmax=5 if it % 7 == 5 else 4)
        train_state = bool(rng.random() < 0.3)
        has_par = any(op.get('p') and op['p'][0] in ('theta', 'P') for op in spec['prog'])
        if has_par or train_state:
            break
    n = spec['n']
    N = 2**n
    H = rng.normal(size=(N, N)) + 1j * rng.normal(size=(N, N))
    H = (H + H.conj().T) / 2
    psi0 = rng.normal(size=N) + 1j * rng.normal(size=N)
    psi0 /= np.linalg.norm(psi0)
    keys = sorted({op['p'][1] for op in spec['prog'] if op.get('p') and op['p'][0] == 'P'})
    P_init = {k: np.array(special_angles(rng, int(np.prod(PSHAPES[k])) if PSHAPES[k] else 1, special)).reshape(PSHAPES[k])
              for k in keys}
    desc = {'kind': 'circuit', 'n': n, 'program': [{k: v for k, v in op.items()} for op in spec['prog']], 'theta': spec['theta'],
            'train_state': train_state, 'features': spec['features'], 'special': special}
    ctx.set_case(desc)
    for f in spec['features'] + (['initial-state-grad'] if train_state else []):
        _count(ctx, 'programs_with_feature', f)
    with ctx.guard('circuit'):
        model = make_circuit_model(numqi, spec, H, psi0, P_init, train_state)
        named = sorted_named(model)
        names_shapes = [(k, tuple(v.shape)) for k, v in named]
        # the workload's own bookkeeping of numqi's parameter layout (rows in order of first appearance)
        for k, v in named:
            if k.startswith('circuit_torch.theta.'):
                mine = np.array(spec['theta'][k[len('circuit_torch.theta.'):]], dtype=np.float64)
                if mine.shape != tuple(v.shape) or np.abs(mine - _np(v)).max() > 0:
                    raise RuntimeError(f'harness: theta layout assumption broken for {k}: {mine.shape} vs {tuple(v.shape)}')
        classes = coordinate_classes(spec, names_shapes)
        values0 = {k: _np(v).copy() for k, v in named}
        # (1) direct: loss.backward() and the parameter .grad
        loss = model()
        loss.backward()
        got0 = {k: (np.zeros(v.shape) if v.grad is None else _np(v.grad).copy()) for k, v in named}
        lref, gref, qref = ref_circuit(spec, values0, H, psi0, train_state)
        fwd_ok = abs(lref - float(loss.item())) <= 1e-9 * (1 + abs(lref))
        flat_got0 = flat_from_dict(names_shapes, got0)
        nontrivial = flat_got0.size > 0 and float(np.abs(flat_got0).max()) > 1e-8
        ctx.case('circuit', desc['program'], spec['theta'], P_init, H, psi0, nontrivial=nontrivial,
                 sample=({'n': n, 'program': desc['program'], 'features': spec['features'], 'loss': float(loss.item()),
                          'grad_max': float(np.abs(flat_got0).max())} if it < 3 else None))
        if fwd_ok:
            cmp_grad(ctx, flat_got0, flat_from_dict(names_shapes, gref), 'circuit/grad-vs-autograd', 'circuit loss <psi|H|psi> .grad after backward()',
                     'circuit/grad-vs-autograd', classes=classes, witness=desc)
        else:
            ctx.inconclusive('circuit/reference-forward-mismatch')
        # (2) through the bridge at the same point: finite differences by the closure monitor + flat layout
        st['closure'] = {'key': 'circuit/grad-vs-fd', 'point': 'circuit/grad-vs-fd', 'classes': classes, 'tag': desc}
        try:
            hf = numqi.optimize.hf_model_wrapper(model)
            theta0 = flat_from_dict(names_shapes, values0)
            fval, grad = hf(theta0)
            ctx.close(grad, flat_got0, 1e-12 * (1 + np.abs(flat_got0).max()), 'hf_model_wrapper/flat-grad-vs-param-grad',
                      'flat gradient of the bridge differs from the parameter .grad in sorted-name order', desc, point='bridge/flat-layout')
            # (3) a fresh random parameter point in [0, 2pi) (state coordinates: normal)
            theta1 = np.array([rng.normal() if c == 'initial-state' else rng.uniform(0, 2 * np.pi) for c in classes])
            if special in ('tiny', 'near', 'wide'):  # the fresh point in the same numerical regime (some coordinates generic)
                for i_, c in enumerate(classes):
                    if c != 'initial-state' and rng.random() < 0.7:
                        theta1[i_] = special_angles(rng, 1, special)[0]
            elif special:  # a point where SOME coordinates are exactly 0 / pi/2 / pi / 2pi and the others generic
                for i_, c in enumerate(classes):
                    if c != 'initial-state' and rng.random() < 0.5:
                        theta1[i_] = 0.0 if rng.random() < 0.6 else SPECIAL_ANGLES[int(rng.integers(4))]
            fval1, grad1 = hf(theta1)
            values1 = dict_from_flat(names_shapes, theta1)
            lref1, gref1, _ = ref_circuit(spec, values1, H, psi0, train_state)
            if abs(lref1 - fval1) <= 1e-9 * (1 + abs(lref1)):
                cmp_grad(ctx, grad1, flat_from_dict(names_shapes, gref1), 'circuit/grad-vs-autograd', 'circuit loss gradient from the bridge at a fresh point',
                         'circuit/grad-vs-autograd', classes=classes, witness=desc)
            else:
                ctx.inconclusive('circuit/reference-forward-mismatch')
        finally:
            st['closure'] = None


# =================================================================================================== entry point
def run(ctx, shard):
    import numqi
    torch.set_default_dtype(torch.float32)  # numqi's own default; everything monitored here is explicit float64
    st = install(ctx, numqi)
    kind = shard['kind']
    if kind == 'circuit':
        ctx.workload('random', shard['n'])
        for it in range(shard['n']):
            run_circuit_case(ctx, numqi, st, it)
    elif kind == 'varqec':
        run_varqec(ctx, numqi, st, shard)
    elif kind == 'kl':
        run_kl(ctx, numqi, st, shard)
    elif kind in ('sqrtm', 'logm'):
        run_matfun(ctx, numqi, st, shard)
    elif kind == 'entropy':
        run_entropy(ctx, numqi, st, shard)
    elif kind == 'models':
        run_models(ctx, numqi, st, shard)
    elif kind == 'realistic':
        run_realistic(ctx, numqi, st, shard)
    elif kind == 'repo-tests':
        run_repo_tests(ctx, numqi, st, shard)
    elif kind == 'history':
        run_history(ctx, numqi, st, shard)
    else:
        raise KeyError(kind)


# =================================================================================================== Knill-Laflamme
def rand_op_list(rng, n, hostile=True):
    """random error-operator sequences [(qubits, matrix), ...]; hostile: non-Hermitian, two-qubit, overlapping qubits."""
    out = []
    for _ in range(int(rng.integers(1, 7))):
        seq = []
        for _ in range(int(rng.integers(1, 4 if hostile else 2))):
            k = 2 if (n >= 2 and rng.random() < 0.3) else 1
            if hostile and n >= 3 and rng.random() < 0.12:
                k = 3  # three-qubit error operator, qubits in any order incl. the 3-cycles
            q = [int(x) for x in rng.permutation(n)[:k]]
            m = rng.normal(size=(2**k, 2**k)) + 1j * rng.normal(size=(2**k, 2**k))
            if rng.random() < 0.2:
                m = (m + m.conj().T) / 2
            seq.append((q, m))
        out.append(seq)
    return out


def run_kl(ctx, numqi, st, shard):
    rng = ctx.rng
    ctx.workload('random', shard['n'])
    kli = numqi.qec.knill_laflamme_inner_product
    for it in range(shard['n']):
        n = int(rng.integers(1, 5))
        K = int(2**rng.integers(0, 3))
        ops = rand_op_list(rng, n)
        q0 = rng.normal(size=(K, 2**n)) + 1j * rng.normal(size=(K, 2**n))
        W = rng.normal(size=(len(ops), K, K)) + 1j * rng.normal(size=(len(ops), K, K))
        desc = {'kind': 'kl', 'n': n, 'K': K, 'seq': [[(q, m.shape[0]) for q, m in s] for s in ops]}
        ctx.set_case(desc)
        with ctx.guard('kl'):
            qr = torch.tensor(q0.real.copy(), requires_grad=True)
            qi = torch.tensor(q0.imag.copy(), requires_grad=True)
            Wt = torch.tensor(W)
            inner = kli(torch.complex(qr, qi), ops)
            if tuple(inner.shape) != W.shape:
                ctx.check(False, 'kl/forward-shape', 'inner product must have shape (num_error, K, K)', {'got': list(inner.shape)})
                continue
            loss = (inner * Wt.conj()).real.sum()
            loss.backward()
            got = np.concatenate([_np(qr.grad).reshape(-1), _np(qi.grad).reshape(-1)])
            ctx.case('kl', n, K, q0, W, [m for s in ops for _, m in s], nontrivial=float(np.abs(got).max()) > 1e-8,
                     sample=dict(desc, loss=float(loss.item()), grad_max=float(np.abs(got).max())) if it < 2 else None)
            # oracle 1: finite differences of the public numpy forward
            def f(x):
                z = x[:K * 2**n].reshape(K, -1) + 1j * x[K * 2**n:].reshape(K, -1)
                return float((kli(z, ops) * W.conj()).real.sum())
            x0 = np.concatenate([q0.real.reshape(-1), q0.imag.reshape(-1)])
            fd_judge(ctx, f, x0, got, 'kl/grad-vs-fd', 'Knill-Laflamme inner product .grad', 'kl/grad-vs-fd', witness=desc)
            # oracle 2: autograd through the einsum reference
            qr2 = torch.tensor(q0.real.copy(), requires_grad=True)
            qi2 = torch.tensor(q0.imag.copy(), requires_grad=True)
            inner2 = R.kl_inner_product(torch.complex(qr2, qi2), ops, n)
            if float((inner2.detach() - inner.detach()).abs().max()) <= 1e-9 * (1 + float(inner2.detach().abs().max())):
                (inner2 * Wt.conj()).real.sum().backward()
                ref = np.concatenate([_np(qr2.grad).reshape(-1), _np(qi2.grad).reshape(-1)])
                cmp_grad(ctx, got, ref, 'kl/grad-vs-autograd', 'Knill-Laflamme inner product .grad', 'kl/grad-vs-autograd', witness=desc)
            else:
                ctx.inconclusive('kl/reference-forward-mismatch')
    kl_loss_grid(ctx, numqi, st)


def kl_loss_grid(ctx, numqi, st):
    """numqi.qec.knill_laflamme_loss(inner_product, kind) for kind in {L1, L2} x num_logical_dim in {1,2,3,4}: gradient w.r.t. the
    code words through the custom inner product, vs finite differences of the numpy path and autograd of the reference loss."""
    rng = ctx.rng
    kli, kll = numqi.qec.knill_laflamme_inner_product, numqi.qec.knill_laflamme_loss
    for K in (1, 2, 3, 4):
        Kc = 1 if K == 1 else 2**int(math.ceil(math.log2(K)))
        for kind in ('L1', 'L2'):
            for rep in range(2):
                n = int(rng.integers(2, 4))
                ops = rand_op_list(rng, n) if rep else numqi.qec.make_error_list(n, 2)
                q0 = rng.normal(size=(Kc, 2**n)) + 1j * rng.normal(size=(Kc, 2**n))
                desc = {'kind': 'kl-loss-grid', 'n': n, 'K': K, 'loss': kind, 'errors': 'random' if rep else 'make_error_list(n,2)'}
                ctx.set_case(desc)
                with ctx.guard('kl-loss'):
                    qr = torch.tensor(q0.real.copy(), requires_grad=True)
                    qi = torch.tensor(q0.imag.copy(), requires_grad=True)
                    loss = kll(kli(torch.complex(qr, qi), ops)[:, :K, :K], kind)  # positional kind
                    loss.backward()
                    got = np.concatenate([_np(qr.grad).reshape(-1), _np(qi.grad).reshape(-1)])
                    ctx.case('kl-loss-grid', K, kind, n, q0, nontrivial=float(np.abs(got).max()) > 1e-8)
                    _count(ctx, 'kl_loss_grid', f'K={K}/{kind}')

                    def f(x):
                        z = x[:Kc * 2**n].reshape(Kc, -1) + 1j * x[Kc * 2**n:].reshape(Kc, -1)
                        return float(kll(kli(z, ops)[:, :K, :K], kind=kind))  # numpy path, keyword kind
                    x0 = np.concatenate([q0.real.reshape(-1), q0.imag.reshape(-1)])
                    fd_judge(ctx, f, x0, got, f'kl-loss/grad-vs-fd/{kind}', f'knill_laflamme_loss({kind}) of K={K} code words', 'kl-loss/grad-vs-fd', witness=desc)
                    qr2 = torch.tensor(q0.real.copy(), requires_grad=True)
                    qi2 = torch.tensor(q0.imag.copy(), requires_grad=True)
                    l2 = R.kl_loss(R.kl_inner_product(torch.complex(qr2, qi2), ops, n)[:, :K, :K], kind)
                    if abs(float(l2.item()) - float(loss.item())) <= 1e-9 * (1 + abs(float(l2.item()))):
                        l2.backward()
                        ref = np.concatenate([_np(qr2.grad).reshape(-1), _np(qi2.grad).reshape(-1)])
                        cmp_grad(ctx, got, ref, f'kl-loss/grad-vs-autograd/{kind}', f'knill_laflamme_loss({kind}) of K={K} code words', 'kl-loss/grad-vs-autograd', witness=desc)
                    else:
                        ctx.inconclusive('kl-loss/reference-forward-mismatch')
                    # keyword call of the torch path gives the same value and gradient as the positional one
                    qr3 = torch.tensor(q0.real.copy(), requires_grad=True)
                    qi3 = torch.tensor(q0.imag.copy(), requires_grad=True)
                    l3 = kll(inner_product=kli(q0=torch.complex(qr3, qi3), op_list=ops)[:, :K, :K], kind=kind)
                    l3.backward()
                    ctx.close(np.concatenate([[l3.item()], _np(qr3.grad).reshape(-1), _np(qi3.grad).reshape(-1)]), np.concatenate([[loss.item()], got]),
                              1e-12 * (1 + np.abs(got).max()), 'knill_laflamme_loss/positional-call-differs-from-keyword-call',
                              'knill_laflamme_inner_product / knill_laflamme_loss called with keywords differ from the positional call', desc, point='api/positional-vs-keyword')
                    if kind == 'L2':  # default vs explicit
                        l4 = kll(kli(torch.complex(torch.tensor(q0.real), torch.tensor(q0.imag)), ops)[:, :K, :K])
                        ctx.close(l4, loss.detach(), 1e-12 * (1 + abs(loss.item())), 'knill_laflamme_loss/explicit-default-differs',
                                  "knill_laflamme_loss(ip) differs from knill_laflamme_loss(ip, 'L2')", desc, point='api/positional-vs-keyword')


def varqec_grid(ctx, numqi, st):
    """loss kinds {L1, L2} x num_logical_dim {1,2,3,4} on the shipped-style u3/cu3 ansatz built with DEFAULT args (all angles 0),
    evaluated at a generic point and (L2, where the loss is differentiable) at points with some angles exactly 0 / pi / 2pi."""
    rng = ctx.rng
    n = 3
    prog, rows = [], {'u3': [], 'cu3': []}
    for x in range(n):
        rows['u3'].append([0.0, 0.0, 0.0])
        prog.append({'g': 'u3', 'tgt': [x], 'ctrl': [], 'p': ['theta', 'u3', len(rows['u3']) - 1]})
    for x in range(n):
        rows['cu3'].append([0.0, 0.0, 0.0])
        prog.append({'g': 'cu3', 'tgt': [(x + 1) % n], 'ctrl': [x], 'p': ['theta', 'cu3', len(rows['cu3']) - 1]})
    for x in range(n):
        rows['u3'].append([0.0, 0.0, 0.0])
        prog.append({'g': 'u3', 'tgt': [x], 'ctrl': [], 'p': ['theta', 'u3', len(rows['u3']) - 1]})
    spec = {'n': n, 'prog': prog, 'mats': {}, 'theta': rows, 'features': ['special-angles(noargs)'], 'special': 'noargs'}
    ops = numqi.qec.make_error_list(n, 2)
    for K in (1, 2, 3, 4):
        nlq = int(math.ceil(math.log2(K))) if K > 1 else 0
        for kind in ('L1', 'L2'):
            desc = {'kind': 'varqec-grid', 'n': n, 'K': K, 'loss': kind, 'ansatz': 'u3 / cu3 ring / u3 built with default args'}
            ctx.set_case(desc)
            with ctx.guard('varqec'):
                model = numqi.qec.VarQEC(build_circuit(numqi, spec), K, ops, kind)  # positional, as in the repository tests
                named = sorted_named(model)
                names_shapes = [(k, tuple(v.shape)) for k, v in named]
                classes = coordinate_classes(spec, names_shapes)
                ntheta = len(classes)
                points = [('generic', rng.uniform(0, 2 * np.pi, size=ntheta))]
                if kind == 'L2':
                    t = rng.uniform(0, 2 * np.pi, size=ntheta)
                    t[rng.random(ntheta) < 0.5] = 0.0
                    points.append(('some-exactly-zero', t))
                    t = rng.uniform(0, 2 * np.pi, size=ntheta).reshape(-1, 3)
                    t[rng.random(len(t)) < 0.5] = 0.0  # whole gates exactly at the identity
                    points.append(('some-gates-exactly-identity', t.reshape(-1)))
                    t = np.array([SPECIAL_ANGLES[int(i_)] for i_ in rng.integers(4, size=ntheta)])
                    points.append(('all-special', t))
                psi0 = np.zeros(2**(nlq + n), dtype=np.complex128)
                for k in range(K):
                    psi0[k * 2**n + k] = 1
                for label, theta in points:
                    st['closure'] = {'key': f'varqec/grad-vs-fd/{kind}', 'point': 'varqec/grad-vs-fd', 'classes': classes, 'tag': dict(desc, point=label)}
                    try:
                        fval, grad = numqi.optimize.hf_model_wrapper(model)(theta)
                    finally:
                        st['closure'] = None
                    ctx.case('varqec-grid', K, kind, label, theta, nontrivial=float(np.abs(grad).max()) > 1e-8)
                    _count(ctx, 'varqec_grid_points', f'K={K}/{kind}/{label}')
                    lref, gref, _ = ref_circuit(spec, dict_from_flat(names_shapes, theta), None, psi0, False, shift=nlq,
                                                loss_fn=_varqec_ref_loss(K, nlq, n, ops, kind))
                    if abs(lref - fval) <= 1e-9 * (1 + abs(lref)):
                        cmp_grad(ctx, grad, flat_from_dict(names_shapes, gref), f'varqec/grad-vs-autograd/{kind}', f'VarQEC({kind}, K={K}) gradient at a {label} point',
                                 'varqec/grad-vs-autograd', classes=classes, witness=dict(desc, point=label))
                    else:
                        ctx.inconclusive('varqec/reference-forward-mismatch')


def _varqec_ref_loss(K, nlq, n, ops, kind):
    def loss_fn(q):
        code = q.reshape(2**nlq, 2**n)
        inner = R.kl_inner_product(code, ops, n)
        return R.kl_loss(inner[:, :K, :K], kind)
    return loss_fn


def run_varqec(ctx, numqi, st, shard):
    rng = ctx.rng
    ctx.workload('random', shard['n'])
    ctx.workload('corner', 8)
    varqec_grid(ctx, numqi, st)
    for it in range(shard['n']):
        while True:
            spec = gen_program(rng, nmin=2, nmax=4, placeholders=False)
            if any(op.get('p') and op['p'][0] == 'theta' for op in spec['prog']) and spec['n'] >= 2:
                break
        n = spec['n']
        K = min([2, 3, 4, 3][it % 4], 2**n)  # (K=1 and the full {1,2,3,4} x {L1,L2} grid: varqec_grid above)
        nlq = int(math.ceil(math.log2(K))) if K > 1 else 0
        kind = ['L1', 'L2'][(it // 4) % 2]
        realistic = rng.random() < 0.4
        ops = numqi.qec.make_error_list(n, 2) if realistic else rand_op_list(rng, n)
        desc = {'kind': 'varqec', 'n': n, 'K': K, 'loss': kind, 'program': spec['prog'], 'theta': spec['theta'],
                'errors': 'make_error_list(n,2)' if realistic else [[(q, m.shape[0]) for q, m in s] for s in ops]}
        ctx.set_case(desc)
        with ctx.guard('varqec'):
            circ = build_circuit(numqi, spec)
            model = numqi.qec.VarQEC(circ, K, ops, loss_type=kind)
            named = sorted_named(model)
            names_shapes = [(k, tuple(v.shape)) for k, v in named]
            classes = coordinate_classes(spec, names_shapes)
            st['closure'] = {'key': 'varqec/grad-vs-fd', 'point': 'varqec/grad-vs-fd', 'classes': classes, 'tag': desc}
            try:
                hf = numqi.optimize.hf_model_wrapper(model)
                theta = rng.uniform(0, 2 * np.pi, size=len(classes))
                fval, grad = hf(theta)
            finally:
                st['closure'] = None
            ctx.case('varqec', spec['prog'], K, kind, theta, [m for s in ops for _, m in s], nontrivial=float(np.abs(grad).max()) > 1e-8,
                     sample=dict(desc, fval=fval, grad_max=float(np.abs(grad).max())) if it < 2 else None)
            values = dict_from_flat(names_shapes, theta)
            psi0 = np.zeros(2**(nlq + n), dtype=np.complex128)
            for k in range(K):
                psi0[k * 2**n + k] = 1
            lref, gref, _ = ref_circuit(spec, values, None, psi0, False, shift=nlq, loss_fn=_varqec_ref_loss(K, nlq, n, ops, kind))
            if abs(lref - fval) <= 1e-9 * (1 + abs(lref)):
                cmp_grad(ctx, grad, flat_from_dict(names_shapes, gref), 'varqec/grad-vs-autograd', f'VarQEC({kind}) loss gradient',
                         'varqec/grad-vs-autograd', classes=classes, witness=desc)
            else:
                ctx.inconclusive('varqec/reference-forward-mismatch')
        # VarQECUnitary: Stiefel manifold + Knill-Laflamme op (finite differences + the backward postcondition)
        if it % 2 == 0:
            n2 = int(rng.integers(2, 4))
            ops2 = numqi.qec.make_error_list(n2, 2) if rng.random() < 0.5 else rand_op_list(rng, n2)
            desc2 = {'kind': 'varqec-unitary', 'n': n2, 'K': K, 'loss': kind}
            ctx.set_case(desc2)
            with ctx.guard('varqec-unitary'):
                if K > 2**n2:
                    continue
                model = numqi.qec.VarQECUnitary(n2, K, ops2, loss_type=kind)
                st['closure'] = {'key': 'varqec-unitary/grad-vs-fd', 'point': 'varqec/grad-vs-fd', 'tag': desc2, 'kappa': 10.0}
                try:
                    hf = numqi.optimize.hf_model_wrapper(model)
                    theta = rng.uniform(-1, 1, size=sum(int(np.prod(v.shape)) for _, v in sorted_named(model)))
                    fval, grad = hf(theta)
                finally:
                    st['closure'] = None
                ctx.case('varqec-unitary', n2, K, kind, theta, nontrivial=float(np.abs(grad).max()) > 1e-8)


# =================================================================================================== matrix functions
def _cplx(rng, shape, cplx):
    x = rng.normal(size=shape)
    return x + 1j * rng.normal(size=shape) if cplx else x


def _H(x):
    return x.conj().transpose(-1, -2)


def gen_psd_item(rng, d, cplx, cls, near_lo=-6.0):
    """one PSD matrix as a differentiable function of a leaf X. Returns dict(cls, X0, build(Xt)->A, lam_min, refs)."""
    eye = torch.eye(d, dtype=torch.complex128 if cplx else torch.float64)
    if cls in ('full', 'ill'):
        c = float(np.exp(rng.uniform(np.log(0.02), 0))) if cls == 'full' else float(10.0**rng.uniform(-9, -7))
        X0 = _cplx(rng, (d, d) if cls == 'full' else (d, d - 1), cplx)  # 'ill': lambda_min = c exactly
        build = lambda X: X @ _H(X) / d + c * eye
    elif cls == 'near-singular':  # nearly (not exactly) rank deficient: lambda_min = c exactly, lambda_min/lambda_max ~ 1e-6..1e-3
        c = float(10.0**rng.uniform(near_lo, near_lo + 3))
        X0 = _cplx(rng, (d, d - 1), cplx)
        build = lambda X: X @ _H(X) / d + c * eye
    elif cls == 'near-identity':  # c*(I + eps*Hermitian), eps ~ 1e-10..1e-6: all eigenvalue gaps are ~eps (not exactly degenerate)
        c = float(rng.uniform(0.3, 1.5))
        eps_ = float(10.0**rng.uniform(-10, -6))
        X0 = _cplx(rng, (d, d), cplx)
        build = lambda X: c * (eye + eps_ * (X + _H(X)) / 2)
    elif cls in ('degenerate', 'identity'):
        if cls == 'identity':
            lam = np.full(d, float(rng.uniform(0.3, 1.5)))
        else:
            vals = rng.uniform(0.2, 1.5, size=max(1, d - 1 - int(rng.integers(0, max(1, d - 1)))))
            lam = np.sort(np.concatenate([vals, rng.choice(vals, size=d - len(vals))]))
        D = torch.tensor(np.diag(lam), dtype=eye.dtype)
        X0 = rand_unitary(rng, d) if cplx else np.linalg.qr(rng.normal(size=(d, d)))[0]
        build = lambda X: X @ D @ _H(X)
    elif cls == 'zero-eig':
        c = float(rng.uniform(0.05, 1))
        k = int(rng.integers(d))
        idx = [i for i in range(d) if i != k]
        Z = torch.zeros(d, d - 1, dtype=eye.dtype)
        for j, i in enumerate(idx):
            Z[i, j] = 1
        ek = torch.zeros(d, d, dtype=eye.dtype)
        ek[k, k] = -1e-13  # rounds to an exactly clipped (zero) eigenvalue; the rest of row/column k is exactly zero
        eye1 = torch.eye(d - 1, dtype=eye.dtype)
        X0 = _cplx(rng, (d - 1, d - 1), cplx)
        build = lambda X: Z @ (X @ _H(X) / d + c * eye1) @ Z.T + ek
    elif cls == 'rank-def':
        r = d - 1
        X0 = _cplx(rng, (d, r), cplx)
        build = lambda X: X @ _H(X) / d
    elif cls in ('exact-identity', 'exact-diagonal'):  # A = X X^H with X exactly I / exactly diagonal: A is exactly I / diagonal
        diag = np.ones(d) if cls == 'exact-identity' else np.sqrt(np.array([[0.5, 1.25, 2.0][int(i)] for i in rng.integers(0, 3, size=d)]))
        X0 = np.diag(diag).astype(np.complex128 if cplx else np.float64)
        build = lambda X: X @ _H(X)
    else:
        raise KeyError(cls)
    return {'cls': cls, 'X0': X0, 'build': build}


def _leaves(items, cplx, requires_grad=True, flat=None):
    """leaf tensors (real and imaginary parts) for every item; optionally from a flat vector."""
    leaves, Xs, pos = [], [], 0
    for it in items:
        shp = it['X0'].shape
        m = int(np.prod(shp))
        if flat is None:
            re, im = it['X0'].real.copy(), (it['X0'].imag.copy() if cplx else None)
        else:
            re = flat[pos:pos + m].reshape(shp)
            pos += m
            im = None
            if cplx:
                im = flat[pos:pos + m].reshape(shp)
                pos += m
        tr = torch.tensor(np.array(re, dtype=np.float64), requires_grad=requires_grad)
        leaves.append(tr)
        if cplx:
            ti = torch.tensor(np.array(im, dtype=np.float64), requires_grad=requires_grad)
            leaves.append(ti)
            Xs.append(torch.complex(tr, ti))
        else:
            Xs.append(tr)
    return leaves, Xs


def _flat_grad(leaves):
    return np.concatenate([(np.zeros(tuple(t.shape)) if t.grad is None else _np(t.grad)).reshape(-1) for t in leaves])


def run_matfun(ctx, numqi, st, shard):
    rng = ctx.rng
    fn = shard['kind']
    ctx.workload('random', shard['n'])
    TO = numqi._torch_op
    classes_s = ['full', 'full', 'degenerate', 'identity', 'zero-eig', 'rank-def', 'exact-identity', 'exact-diagonal', 'near-singular', 'near-identity']
    classes_l = ['full', 'full', 'degenerate', 'identity', 'exact-identity', 'exact-diagonal', 'near-singular', 'near-identity']
    for it in range(shard['n']):
        d = int(rng.integers(2, 6))
        if it % 12 == 5:  # the ends of the size range: a 1x1 "matrix" (admissible) and d = 8
            d = [1, 8][(it // 12) % 2]
        cplx = bool(rng.random() < 0.6)
        bshape = [(), (), (1,), (3,), (2, 2)][int(rng.integers(5))]
        nb = int(np.prod(bshape)) if bshape else 1
        pool = classes_s if fn == 'sqrtm' else classes_l
        if it % 6 == 0 and fn == 'sqrtm':  # batch mixing an exact-zero eigenvalue with full-rank items
            bshape, nb = (3,), 3
            cls_list = ['full', 'zero-eig', 'degenerate']
        elif d == 1:
            cls_list = [['full', 'identity', 'exact-identity'][int(rng.integers(3))] for _ in range(nb)]
        else:
            cls_list = [pool[int(rng.integers(len(pool)))] for _ in range(nb)]
            if rng.random() < 0.1:  # one ill-conditioned item: must end as inconclusive, never as a verdict
                cls_list[int(rng.integers(nb))] = 'ill'
        if fn == 'logm':
            s, order = [(6, 8), (6, 8), (3, 5), (8, 8), (2, 6)][int(rng.integers(5))]
        else:
            s, order = 1, 0
        items = [gen_psd_item(rng, d, cplx, c, near_lo=-6.0 if fn == 'sqrtm' else -4.3) for c in cls_list]  # logm: cond^1.5 enters the tolerance
        W = _cplx(rng, (nb, d, d), cplx)
        desc = {'kind': fn, 'd': d, 'complex': cplx, 'batch': list(bshape), 'classes': cls_list, 'pade': [s, order] if fn == 'logm' else None}
        ctx.set_case(desc)
        for c in cls_list:
            _count(ctx, 'matrix_inputs_by_class', f'{fn}/{c}/{"complex" if cplx else "real"}')
        _count(ctx, 'matrix_inputs_by_batch_shape', str(tuple(bshape)), 1)
        with ctx.guard(fn):
            if fn == 'sqrtm':
                op = TO.PSDMatrixSqrtm.apply
            else:
                logm = TO.PSDMatrixLogm(num_sqrtm=s, pade_order=order)
                op = lambda A: logm(A)

            def stackA(Xs):
                A = torch.stack([it_['build'](X) for it_, X in zip(items, Xs)])
                return A.reshape(*bshape, d, d)

            # spectra at the base point (own eigh) decide what is judged
            with torch.no_grad():
                A0 = _np(stackA(_leaves(items, cplx, False)[1])).reshape(nb, d, d)
            lam = np.linalg.eigvalsh((A0 + A0.conj().transpose(0, 2, 1)) / 2)
            Wn = W.copy()
            judged = True
            kappa = 1.0
            for b, c in enumerate(cls_list):
                lmax = lam[b, -1]
                supp = lam[b] > 1e-9 * lmax
                lmin = lam[b][supp][0] if c in ('zero-eig', 'rank-def') else max(lam[b][0], 1e-300)  # structural kernel only
                kappa = max(kappa, (1 / np.sqrt(lmin)) if fn == 'sqrtm' else 1 / lmin)
                if c == 'rank-def':  # only the support block is differentiable: weights P W P
                    ev, V = np.linalg.eigh((A0[b] + A0[b].conj().T) / 2)
                    Vs = V[:, ev > 1e-9 * ev[-1]]
                    Pj = Vs @ Vs.conj().T
                    Wn[b] = Pj @ W[b] @ Pj
                    if not cplx:
                        Wn[b] = Wn[b].real
            Wt = torch.tensor(Wn)
            leaves, Xs = _leaves(items, cplx)
            A = stackA(Xs)
            F = op(A)
            if tuple(F.shape) != tuple(A.shape):
                ctx.check(False, f'{fn}/forward-shape', 'matrix function must keep the input shape', {'in': list(A.shape), 'out': list(F.shape)})
                continue
            loss = (F.reshape(nb, d, d) * Wt.conj()).real.sum()
            loss.backward()
            got = _flat_grad(leaves)
            finite = bool(np.all(np.isfinite(got)))
            ctx.case(fn, d, cplx, bshape, cls_list, [i['X0'] for i in items], W, s, order,
                     nontrivial=finite and float(np.abs(got).max()) > 1e-8,
                     sample=dict(desc, loss=float(loss.item()), eigenvalues=lam, grad_max=float(np.abs(got).max()) if finite else 'nan') if it < 3 else None)
            if kappa > 1e3:
                ctx.inconclusive(f'{fn}/ill-conditioned(kappa>1e3)')
                continue
            x0 = np.concatenate([t.detach().numpy().reshape(-1) for t in leaves])

            def f(x):
                with torch.no_grad():
                    _, Xs_ = _leaves(items, cplx, False, flat=x)
                    return float((op(stackA(Xs_)).reshape(nb, d, d) * Wt.conj()).real.sum())
            tag = '/zero-eig' if 'zero-eig' in cls_list else ('/rank-deficient-support' if 'rank-def' in cls_list else
                                                           ('/degenerate-spectrum' if set(cls_list) & {'degenerate', 'identity', 'exact-identity', 'exact-diagonal'} else
                                                            ('/nearly-singular' if 'near-singular' in cls_list else ('/nearly-degenerate' if 'near-identity' in cls_list else ''))))
            if nb > 1:
                tag += '/batched'
            fd_judge(ctx, f, x0, got, f'{fn}/grad-vs-fd{tag}', f'{fn} of a PSD matrix: leaf .grad', f'{fn}/grad-vs-fd', kappa=kappa, witness=desc)
            # autograd through the reference re-implementation(s)
            for method in ('eigh', 'db'):
                if method == 'eigh' and any(c in ('degenerate', 'identity', 'exact-identity', 'exact-diagonal', 'near-identity') for c in cls_list):
                    continue  # eigh autograd is singular for degenerate (ill-conditioned for nearly degenerate) spectra
                if method == 'db' and any(c in ('zero-eig', 'rank-def') for c in cls_list):
                    continue  # Denman-Beavers needs a positive definite input
                leaves2, Xs2 = _leaves(items, cplx)
                outs = []
                for it_, c, X in zip(items, cls_list, Xs2):
                    Ai = it_['build'](X)
                    if fn == 'logm':
                        outs.append(R.logm_pade(Ai, s, order, method))
                    elif c == 'zero-eig':  # exact zero row/column: clip the spectrum like the forward does (PSD part)
                        outs.append(R.funm_eigh(Ai, lambda x: torch.sqrt(torch.clamp(x, min=0))))
                    elif c == 'rank-def':  # sqrt(X X^H/d) = X (X^H X)^(-1/2) X^H / sqrt(d)
                        G = _H(X) @ X
                        outs.append(X @ R.funm_eigh(G, lambda x: x**-0.5) @ _H(X) / np.sqrt(d))
                    else:
                        outs.append(R.sqrtm_repeat(Ai, 1, method))
                Fref = torch.stack(outs)
                fe = float((Fref.detach() - F.detach().reshape(nb, d, d)).abs().max())
                if fe > 1e-8 * kappa * (1 + float(Fref.detach().abs().max())):
                    ctx.inconclusive(f'{fn}/reference-forward-mismatch/{method}')
                    _worst(ctx, 'worst_reference_forward_mismatch', f'{fn}/{method}', fe)
                    continue
                (Fref * Wt.conj()).real.sum().backward()
                ref = _flat_grad(leaves2)
                if not np.all(np.isfinite(ref)):
                    ctx.inconclusive(f'{fn}/reference-gradient-nonfinite/{method}')
                    continue
                cmp_grad(ctx, got, ref, f'{fn}/grad-vs-autograd{tag}', f'{fn} of a PSD matrix: leaf .grad vs {method} reference',
                         f'{fn}/grad-vs-autograd', tol_rel=1e-8, kappa=kappa**2, witness=dict(desc, reference=method))


def run_entropy(ctx, numqi, st, shard):
    rng = ctx.rng
    ctx.workload('random', shard['n'])
    for it in range(shard['n']):
        d = int(rng.integers(2, 6))
        which = ['vn', 'rel-sigma', 'rel-both', 'vn-batched'][it % 4]
        pade = [(6, 8), (4, 6), (8, 8)][int(rng.integers(3))]
        mix = float(rng.uniform(0.05, 0.5))
        nb = 3 if which == 'vn-batched' else 1
        X0 = _cplx(rng, (nb, d, d), True)
        Y0 = _cplx(rng, (d, d), True)
        rho_c = _cplx(rng, (d, d), True)
        rho_c = rho_c @ rho_c.conj().T
        rho_c = rho_c / np.trace(rho_c).real
        desc = {'kind': 'entropy', 'which': which, 'd': d, 'pade': list(pade), 'mix': mix}
        ctx.set_case(desc)
        eye = torch.eye(d, dtype=torch.complex128)

        def dm(X):
            A = X @ _H(X)
            tr = torch.diagonal(A, dim1=-2, dim2=-1).sum(-1).real
            return (1 - mix) * A / tr.reshape(tr.shape + (1, 1)) + mix * eye / d

        def leaves_of(flat=None):
            if flat is None:
                flat = np.concatenate([X0.real.reshape(-1), X0.imag.reshape(-1), Y0.real.reshape(-1), Y0.imag.reshape(-1)])
            m = nb * d * d
            ts = [torch.tensor(flat[:m].reshape(nb, d, d).copy(), requires_grad=True), torch.tensor(flat[m:2 * m].reshape(nb, d, d).copy(), requires_grad=True),
                  torch.tensor(flat[2 * m:2 * m + d * d].reshape(d, d).copy(), requires_grad=True), torch.tensor(flat[2 * m + d * d:].reshape(d, d).copy(), requires_grad=True)]
            return ts, flat

        def numqi_loss(ts):
            X, Y = torch.complex(ts[0], ts[1]), torch.complex(ts[2], ts[3])
            if which == 'vn':
                return numqi.utils.get_von_neumann_entropy(dm(X[0]), ('pade',) + pade)
            if which == 'vn-batched':
                return (numqi.utils.get_von_neumann_entropy(dm(X), ('pade',) + pade) * torch.tensor([1.0, -0.5, 2.0], dtype=torch.float64)).sum()
            if which == 'rel-sigma':
                return numqi.utils.get_relative_entropy(torch.tensor(rho_c), dm(Y), None, ('pade',) + pade)
            return numqi.utils.get_relative_entropy(dm(X[0]), dm(Y), None, ('pade',) + pade)

        def ref_loss(ts):
            X, Y = torch.complex(ts[0], ts[1]), torch.complex(ts[2], ts[3])
            plog = lambda A: R.logm_pade(A, pade[0], pade[1], 'eigh')
            xlogx = lambda A: (torch.linalg.eigvalsh(A) * torch.log(torch.linalg.eigvalsh(A))).sum(-1)
            if which == 'vn':
                r = dm(X[0])
                return -(r.conj() * plog(r)).real.sum()
            if which == 'vn-batched':
                r = dm(X)
                return (-(r.conj() * plog(r)).real.sum(dim=(-1, -2)) * torch.tensor([1.0, -0.5, 2.0], dtype=torch.float64)).sum()
            if which == 'rel-sigma':
                r = torch.tensor(rho_c)
                return xlogx(r) - (r.conj() * plog(dm(Y))).real.sum()
            r = dm(X[0])
            return xlogx(r) - (r.conj() * plog(dm(Y))).real.sum()

        with ctx.guard('entropy'):
            ts, x0 = leaves_of()
            loss = numqi_loss(ts)
            loss.backward()
            got = _flat_grad(ts)
            ctx.case('entropy', which, d, pade, mix, X0, Y0, rho_c, nontrivial=float(np.abs(got).max()) > 1e-8,
                     sample=dict(desc, loss=float(loss.item()), grad_max=float(np.abs(got).max())) if it < 2 else None)
            kappa = d / mix  # eigenvalues of the density matrices are >= mix/d
            f = lambda x: float(numqi_loss(leaves_of(x)[0]).item())  # leaves require grad: same (Pade) forward path
            fd_judge(ctx, f, x0, got, f'entropy/grad-vs-fd/{which}', f'{which} entropy (Pade logm) leaf .grad', 'entropy/grad-vs-fd', kappa=kappa, witness=desc)
            ts2, _ = leaves_of()
            l2 = ref_loss(ts2)
            if abs(float(l2.item()) - float(loss.item())) <= 1e-9 * kappa * (1 + abs(float(l2.item()))):
                l2.backward()
                cmp_grad(ctx, got, _flat_grad(ts2), f'entropy/grad-vs-autograd/{which}', f'{which} entropy leaf .grad vs spectral reference',
                         'entropy/grad-vs-autograd', tol_rel=1e-8, kappa=kappa, witness=desc)
            else:
                ctx.inconclusive('entropy/reference-forward-mismatch')
    entropy_input_regimes(ctx, numqi, max(8, shard['n'] // 3))


def entropy_input_regimes(ctx, numqi, ncase):
    """gradient w.r.t. the INPUT density matrix (a leaf tensor that requires grad) of the Pade-logm entropies, for inputs exactly at /
    within 1e-10..1e-6 of / at moderate distance from the maximally mixed state, vs the closed-form spectral reference."""
    rng = ctx.rng
    U = numqi.utils
    for it in range(ncase):
        d = int(rng.integers(2, 6))
        s, order = [(6, 8), (4, 6), (8, 8)][it % 3]
        regime = ['exactly-maximally-mixed', 'near-maximally-mixed', 'near-maximally-mixed', 'moderate'][it % 4]
        eps_ = {'exactly-maximally-mixed': 0.0, 'near-maximally-mixed': float(10.0**rng.uniform(-10, -6)), 'moderate': float(rng.uniform(0.1, 0.6))}[regime]
        Ht = _cplx(rng, (d, d), True)
        Ht = (Ht + Ht.conj().T) / 2
        Ht = Ht - np.trace(Ht).real / d * np.eye(d)
        Ht = Ht / np.abs(np.linalg.eigvalsh(Ht)).max()
        x = np.eye(d) / d + eps_ * Ht / d  # eigenvalues in [(1-eps)/d, (1+eps)/d]
        other = rand_dm(rng, d, mix=0.2)
        which = ['vn', 'rel-sigma'][(it // 4) % 2]
        desc = {'kind': 'entropy-input', 'which': which, 'd': d, 'pade': [s, order], 'regime': regime, 'distance_from_maximally_mixed': eps_ / d}
        ctx.set_case(desc)
        _count(ctx, 'entropy_input_regimes', f'{which}/{regime}')
        with ctx.guard('entropy-input'):
            xt = torch.tensor(x, dtype=torch.complex128, requires_grad=True)
            if which == 'vn':
                val = U.get_von_neumann_entropy(xt, ('pade', s, order))
            else:
                val = U.get_relative_entropy(torch.tensor(other), xt, None, ('pade', s, order))
            val.backward()
            got = _np(xt.grad)
            lam, V = np.linalg.eigh(x)
            pl = _np(R.pade_log_scalar(torch.tensor(lam, dtype=torch.float64), s, order))
            Fm = R.loewner_pade_log(lam, s, order)
            if which == 'vn':
                ref = -(V * (pl + lam * np.diag(Fm))) @ V.conj().T
                vref = -float((lam * pl).sum())
            else:
                ref = -V @ ((V.conj().T @ other @ V) * Fm) @ V.conj().T
                lo = np.linalg.eigvalsh(other)
                vref = float((lo * np.log(lo)).sum() - np.trace(other @ (V * pl) @ V.conj().T).real)
            kappa = d / (1 - eps_)  # 1/lambda_min of the input, from the construction
            ctx.case('entropy-input', which, d, s, order, x, other, nontrivial=float(np.abs(ref).max()) > 1e-8)
            if abs(float(val.item()) - vref) > 1e-9 * kappa * (1 + abs(vref)):
                ctx.inconclusive('entropy-input/reference-forward-mismatch')
                continue
            if tuple(got.shape) != (d, d):
                ctx.check(False, 'entropy/input-grad/shape', 'gradient w.r.t. the input density matrix has the wrong shape', desc, point='entropy/input-grad')
                continue
            cmp_grad(ctx, ((got + got.conj().T) / 2).reshape(-1), ((ref + ref.conj().T) / 2).reshape(-1), f'entropy/input-grad-vs-reference/{which}({regime})',
                     f'{which} entropy (Pade logm): Hermitian part of the gradient w.r.t. the input density matrix', 'entropy/input-grad', tol_rel=1e-8, kappa=kappa, witness=desc)


# =================================================================================================== models / realistic
def rand_dm(rng, d, rank=None, mix=0.0):
    rank = d if rank is None else rank
    x = rng.normal(size=(d, rank)) + 1j * rng.normal(size=(d, rank))
    rho = x @ x.conj().T
    rho = rho / np.trace(rho).real
    return (1 - mix) * rho + mix * np.eye(d) / d


def make_model(numqi, rng, name):
    """(model, description) for the variational models built on the custom operators."""
    E = numqi.entangle
    if name == 'eof':
        dA, dB = [(2, 2), (2, 3), (3, 2)][int(rng.integers(3))]
        rank = int(rng.integers(2, dA * dB + 1))
        nt = rank + int(rng.integers(0, 3))
        m = E.EntanglementFormationModel(dA, dB, nt, rank=rank)
        m.set_density_matrix(rand_dm(rng, dA * dB, rank))
        return m, {'model': 'EntanglementFormationModel', 'dimA': dA, 'dimB': dB, 'num_term': nt, 'rank': rank}
    if name in ('pureb-ree', 'pureb-gellmann'):
        if name == 'pureb-ree':  # log(sigma) needs a full-rank reduced state: Dicke(kext-1, dimB) >= dimA*dimB
            dA, dB, k = [(2, 2, 4), (2, 2, 5), (2, 3, 3)][int(rng.integers(3))]
        else:
            dA, dB, k = [(2, 2, 2), (2, 2, 3), (2, 3, 2), (3, 2, 2)][int(rng.integers(4))]
        m = E.PureBosonicExt(dA, dB, k, distance_kind=name.split('-')[1])
        m.set_dm_target(rand_dm(rng, dA * dB, mix=0.2))
        return m, {'model': 'PureBosonicExt', 'dimA': dA, 'dimB': dB, 'kext': k, 'distance': name.split('-')[1]}
    if name == 'pureb-op':
        m = E.PureBosonicExt(2, 2, 2)
        h = rng.normal(size=(4, 4)) + 1j * rng.normal(size=(4, 4))
        m.set_expectation_op(h + h.conj().T)
        return m, {'model': 'PureBosonicExt', 'expectation': True}
    if name in ('cha-ree', 'cha-gellmann'):
        dA, dB = [(2, 2), (2, 3), (3, 3)][int(rng.integers(3))]
        ns = int(rng.integers(dA * dB, 2 * dA * dB + 1))
        m = E.AutodiffCHAREE((dA, dB), num_state=ns, distance_kind=name.split('-')[1])
        m.set_dm_target(rand_dm(rng, dA * dB, mix=0.2))
        return m, {'model': 'AutodiffCHAREE', 'dim': [dA, dB], 'num_state': ns, 'distance': name.split('-')[1]}
    if name == 'query-grover':  # consumer of CircuitTorchWrapper in numqi.query: shifted circuit with custom (hand-differentiated) oracle gates
        nq, nquery = [(2, 1), (3, 1), (3, 2), (2, 2)][int(rng.integers(4))]
        # FractionalGroverOracle is a trainable custom gate: the reverse sweep used to drop the op_grad returned by gate.grad_backward (the gate had
        # no 'ind_torch' slot), so d loss/d(oracle angle) was delivered as 0 - a genuine defect found here and repaired in numqi (fix: 957cf0b).
        _QUERY_COUNT[0] += 1
        frac = _QUERY_COUNT[0] % 3 != 0  # deterministic schedule: fractional, fractional, plain, ...
        circ = numqi.sim.Circuit(default_requires_grad=True)
        circ.register_custom_gate('oracle', numqi.query.FractionalGroverOracle if frac else numqi.query.GroverOracle)

        def block():
            for i in list(range(0, nq - 1, 2)) + list(range(1, nq - 1, 2)):
                circ.ry(i); circ.rx(i); circ.ry(i + 1); circ.rx(i + 1); circ.cnot(i, i + 1)
        for _ in range(nquery):
            block()
            circ.oracle(nq)
        block()
        return numqi.query.QueryGroverQuantumModel(circ), {'model': 'QueryGroverQuantumModel', 'num_qubit': nq, 'num_query': nquery, 'fractional_oracle': frac}
    raise KeyError(name)


_QUERY_COUNT = [0]
MODEL_NAMES = ['eof', 'pureb-ree', 'pureb-gellmann', 'pureb-op', 'cha-ree', 'cha-gellmann', 'query-grover']


def run_models(ctx, numqi, st, shard):
    rng = ctx.rng
    names = MODEL_NAMES if 'part' not in shard else MODEL_NAMES[shard['part']::3]
    for name in names:
        for rep in range(shard['n']):
            ctx.workload('random')
            with ctx.guard('model'):
                model, desc = make_model(numqi, rng, name)
                ctx.set_case(desc)
                st['closure'] = {'point': 'model/grad-vs-fd', 'tag': desc, 'kappa': 100.0}
                try:
                    hf = numqi.optimize.hf_model_wrapper(model)
                    npar = sum(int(np.prod(v.shape)) for _, v in sorted_named(model))
                    for _ in range(2):
                        theta = rng.uniform(-1, 1, size=npar)
                        fval, grad = hf(theta)
                        ctx.case('model', desc, theta, nontrivial=float(np.abs(grad).max()) > 1e-8,
                                 sample=dict(desc, fval=fval, grad_max=float(np.abs(grad).max()), num_parameter=npar) if rep == 0 else None)
                finally:
                    st['closure'] = None


def run_realistic(ctx, numqi, st, shard):
    """~10 L-BFGS iterations through numqi.optimize.minimize with every 3rd closure evaluation checked."""
    rng = ctx.rng
    part = shard['part']
    rounds = shard.get('rounds', 1)
    st['every'] = 3
    jobs = []
    for r in range(rounds):
        if part % 2 == 0:
            jobs += ['circuit', 'varqec', 'eof', 'cha-ree']
        else:
            jobs += ['circuit', 'varqec-unitary', 'pureb-ree', 'cha-gellmann', 'pureb-op']
    for job in jobs:
        ctx.workload('realistic')
        with ctx.guard('optimizer'):
            if job == 'circuit':
                while True:
                    spec = gen_program(rng, nmin=2, nmax=4)
                    if sum(1 for op in spec['prog'] if op.get('p') and op['p'][0] in ('theta', 'P')) >= 3:
                        break
                N = 2**spec['n']
                H = rng.normal(size=(N, N)) + 1j * rng.normal(size=(N, N))
                H = (H + H.conj().T) / 2
                psi0 = np.zeros(N, dtype=np.complex128)
                psi0[0] = 1
                keys = sorted({op['p'][1] for op in spec['prog'] if op.get('p') and op['p'][0] == 'P'})
                model = make_circuit_model(numqi, spec, H, psi0, {k: rng.uniform(0, 2 * np.pi, size=PSHAPES[k]) for k in keys}, False)
                desc = {'optimizer': 'L-BFGS-B', 'model': 'CircuitModel', 'program': spec['prog'], 'features': spec['features']}
                names_shapes = [(k, tuple(v.shape)) for k, v in sorted_named(model)]
                cfg = {'classes': coordinate_classes(spec, names_shapes)}
            elif job == 'varqec':
                circ = numqi.sim.Circuit(default_requires_grad=True)
                nq = 4
                for _ in range(2):
                    for x in range(nq):
                        circ.u3(x)
                    for x in range(nq):
                        circ.cu3(x, (x + 1) % nq)
                model = numqi.qec.VarQEC(circ, 2, numqi.qec.make_error_list(nq, 2), loss_type='L2')
                desc = {'optimizer': 'L-BFGS-B', 'model': 'VarQEC ((4,2,2)) u3/cu3 ansatz, 2 layers'}
                cfg = {}
            elif job == 'varqec-unitary':
                model = numqi.qec.VarQECUnitary(4, 2, numqi.qec.make_error_list(4, 2), loss_type='L2')
                desc = {'optimizer': 'L-BFGS-B', 'model': 'VarQECUnitary ((4,2,2))'}
                cfg = {'kappa': 10.0}
            else:
                model, desc = make_model(numqi, rng, job)
                desc = dict(desc, optimizer='L-BFGS-B')
                cfg = {'kappa': 100.0}
            ctx.set_case(desc)
            st['closure'] = dict(cfg, key=f'optimizer/grad-vs-fd/{type(model).__name__}', point='optimizer/grad-vs-fd', tag=desc)
            before = ctx.hits.get(P_CLOSURE, 0)
            try:
                seed = int(rng.integers(2**31))
                theta0 = ('uniform', 0, 2 * np.pi) if job in ('circuit', 'varqec') else 'uniform'
                res = numqi.optimize.minimize(model, theta0=theta0, num_repeat=1, tol=1e-12, maxiter=10, print_every_round=0, seed=seed)
                if job in ('circuit', 'varqec'):  # the same model object optimised a second time (as tests/test_qec.py does)
                    numqi.optimize.minimize(model, theta0=theta0, num_repeat=1, tol=1e-12, maxiter=6, print_every_round=0, seed=seed + 1)
            finally:
                st['closure'] = None
            nev = ctx.hits.get(P_CLOSURE, 0) - before
            _count(ctx, 'optimizer_closure_evaluations', type(model).__name__, nev)
            ctx.case('optimizer', desc, seed, nontrivial=nev >= 3, sample=dict(desc, closure_evaluations=nev, final_loss=float(res.fun), nit=int(res.nit)))
    st['every'] = 1


def run_repo_tests(ctx, numqi, st, shard):
    """the repository's own gradient tests with the backward postconditions switched on."""
    import pytest
    src = os.path.realpath(os.environ.get('NUMQI_SRC', '/repo/python'))
    tests = os.path.join(os.path.dirname(src), 'tests')
    if not os.path.isdir(tests):
        tests = '/repo/tests'
    files = [os.path.join(tests, 'test_torch_op.py'), os.path.join(tests, 'tests_sim', 'test_sim_circuit.py'),
             os.path.join(tests, 'test_qec.py') + '::test_knill_laflamme_inner_product', os.path.join(tests, 'test_optimize.py')]
    ctx.workload('repo-tests', len(files))
    before = dict(ctx.hits)
    import io
    import contextlib
    buf = io.StringIO()
    with contextlib.redirect_stdout(buf):
        rc = pytest.main(['-q', '-x', '-p', 'no:cacheprovider', '--rootdir', tests, '-o', 'addopts='] + files)
    ctx.extra['repo_tests'] = {'exit_code': int(rc), 'tail': buf.getvalue()[-400:],
                               'new_hits': {k: v - before.get(k, 0) for k, v in ctx.hits.items() if v - before.get(k, 0) > 0}}
    ctx.set_case({'kind': 'repo-tests', 'files': files})
    ctx.case('repo-tests', files, nontrivial=int(rc) == 0)
    if int(rc) != 0:
        ctx.inconclusive('repo-tests/pytest-exit-nonzero')


# =================================================================================================== histories / order / layout
def _params_of(model):
    named = sorted_named(model)
    return named, [(k, tuple(v.shape)) for k, v in named]


def _grads_now(named):
    return {k: (np.zeros(tuple(v.shape)) if v.grad is None else _np(v.grad).copy()) for k, v in named}


def _zero_grads(named):
    for _, v in named:
        v.grad = None


def _append_trailing_controls(rng, spec):
    """end the program with control gates (the cotangent buffer is what the reverse sweep touches first)."""
    n = spec['n']
    if n < 2:
        return
    for _ in range(int(rng.integers(1, 3))):
        q = [int(x) for x in rng.permutation(n)[:2]]
        r = rng.random()
        if r < 0.35:
            spec['prog'].append({'g': 'Z', 'tgt': q[:1], 'ctrl': q[1:]})
        elif r < 0.7:
            g = ['crx', 'crz', 'cu3'][int(rng.integers(3))]
            vals = [float(x) for x in rng.uniform(0, 2 * np.pi, size=R.GATES[g][1])]
            spec['theta'].setdefault(g, []).append(vals)
            spec['prog'].append({'g': g, 'tgt': q[:1], 'ctrl': q[1:], 'p': ['theta', g, len(spec['theta'][g]) - 1]})
        else:
            k = f'm{len(spec["mats"])}'
            spec['mats'][k] = rand_unitary(rng, 2)
            spec['prog'].append({'g': 'U', 'tgt': q[:1], 'ctrl': q[1:], 'm': k})
    spec['features'] = sorted(set(spec['features']) | {'trailing-control-gates'})


def _hist_spec(rng, trailing, special=None):
    while True:
        spec = gen_program(rng, nmin=2, nmax=4, lmax=8, special=special)
        if sum(1 for op in spec['prog'] if op.get('p') and op['p'][0] in ('theta', 'P')) >= 2:
            break
    if trailing:
        _append_trailing_controls(rng, spec)
    N = 2**spec['n']
    H = rng.normal(size=(N, N)) + 1j * rng.normal(size=(N, N))
    H = (H + H.conj().T) / 2
    psi0 = rng.normal(size=N) + 1j * rng.normal(size=N)
    psi0 /= np.linalg.norm(psi0)
    keys = sorted({op['p'][1] for op in spec['prog'] if op.get('p') and op['p'][0] == 'P'})
    P_init = {k: rng.uniform(0, 2 * np.pi, size=PSHAPES[k]) for k in keys}
    return spec, H, psi0, P_init


def _ref_at(model, spec, H, psi0, train_state, loss_fn=None):
    named, names_shapes = _params_of(model)
    values = {k: _np(v).copy() for k, v in named}
    lref, gref, qref = ref_circuit(spec, values, H, psi0, train_state, loss_fn=loss_fn)
    return lref, flat_from_dict(names_shapes, gref), qref


def hist_circuit(ctx, numqi, st, rep):
    rng = ctx.rng
    spec, H, psi0, P_init = _hist_spec(rng, trailing=rep % 3 != 2, special=[None, 'mixed', None, 'noargs'][rep % 4])
    train_state = bool(rng.random() < 0.3)
    layout = 'tensor' if train_state else ['tensor', 'strided', 'real'][rep % 3]
    if layout == 'real':
        psi0 = psi0.real / np.linalg.norm(psi0.real)
    desc = {'kind': 'circuit-history', 'n': spec['n'], 'program': spec['prog'], 'theta': spec['theta'], 'train_state': train_state,
            'psi_layout': layout, 'features': spec['features']}
    ctx.set_case(desc)
    _count(ctx, 'history_circuit_state_layouts', layout)
    with ctx.guard('circuit-history'):
        model = make_circuit_model(numqi, spec, H, psi0, P_init, train_state, psi_layout=layout)
        named, names_shapes = _params_of(model)
        classes = coordinate_classes(spec, names_shapes)
        params = [v for _, v in named]
        Ht = torch.tensor(H, dtype=R.CD)
        if rep % 5 == 0 and not train_state and layout != 'real':
            # a numpy initial state is accepted by the forward; torch itself rejects the non-None state gradient the backward
            # returns for a non-tensor input, so such a call is not differentiable at all: recorded, not judged
            m2 = make_circuit_model(numqi, spec, H, psi0, P_init, False, psi_layout='numpy')
            try:
                m2().backward()
                ctx.inconclusive('circuit/numpy-initial-state/backward-worked(not compared)')
            except RuntimeError as e:
                ctx.inconclusive('circuit/numpy-initial-state/not-differentiable(torch rejects the state gradient of a non-tensor input)'
                                 if 'was not a Variable' in str(e) else 'circuit/numpy-initial-state/RuntimeError')
        # --- (1) the same cotangent tensor used for two backward passes
        q = model.state()
        v = torch.tensor(rng.normal(size=q.shape) + 1j * rng.normal(size=q.shape), dtype=torch.complex128)
        v0 = v.clone()
        g1 = torch.autograd.grad(q, params, grad_outputs=v, retain_graph=True, allow_unused=True)
        unchanged = bool(torch.equal(v, v0))
        ctx.check(unchanged, 'circuit/backward/mutates-cotangent-or-saved-tensors',
                  'out.backward(v): the cotangent tensor v handed to the circuit backward was modified in place',
                  {'max_change': float((v - v0).abs().max())}, point='history/circuit/cotangent-reuse')
        g3 = torch.autograd.grad(q, params, grad_outputs=v0 * 1e-9, retain_graph=True, allow_unused=True)  # a tiny cotangent
        g2 = torch.autograd.grad(q, params, grad_outputs=v, retain_graph=False, allow_unused=True)
        f = lambda gs: np.concatenate([(np.zeros(tuple(p_.shape)) if g is None else _np(g)).reshape(-1) for g, p_ in zip(gs, params)])
        f1, f2 = f(g1), f(g2)
        ctx.close(f(g3) * 1e9, f1, 1e-9 * (1 + np.abs(f1).max()), 'circuit/vjp-not-linear-in-cotangent(tiny cotangent)',
                  'the vector-Jacobian product with the cotangent 1e-9*v is not 1e-9 times the one with v', desc, point='history/circuit/cotangent-reuse')
        ctx.close(f2, f1, 1e-12 * (1 + np.abs(f1).max()), 'circuit/history/second-vjp-with-same-cotangent-differs',
                  'two vector-Jacobian products of the same graph with the same cotangent tensor differ', desc, point='history/circuit/cotangent-reuse')
        _, gref, _ = _ref_at(model, spec, H, psi0, train_state, loss_fn=lambda qq: (v0.conj() * qq).real.sum())
        cmp_grad(ctx, f1, gref, 'circuit/vjp-vs-autograd', 'circuit state vector-Jacobian product with an explicit cotangent', 'history/circuit/cotangent-reuse',
                 classes=classes, witness=desc)
        ctx.case('circuit-history', desc['program'], spec['theta'], P_init, psi0, nontrivial=float(np.abs(f1).max()) > 1e-8,
                 sample=dict(desc, vjp_max=float(np.abs(f1).max())) if rep < 2 else None)
        # --- (2) losses built from out.sum() / out.mean(): autograd hands an expanded stride-0 cotangent
        for kind in ('abs-sum', 'mean'):
            model.loss_kind = kind
            _zero_grads(named)
            loss = model()
            loss.backward()
            got = flat_from_dict(names_shapes, _grads_now(named))
            lref, gref, _ = _ref_at(model, spec, H, psi0, train_state, loss_fn=lambda qq: loss_of_state(qq, Ht, kind))
            if abs(lref - float(loss.item())) <= 1e-9 * (1 + abs(lref)):
                cmp_grad(ctx, got, gref, f'circuit/grad-vs-autograd/expanded-cotangent({kind})', f'loss {kind} of the final state', 'history/circuit/expanded-cotangent',
                         classes=classes, witness=desc)
            st['closure'] = {'key': f'circuit/grad-vs-fd/expanded-cotangent({kind})', 'point': 'history/circuit/expanded-cotangent', 'classes': classes, 'tag': desc}
            try:
                numqi.optimize.hf_model_wrapper(model)(flat_from_dict(names_shapes, {k: _np(v_) for k, v_ in named}))
            finally:
                st['closure'] = None
        model.loss_kind = 'H'
        # --- (3) the same wrapper differentiated again after in-place parameter updates
        st['closure'] = {'key': 'circuit/grad-vs-fd/history', 'point': 'history/circuit/updates', 'classes': classes, 'tag': desc}
        try:
            hf = numqi.optimize.hf_model_wrapper(model)
            theta0 = flat_from_dict(names_shapes, {k: _np(v_) for k, v_ in named})
            f0, grad0 = hf(theta0)
            for step in range(3):
                with torch.no_grad():
                    for p_ in params:
                        p_.add_(torch.tensor(rng.normal(size=tuple(p_.shape)) * 0.7, dtype=p_.dtype))
                        if step == 2:  # an update that lands some parameters EXACTLY on 0 (gate exactly the identity) / pi
                            m_ = torch.tensor(rng.random(size=tuple(p_.shape)) < 0.4)
                            p_[m_] = 0.0 if rng.random() < 0.7 else float(np.pi)
                if step == 0:
                    model.circuit_torch.fresh_gate_parameter()  # writes the current angles and matrices into the gate objects
                if step == 1:  # edit a trainable gate object directly: the wrapper's Parameter stays the source of truth
                    for gate, _ in model.circuit.gate_index_list:
                        if getattr(gate, 'requires_grad', False) and isinstance(getattr(gate, 'args', None), tuple):
                            gate.set_args(tuple(float(x) + 0.3 for x in gate.args))
                            break
                _zero_grads(named)
                loss = model()
                loss.backward()
                got = flat_from_dict(names_shapes, _grads_now(named))
                lref, gref, _ = _ref_at(model, spec, H, psi0, train_state)
                if abs(lref - float(loss.item())) <= 1e-9 * (1 + abs(lref)):
                    cmp_grad(ctx, got, gref, 'circuit/history/stale-after-inplace-update',
                             'gradient after an in-place parameter update (same CircuitTorchWrapper) vs reference at the CURRENT values',
                             'history/circuit/updates', classes=classes, witness=dict(desc, step=step))
                else:
                    ctx.inconclusive('circuit-history/reference-forward-mismatch')
                if step == 2:
                    hf(flat_from_dict(names_shapes, {k: _np(v_) for k, v_ in named}))
            f0b, grad0b = hf(theta0)  # the first point again at the end of the history
            ctx.close(np.concatenate([[f0b], grad0b]), np.concatenate([[f0], grad0]), 1e-12 * (1 + np.abs(grad0).max() + abs(f0)),
                      'circuit/history/repeat-differs', 'the same parameter point evaluated at the start and at the end of a history gives different (fval, grad)',
                      desc, point='history/circuit/updates')
        finally:
            st['closure'] = None


def _ref_chain(spec, valsA, valsB, H, psi0):
    """reference loss and gradients of <q|H|q>, q = program(theta_B) program(theta_A) psi0 (two independent parameter sets)."""
    def leaves(values):
        th = {k[len('circuit_torch.theta.'):]: torch.tensor(v, dtype=R.FD, requires_grad=True) for k, v in values.items() if k.startswith('circuit_torch.theta.')}
        P = {k[2:]: torch.tensor(v, dtype=R.FD, requires_grad=True) for k, v in values.items() if k.startswith('P.')}
        return th, P
    (tA, PA), (tB, PB) = leaves(valsA), leaves(valsB)
    ops = R.build_ops(spec['prog'], tA, PA, spec['mats']) + R.build_ops(spec['prog'], tB, PB, spec['mats'])
    psi = torch.tensor(psi0, dtype=R.CD)
    q = R.run_ops(int(round(math.log2(psi.numel()))), ops, psi)
    loss = R.expectation_loss(q, torch.tensor(H, dtype=R.CD))
    loss.backward()
    out = []
    for th, P in ((tA, PA), (tB, PB)):
        g = {'circuit_torch.theta.' + k: (np.zeros(t.shape) if t.grad is None else t.grad.numpy()) for k, t in th.items()}
        g.update({'P.' + k: (np.zeros(t.shape) if t.grad is None else t.grad.numpy()) for k, t in P.items()})
        out.append(g)
    return float(loss.item()), out[0], out[1]


def lifecycle_circuit(ctx, numqi, st, rep):
    """object lifecycle and evaluation modes of the circuit wrapper: deepcopy / load_state_dict / two wrappers over ONE Circuit object /
    two wrappers chained (gradient w.r.t. the upstream parameters flows through the INPUT state) / a leaf input state that requires
    grad / a frozen parameter tensor / value under torch.no_grad()."""
    import copy
    rng = ctx.rng
    spec, H, psi0, P_init = _hist_spec(rng, trailing=rep % 2 == 0, special=[None, 'tiny', None, 'wide'][rep % 4])
    desc = {'kind': 'circuit-lifecycle', 'n': spec['n'], 'program': spec['prog'], 'theta': spec['theta'], 'features': spec['features']}
    ctx.set_case(desc)
    P_LC = 'lifecycle/circuit'

    def grads(m):
        named, names_shapes = _params_of(m)
        _zero_grads(named)
        loss = m()
        loss.backward()
        return float(loss.item()), flat_from_dict(names_shapes, _grads_now(named))

    def randomize(m):
        with torch.no_grad():
            for _, p_ in sorted_named(m):
                p_.copy_(torch.tensor(rng.uniform(0, 2 * np.pi, size=tuple(p_.shape)), dtype=p_.dtype))

    def judge(m, got, lval, key, what):
        lref, gref, _ = _ref_at(m, spec, H, psi0, False)
        named, names_shapes = _params_of(m)
        if abs(lref - lval) <= 1e-9 * (1 + abs(lref)):
            cmp_grad(ctx, got, gref, key, what, P_LC, classes=coordinate_classes(spec, names_shapes), witness=desc)
        else:
            ctx.check(False, key + '/value', what + ' (loss value)', dict(desc, got=lval, expected=lref), point=P_LC)

    with ctx.guard('circuit-lifecycle'):
        model = make_circuit_model(numqi, spec, H, psi0, P_init, False)
        l0, g0 = grads(model)
        judge(model, g0, l0, 'circuit/grad-vs-autograd/lifecycle-baseline', 'fresh model')
        ctx.case('circuit-lifecycle', desc['program'], spec['theta'], P_init, psi0, nontrivial=float(np.abs(g0).max()) > 1e-8)
        # value under torch.no_grad() == value with autograd recording
        with torch.no_grad():
            lv = float(model().item())
        ctx.check(abs(lv - l0) <= 1e-12 * (1 + abs(l0)), 'circuit/value-depends-on-grad-mode', 'loss under torch.no_grad() differs from the loss with autograd recording',
                  dict(desc, no_grad=lv, grad=l0), point=P_LC)
        # deepcopy, then NEW parameters in the copy: the copy is a function of ITS parameters; the original is untouched
        mc = copy.deepcopy(model)
        randomize(mc)
        lc, gc = grads(mc)
        judge(mc, gc, lc, 'circuit/lifecycle/deepcopy-not-a-function-of-its-own-parameters', 'copy.deepcopy(model) evaluated at new parameters')
        l0b, g0b = grads(model)
        ctx.close(np.concatenate([[l0b], g0b]), np.concatenate([[l0], g0]), 1e-12 * (1 + np.abs(g0).max() + abs(l0)), 'circuit/lifecycle/original-changed-after-its-copy-was-used',
                  'the original model gives a different (loss, gradient) after its deepcopy was given new parameters and differentiated', desc, point=P_LC)
        # load_state_dict into a model that was built separately and used at other parameters before
        m3 = make_circuit_model(numqi, spec, H, psi0, P_init, False)
        randomize(m3)
        grads(m3)
        m3.load_state_dict(model.state_dict())
        l3, g3 = grads(m3)
        ctx.close(np.concatenate([[l3], g3]), np.concatenate([[l0], g0]), 1e-12 * (1 + np.abs(g0).max() + abs(l0)), 'circuit/lifecycle/load_state_dict-differs-from-source-model',
                  'a separately built model after load_state_dict(source.state_dict()) gives a different (loss, gradient) than the source', desc, point=P_LC)
        # two wrappers over ONE Circuit object, different parameters, interleaved use (+ fresh_gate_parameter writing into the shared gates)
        circ = build_circuit(numqi, spec)
        w1 = make_circuit_model(numqi, spec, H, psi0, P_init, False, circ=circ)
        w2 = make_circuit_model(numqi, spec, H, psi0, P_init, False, circ=circ)
        randomize(w2)
        la, ga = grads(w1)
        lb, gb = grads(w2)
        w2.circuit_torch.fresh_gate_parameter()
        la2, ga2 = grads(w1)
        judge(w2, gb, lb, 'circuit/lifecycle/two-wrappers-share-state', 'second CircuitTorchWrapper over the same Circuit object, own parameters')
        judge(w1, ga2, la2, 'circuit/lifecycle/two-wrappers-share-state', 'first CircuitTorchWrapper after the second one (same Circuit object) was used and refreshed the gates')
        ctx.close(np.concatenate([[la2], ga2]), np.concatenate([[la], ga]), 1e-12 * (1 + np.abs(ga).max() + abs(la)), 'circuit/lifecycle/two-wrappers-share-state',
                  'a wrapper gives a different (loss, gradient) after another wrapper over the same Circuit object was used', desc, point=P_LC)
        # two models chained: d loss / d(upstream parameters) flows through the gradient w.r.t. the INPUT state of the second circuit
        qa = model.state()
        qb = mc.state(qa)
        _zero_grads(_params_of(model)[0])
        _zero_grads(_params_of(mc)[0])
        lossc = loss_of_state(qb, torch.tensor(H, dtype=torch.complex128), 'H')
        lossc.backward()
        (nA, nsA), (nB, nsB) = _params_of(model), _params_of(mc)
        gotA, gotB = flat_from_dict(nsA, _grads_now(nA)), flat_from_dict(nsB, _grads_now(nB))
        lref, grA, grB = _ref_chain(spec, {k: _np(v).copy() for k, v in nA}, {k: _np(v).copy() for k, v in nB}, H, psi0)
        if abs(lref - float(lossc.item())) <= 1e-9 * (1 + abs(lref)):
            cmp_grad(ctx, gotA, flat_from_dict(nsA, grA), 'circuit/chained/upstream-parameter-grad', 'two circuit wrappers chained: gradient of the UPSTREAM parameters',
                     P_LC, classes=coordinate_classes(spec, nsA), witness=desc)
            cmp_grad(ctx, gotB, flat_from_dict(nsB, grB), 'circuit/chained/downstream-parameter-grad', 'two circuit wrappers chained: gradient of the downstream parameters',
                     P_LC, classes=coordinate_classes(spec, nsB), witness=desc)
        else:
            ctx.inconclusive('circuit-lifecycle/chain-reference-forward-mismatch')
        # a LEAF input state that requires grad (not a Parameter); the parameters with and without that
        psi = torch.tensor(psi0, dtype=torch.complex128, requires_grad=True)
        named, names_shapes = _params_of(model)
        _zero_grads(named)
        lossp = loss_of_state(model.state(psi), torch.tensor(H, dtype=torch.complex128), 'H')
        lossp.backward()
        gp = flat_from_dict(names_shapes, _grads_now(named))
        vals = {k: _np(v).copy() for k, v in named}
        vals.update({'psi_r': psi0.real.copy(), 'psi_i': psi0.imag.copy()})
        lref, gref, _ = ref_circuit(spec, vals, H, psi0, True)
        if psi.grad is None or tuple(psi.grad.shape) != psi0.shape:
            ctx.check(False, 'circuit/input-state-grad(leaf tensor)/missing', 'no gradient was delivered to a leaf input state that requires grad', desc, point=P_LC)
        elif abs(lref - float(lossp.item())) <= 1e-9 * (1 + abs(lref)):
            cmp_grad(ctx, _np(psi.grad), gref['psi_r'] + 1j * gref['psi_i'], 'circuit/input-state-grad(leaf tensor)', 'gradient w.r.t. a leaf input state that requires grad', P_LC, witness=desc)
            ctx.close(gp, g0b, 1e-12 * (1 + np.abs(g0b).max()), 'circuit/parameter-grad-depends-on-input-requires-grad',
                      'the parameter gradient differs between an input state that requires grad and a constant one with the same values', desc, point=P_LC)
        # one parameter tensor frozen with requires_grad_(False): the others keep the right gradient, through .grad and through the bridge
        if len(named) >= 2:
            frozen_name, frozen = named[int(rng.integers(len(named)))]
            frozen.requires_grad_(False)
            try:
                lf, gf = grads(model)
                named_f, ns_f = _params_of(model)
                lref, gref, _ = ref_circuit(spec, {k: _np(v_).copy() for k, v_ in model.named_parameters()}, H, psi0, False)
                if abs(lref - lf) <= 1e-9 * (1 + abs(lref)):
                    cmp_grad(ctx, gf, flat_from_dict(ns_f, gref), 'circuit/frozen-parameter/grad-of-the-others', 'gradient of the trainable parameters while one parameter tensor is frozen',
                             P_LC, classes=coordinate_classes(spec, ns_f), witness=dict(desc, frozen=frozen_name))
                ctx.check(abs(lf - l0) <= 1e-12 * (1 + abs(l0)), 'circuit/frozen-parameter/value-changed', 'freezing a parameter tensor changed the loss value',
                          dict(desc, frozen=frozen_name), point=P_LC)
                st['closure'] = {'key': 'circuit/grad-vs-fd/frozen-parameter', 'point': P_LC, 'classes': coordinate_classes(spec, ns_f), 'tag': dict(desc, frozen=frozen_name)}
                try:
                    fv, gv = numqi.optimize.hf_model_wrapper(model)(flat_from_dict(ns_f, {k: _np(v_) for k, v_ in named_f}))
                finally:
                    st['closure'] = None
                ctx.close(gv, gf, 1e-12 * (1 + np.abs(gf).max()), 'hf_model_wrapper/frozen-parameter/flat-grad-vs-param-grad',
                          'flat gradient of the bridge with a frozen parameter tensor differs from the .grad of the trainable ones', desc, point=P_LC)
            finally:
                frozen.requires_grad_(True)


def hist_kl(ctx, numqi, st, rep):
    rng = ctx.rng
    kli = numqi.qec.knill_laflamme_inner_product
    n = int(rng.integers(1, 4))
    K = int(2**rng.integers(0, 3))
    ops = rand_op_list(rng, n)
    variant = ['leaf', 'transposed-view', 'strided-view', 'complex64'][rep % 4]
    desc = {'kind': 'kl-history', 'n': n, 'K': K, 'layout': variant, 'seq': [[(q, m.shape[0]) for q, m in s_] for s_ in ops]}
    ctx.set_case(desc)
    _count(ctx, 'history_kl_layouts', variant)
    q0 = rng.normal(size=(K, 2**n)) + 1j * rng.normal(size=(K, 2**n))
    single = variant == 'complex64'
    tol_rel = 1e3 * float(np.finfo(np.float32).eps) if single else 1e-8
    with ctx.guard('kl-history'):
        if variant == 'transposed-view':
            base = torch.tensor(q0.T.copy(), dtype=torch.complex128, requires_grad=True)
            view = lambda: base.T
            base_to_q = lambda g: _np(g).T
        elif variant == 'strided-view':
            buf = np.zeros((K, 2 * 2**n), dtype=np.complex128)
            buf[:, ::2] = q0
            base = torch.tensor(buf, dtype=torch.complex128, requires_grad=True)
            view = lambda: base[:, ::2]
            base_to_q = lambda g: _np(g)[:, ::2]
        else:
            base = torch.tensor(q0, dtype=torch.complex64 if single else torch.complex128, requires_grad=True)
            view = lambda: base
            base_to_q = lambda g: _np(g)
        q0v = _np(view()).astype(np.complex128)  # the VALUES numqi is given

        def ref_vjp(qvals, ops_, v_):
            qt = torch.tensor(qvals, dtype=R.CD, requires_grad=True)
            out = R.kl_inner_product(qt, ops_, n)
            return _np(out), _np(torch.autograd.grad(out, qt, grad_outputs=torch.tensor(v_, dtype=R.CD))[0])

        inner = kli(view(), ops)
        vv = rng.normal(size=tuple(inner.shape)) + 1j * rng.normal(size=tuple(inner.shape))
        v = torch.tensor(vv, dtype=inner.dtype)
        v0 = v.clone()
        g1 = torch.autograd.grad(inner, base, grad_outputs=v, retain_graph=True)[0]
        ctx.check(bool(torch.equal(v, v0)), 'kl/backward/mutates-cotangent-or-saved-tensors', 'the cotangent tensor handed to the Knill-Laflamme backward was modified in place',
                  {'max_change': float((v - v0).abs().max())}, point='history/kl/cotangent-reuse')
        g3 = torch.autograd.grad(inner, base, grad_outputs=v0 * 1e-9, retain_graph=True)[0]
        ctx.close(g3 * 1e9, g1, (1e-4 if single else 1e-9) * (1 + float(g1.abs().max())), 'kl/vjp-not-linear-in-cotangent(tiny cotangent)',
                  'the vector-Jacobian product with the cotangent 1e-9*v is not 1e-9 times the one with v', desc, point='history/kl/cotangent-reuse')
        g2 = torch.autograd.grad(inner, base, grad_outputs=v)[0]
        ctx.close(g2, g1, 1e-12 * (1 + float(g1.abs().max())), 'kl/history/second-vjp-with-same-cotangent-differs',
                  'two vector-Jacobian products with the same cotangent differ', desc, point='history/kl/cotangent-reuse')
        fref, gref = ref_vjp(q0v, ops, _np(v0))
        ctx.case('kl-history', n, K, q0, variant, nontrivial=float(np.abs(gref).max()) > 1e-8)
        if np.abs(fref - _np(inner)).max() <= (1e-4 if single else 1e-9) * (1 + np.abs(fref).max()):
            cmp_grad(ctx, base_to_q(g1).reshape(-1), gref.reshape(-1), 'kl/vjp-vs-autograd' + ('/layout-dependent' if variant.endswith('view') else '') + ('/complex64' if single else ''),
                     f'Knill-Laflamme vector-Jacobian product ({variant} input)', 'history/kl/cotangent-reuse', tol_rel=tol_rel, witness=desc)
        else:
            ctx.inconclusive('kl-history/reference-forward-mismatch')
        # expanded cotangent
        for kind in ('abs-sum', 'mean'):
            base.grad = None
            inner = kli(view(), ops)
            loss = torch.abs(inner.sum())**2 if kind == 'abs-sum' else inner.real.mean() + 0.5 * inner.imag.sum()
            loss.backward()
            qt = torch.tensor(q0v, dtype=R.CD, requires_grad=True)
            o2 = R.kl_inner_product(qt, ops, n)
            l2 = torch.abs(o2.sum())**2 if kind == 'abs-sum' else o2.real.mean() + 0.5 * o2.imag.sum()
            l2.backward()
            cmp_grad(ctx, base_to_q(base.grad).reshape(-1), _np(qt.grad).reshape(-1), f'kl/grad-vs-autograd/expanded-cotangent({kind})' + ('/complex64' if single else ''),
                     f'loss {kind} of the inner products', 'history/kl/expanded-cotangent', tol_rel=tol_rel, witness=desc)
        # the same tensor and the same operator arrays, modified in place, then used again
        for step in range(2):
            with torch.no_grad():
                base.mul_(0.7)
                base.add_(torch.tensor(rng.normal(size=tuple(base.shape)) + 1j * rng.normal(size=tuple(base.shape)), dtype=base.dtype) * (base != 0))
            m = ops[0][0][1]
            m[...] = rng.normal(size=m.shape) + 1j * rng.normal(size=m.shape)
            base.grad = None
            inner = kli(view(), ops)
            (inner * torch.tensor(vv, dtype=inner.dtype).conj()).real.sum().backward()
            fref, gref = ref_vjp(_np(view()).astype(np.complex128), ops, vv)
            cmp_grad(ctx, base_to_q(base.grad).reshape(-1), gref.reshape(-1), 'kl/history/stale-after-inplace-update' + ('/complex64' if single else ''),
                     'Knill-Laflamme gradient after the code-word tensor and an operator array were modified in place vs reference of the CURRENT contents',
                     'history/kl/updates', tol_rel=tol_rel, witness=dict(desc, step=step))


def _psd_values(rng, d, cplx, cls):
    """a PSD matrix (numpy values) of the given class, lambda_max ~ 1."""
    if cls == 'full':
        X = _cplx(rng, (d, d), cplx)
        return X @ X.conj().T / d + float(rng.uniform(0.05, 0.5)) * np.eye(d)
    if cls == 'degenerate':
        U = rand_unitary(rng, d) if cplx else np.linalg.qr(rng.normal(size=(d, d)))[0]
        vals = rng.uniform(0.2, 1.5, size=max(1, d // 2))
        lam = np.sort(np.concatenate([vals, rng.choice(vals, size=d - len(vals))]))
        A = (U * lam) @ U.conj().T
        return (A + A.conj().T) / 2
    if cls == 'zero-eig':
        X = _cplx(rng, (d - 1, d - 1), cplx)
        A1 = X @ X.conj().T / d + float(rng.uniform(0.05, 0.5)) * np.eye(d - 1)
        A = np.zeros((d, d), dtype=A1.dtype)
        k = int(rng.integers(d))
        idx = [i for i in range(d) if i != k]
        A[np.ix_(idx, idx)] = A1
        A[k, k] = -1e-13
        return A
    dt = np.complex128 if cplx else np.float64
    # numerical regimes: equal to an exact object only up to a small perturbation / rounding noise; nearly rank deficient
    if cls == 'near-identity':  # c*(I + eps*Hermitian), eps ~ 1e-10..1e-6
        E = _cplx(rng, (d, d), cplx)
        return (float(rng.uniform(0.3, 1.5)) * (np.eye(d) + 10.0**rng.uniform(-10, -6) * (E + E.conj().T) / 2)).astype(dt)
    if cls == 'noisy-identity':  # I (or a diagonal degenerate matrix) + dense NON-Hermitian rounding noise of size 1e-15..1e-9
        base = np.eye(d) if rng.random() < 0.5 else np.diag(np.array([[0.5, 1.25][int(i)] for i in rng.integers(0, 2, size=d)]))
        return (base + 10.0**rng.uniform(-15, -9) * _cplx(rng, (d, d), cplx)).astype(dt)
    if cls in ('near-singular', 'near-singular-log'):  # lambda_min/lambda_max ~ 1e-6..1e-3 (logm: 1e-4..1e-2), not exactly singular
        U = rand_unitary(rng, d) if cplx else np.linalg.qr(rng.normal(size=(d, d)))[0]
        lam = np.sort(rng.uniform(0.3, 1.5, size=d))
        lam[0] = lam[-1] * 10.0**(rng.uniform(-6, -3) if cls == 'near-singular' else rng.uniform(-4, -2))
        A = (U * lam) @ U.conj().T
        return ((A + A.conj().T) / 2).astype(dt)
    # exact special inputs: the identity, multiples of it, exactly diagonal, exactly degenerate (diagonal or permuted blocks)
    if cls == 'identity':
        return np.eye(d, dtype=dt)
    if cls == 'scaled-identity':
        return np.eye(d, dtype=dt) * [0.25, 0.5, 2.0, 1.5][int(rng.integers(4))]
    if cls == 'diagonal':
        return np.diag(np.sort(rng.uniform(0.1, 2.0, size=d))[::[1, -1][int(rng.integers(2))]]).astype(dt)
    if cls == 'diag-degenerate':
        vals = [0.5, 1.25, 2.0]
        return np.diag(np.array([vals[int(i)] for i in rng.integers(0, 2 if d < 4 else 3, size=d)])).astype(dt)
    if cls == 'block-degenerate':  # [[a, b], [conj b, a]] blocks with the same (a,|b|): eigenvalues a+-|b| each repeated; entries exact
        a, b = 1.0, (0.25 + 0.25j if cplx else 0.5)
        A = np.eye(d, dtype=dt) * a
        perm = rng.permutation(d)
        for i in range(0, d - 1, 2):
            A[perm[i], perm[i + 1]] = b
            A[perm[i + 1], perm[i]] = np.conj(b)
        return A
    raise KeyError(cls)


EXACT_PSD = ['identity', 'scaled-identity', 'diagonal', 'diag-degenerate', 'block-degenerate']
REGIME_PSD = ['near-identity', 'noisy-identity', 'near-singular']


def _psd_fd(ctx, fn, op, A0, Vn, g, key, what, point, cdt, witness):
    """finite differences of Re<V, op(A)> along random Hermitian directions through the public forward, against Re<g, E>."""
    rng = ctx.rng
    dirs = []
    for _ in range(4):
        E = _cplx(rng, A0.shape, np.iscomplexobj(A0))
        E = (E + np.swapaxes(E.conj(), -1, -2)) / 2
        dirs.append(E / np.abs(E).max())
    Vt = torch.tensor(Vn, dtype=cdt)

    def f(c):
        with torch.no_grad():
            A = torch.tensor(A0 + sum(ck * E for ck, E in zip(c, dirs)), dtype=cdt)
            return float((op(A) * Vt.conj()).real.sum())
    gd = np.array([float((np.conj(g) * E).real.sum()) for E in dirs])
    lam = np.linalg.eigvalsh(A0.reshape(-1, A0.shape[-1], A0.shape[-1]))
    kappa = float((1 / np.sqrt(lam[:, 0])).max() if fn == 'sqrtm' else (1 / lam[:, 0]).max())
    fd_judge(ctx, f, np.zeros(4), gd, key, what, point, kappa=max(1.0, kappa), witness=witness)


def _psd_ref_grad(fn, A, G, s, order):
    """Hermitian part of the gradient w.r.t. the (Hermitian) input, per batch item; zero-eigenvalue items: support block only."""
    d = A.shape[-1]
    An, Gn = A.reshape(-1, d, d), G.reshape(-1, d, d)
    out, masks = [], []
    for a, g in zip(An, Gn):
        a = (a + a.conj().T) / 2
        lam, V = np.linalg.eigh(a)
        supp = lam > 1e-9 * lam[-1]
        Vs, ls = V[:, supp], lam[supp]
        F = R.loewner_sqrt_repeat(ls, 1) if fn == 'sqrtm' else R.loewner_pade_log(ls, s, order)
        r = Vs @ ((Vs.conj().T @ g @ Vs) * F) @ Vs.conj().T
        out.append((r + r.conj().T) / 2)
        masks.append(Vs @ Vs.conj().T)
    return np.stack(out), np.stack(masks)


def _psd_compare(ctx, fn, got, A, G, s, order, key, what, point, tol_rel, witness):
    d = A.shape[-1]
    if tuple(got.shape) != tuple(A.shape):
        ctx.check(False, key + '/shape', f'{what}: gradient shape {tuple(got.shape)} vs input {tuple(A.shape)}', witness, point=point)
        return
    ref, Pm = _psd_ref_grad(fn, A, G, s, order)
    gn = got.reshape(-1, d, d)
    gh = (gn + gn.conj().transpose(0, 2, 1)) / 2
    gh = Pm @ gh @ Pm  # only the support block is differentiable for singular items (P = identity otherwise)
    cmp_grad(ctx, gh.reshape(-1), ref.reshape(-1), key, what, point, tol_rel=tol_rel, witness=witness)


def hist_psd(ctx, numqi, st, rep, fn):
    rng = ctx.rng
    TO = numqi._torch_op
    d = int(rng.integers(2, 5))
    cplx = bool(rng.random() < 0.6)
    bshape = [(), (3,), (2, 2)][rep % 3]
    nb = int(np.prod(bshape)) if bshape else 1
    s, order = ((6, 8) if rep % 2 == 0 else (3, 5)) if fn == 'logm' else (1, 0)
    pool = ['full', 'degenerate'] + (['zero-eig'] if fn == 'sqrtm' else []) + EXACT_PSD + (REGIME_PSD if fn == 'sqrtm' else REGIME_PSD[:2] + ['near-singular-log'])
    cdt = (torch.complex128 if cplx else torch.float64)
    used = []

    def mk():
        cl = [pool[int(rng.integers(len(pool)))] for _ in range(nb)]
        used.append(cl)
        for c_ in cl:
            _count(ctx, 'history_psd_inputs_by_class', f'{fn}/{c_}')
        return np.stack([_psd_values(rng, d, cplx, c_) for c_ in cl]).reshape(*bshape, d, d)
    desc = {'kind': f'{fn}-history', 'd': d, 'complex': cplx, 'batch': list(bshape), 'pade': [s, order] if fn == 'logm' else None}
    ctx.set_case(desc)
    op = TO.PSDMatrixSqrtm.apply if fn == 'sqrtm' else TO.get_PSDMatrixLogm(s, order)  # the lru_cached shared module instance
    key = f'{fn}'
    with ctx.guard(f'{fn}-history'):
        A0 = mk()
        A = torch.tensor(A0, dtype=cdt, requires_grad=True)  # ONE tensor object for the whole history
        F = op(A)
        Vn = _cplx(rng, tuple(F.shape), cplx)
        v = torch.tensor(Vn, dtype=F.dtype)
        v0 = v.clone()
        g1 = torch.autograd.grad(F, A, grad_outputs=v, retain_graph=True)[0]
        ctx.check(bool(torch.equal(v, v0)), f'{key}/backward/mutates-cotangent-or-saved-tensors', f'the cotangent tensor handed to the {fn} backward was modified in place',
                  {'max_change': float((v - v0).abs().max())}, point=f'history/{fn}/cotangent-reuse')
        g3 = torch.autograd.grad(F, A, grad_outputs=v0 * 1e-9, retain_graph=True)[0]
        if bool(torch.isfinite(g1).all()):
            ctx.close(g3 * 1e9, g1, 1e-9 * (1 + float(g1.abs().max())), f'{key}/vjp-not-linear-in-cotangent(tiny cotangent)',
                      'the vector-Jacobian product with the cotangent 1e-9*v is not 1e-9 times the one with v', desc, point=f'history/{fn}/cotangent-reuse')
        g2 = torch.autograd.grad(F, A, grad_outputs=v)[0]
        ctx.close(g2, g1, 1e-12 * (1 + float(g1.abs().max())), f'{key}/history/second-vjp-with-same-cotangent-differs',
                  'two vector-Jacobian products with the same cotangent differ', desc, point=f'history/{fn}/cotangent-reuse')
        ctx.case(f'{fn}-history', d, cplx, bshape, A0, Vn, nontrivial=float(g1.abs().max()) > 1e-8,
                 sample=dict(desc, grad_max=float(g1.abs().max())) if rep < 1 else None)
        _psd_compare(ctx, fn, _np(g1), A0, Vn, s, order, f'{key}/vjp-vs-reference', f'{fn} vector-Jacobian product with an explicit cotangent', f'history/{fn}/cotangent-reuse', 1e-7, desc)
        if not set(used[0]) & {'zero-eig', 'near-singular', 'near-singular-log'}:  # (a finite step would leave the PSD cone there)
            tag = '/exact-special-input' if set(used[0]) & set(EXACT_PSD) else ('/nearly-exact-input' if set(used[0]) & set(REGIME_PSD) else '')
            _psd_fd(ctx, fn, op, A0, Vn, _np(g1), f'{key}/grad-vs-fd/hermitian-directions{tag}', f'{fn}: gradient w.r.t. the input matrix along Hermitian directions',
                    f'history/{fn}/fd-hermitian', cdt, dict(desc, classes=used[0]))
        # expanded cotangent: F.sum() / F.mean()
        for kind in ('sum', 'mean'):
            A.grad = None
            F = op(A)
            loss = F.sum().real if kind == 'sum' else F.real.mean()
            loss.backward()
            G = np.ones(A0.shape) * (1.0 if kind == 'sum' else 1.0 / A0.size)
            _psd_compare(ctx, fn, _np(A.grad), A0, G.astype(A0.dtype), s, order, f'{key}/grad-vs-reference/expanded-cotangent({kind})',
                         f'{fn}: loss F.{kind}()', f'history/{fn}/expanded-cotangent', 1e-7, desc)
        # the same input tensor modified in place and used again; the result of the previous call edited in between
        first = None
        for step in range(3):
            A1 = A0 if step == 2 else mk()
            with torch.no_grad():
                A.copy_(torch.tensor(A1, dtype=cdt))
            Fprev = op(A)
            Fprev.detach().zero_()  # edit the RESULT of a call in place, then call again
            A.grad = None
            F = op(A)
            with torch.no_grad():
                Fr = R.funm_eigh(torch.tensor((A1 + np.swapaxes(A1.conj(), -1, -2)) / 2), (lambda x: torch.sqrt(torch.clamp(x, min=0))) if fn == 'sqrtm'
                                 else (lambda x: R.pade_log_scalar(x, s, order)))
            ctx.close(F.detach(), Fr, 1e-8 * (1 + float(Fr.abs().max())), f'{key}/history/forward-stale-after-inplace-update',
                      f'{fn} forward on a tensor modified in place (and after the previous result was edited) differs from the reference of the CURRENT contents',
                      dict(desc, step=step), point=f'history/{fn}/updates')
            (F * v0.conj()).real.sum().backward()
            _psd_compare(ctx, fn, _np(A.grad), A1, Vn, s, order, f'{key}/history/stale-after-inplace-update',
                         f'{fn} gradient on a tensor modified in place vs reference of the CURRENT contents', f'history/{fn}/updates', 1e-7, dict(desc, step=step))
            if step == 2:
                ctx.close(A.grad, g1, 1e-12 * (1 + float(g1.abs().max())), f'{key}/history/repeat-differs',
                          'the first input evaluated again at the end of the history gives a different gradient', desc, point=f'history/{fn}/updates')


def layout_psd(ctx, numqi, st, rep, fn):
    """non-contiguous / transposed / conjugate-view / single-precision inputs: the result depends on the VALUES only."""
    rng = ctx.rng
    TO = numqi._torch_op
    d = int(rng.integers(2, 5))
    cplx = bool(rep % 3 != 0)
    bshape = [(), (2, 3)][rep % 2]
    nb = int(np.prod(bshape)) if bshape else 1
    s, order = (6, 8) if fn == 'logm' else (1, 0)
    op = TO.PSDMatrixSqrtm.apply if fn == 'sqrtm' else TO.PSDMatrixLogm(s, order)
    cls = 'degenerate' if rep % 4 == 3 else 'full'
    A0 = np.stack([_psd_values(rng, d, cplx, cls) for _ in range(nb)]).reshape(*bshape, d, d)
    Vn = _cplx(rng, A0.shape, cplx)
    cdt = torch.complex128 if cplx else torch.float64
    variants = {
        'contiguous': lambda A: A,
        'transposed-view': lambda A: A.mT.contiguous().mT,                       # same values, column-major strides
        'conj-transpose-view': lambda A: A.mT.conj(),                           # A^H = A up to rounding; lazy conjugate bit for complex
        'strided-view': lambda A: torch.stack([A, torch.zeros_like(A)], dim=-1)[..., 0],
    }
    if bshape:
        variants['permuted-batch'] = lambda A: A.permute(1, 0, 2, 3).contiguous().permute(1, 0, 2, 3)
    desc = {'kind': f'{fn}-layout', 'd': d, 'complex': cplx, 'batch': list(bshape), 'class': cls}
    ctx.set_case(desc)
    results = {}
    for name, tf in variants.items():
        with ctx.guard(f'{fn}-layout/{name}'):
            _count(ctx, 'psd_layout_variants', f'{fn}/{name}')
            A = torch.tensor(A0, dtype=cdt, requires_grad=True)
            Ain = tf(A)
            F = op(Ain)
            # cotangent arriving as a transposed (non-contiguous) view as well
            loss = (F.mT * torch.tensor(np.swapaxes(Vn, -1, -2), dtype=F.dtype).conj()).real.sum() if name != 'contiguous' else (F * torch.tensor(Vn, dtype=F.dtype).conj()).real.sum()
            loss.backward()
            g = _np(A.grad)
            if name == 'conj-transpose-view':  # d/dA of f(A^H): the Hermitian part is what is determined
                g = np.swapaxes(g.conj(), -1, -2)
            results[name] = g
            _psd_compare(ctx, fn, g, A0, Vn, s, order, f'{fn}/grad-vs-reference/layout({name})', f'{fn} gradient for a {name} input', f'layout/{fn}', 1e-7, desc)
            if name != 'contiguous' and 'contiguous' in results:
                gh = lambda x: (x + np.swapaxes(x.conj(), -1, -2)) / 2
                ctx.close(gh(g), gh(results['contiguous']), 1e-9 * (1 + np.abs(g).max()), f'{fn}/layout-dependent',
                          f'{fn} gradient (Hermitian part) for a {name} input differs from the contiguous input with the same values', dict(desc, layout=name), point=f'layout/{fn}')
    ctx.case(f'{fn}-layout', d, cplx, bshape, A0, Vn, nontrivial=True)
    # single precision, where the Function supports it: tolerances scale with eps(float32); threshold 1e-2
    with ctx.guard(f'{fn}-float32'):
        sdt = torch.complex64 if cplx else torch.float32
        A32v = _np(torch.tensor(A0, dtype=sdt))  # the float32 VALUES
        A = torch.tensor(A32v, dtype=sdt, requires_grad=True)
        F = op(A)
        (F * torch.tensor(Vn, dtype=F.dtype).conj()).real.sum().backward()
        lam = np.linalg.eigvalsh(A32v.astype(np.complex128 if cplx else np.float64).reshape(-1, d, d))
        kappa = float((lam[:, -1] / lam[:, 0]).max())
        tol = 1e3 * float(np.finfo(np.float32).eps) * kappa**(1.0 if fn == 'sqrtm' else 1.5)
        _count(ctx, 'psd_layout_variants', f'{fn}/{"complex64" if cplx else "float32"}')
        if A.grad is None or A.grad.dtype != sdt:
            ctx.check(False, f'{fn}/single-precision/grad-dtype', 'gradient of a single-precision input must exist and have the input dtype',
                      {'dtype': repr(None if A.grad is None else A.grad.dtype)}, point=f'dtype/{fn}')
        elif tol > 1e-2:
            ctx.inconclusive(f'{fn}/single-precision-ill-conditioned')
        else:
            _psd_compare(ctx, fn, _np(A.grad).astype(A0.dtype), A32v.astype(A0.dtype), Vn, s, order, f'{fn}/grad-vs-reference/single-precision',
                         f'{fn} gradient for a {"complex64" if cplx else "float32"} input', f'dtype/{fn}', tol, desc)


def order_psd(ctx, numqi, st, fn):
    """call order inside ONE process: mixed-rank batch before/after full-rank batches and un-batched calls; batched == per item."""
    rng = ctx.rng
    TO = numqi._torch_op
    d, cplx = 3, True
    s, order = (6, 8) if fn == 'logm' else (1, 0)
    op = TO.PSDMatrixSqrtm.apply if fn == 'sqrtm' else TO.get_PSDMatrixLogm(s, order)
    mixed_cls = ['full', 'zero-eig', 'degenerate'] if fn == 'sqrtm' else ['full', 'degenerate', 'full']
    configs = {
        'mixed-batch': np.stack([_psd_values(rng, d, cplx, c) for c in mixed_cls]),
        'full-batch': np.stack([_psd_values(rng, d, cplx, 'full') for _ in range(3)]),
        'single-full': _psd_values(rng, d, cplx, 'full'),
        'single-special': _psd_values(rng, d, cplx, mixed_cls[1]),
        'batch-2x2': np.stack([_psd_values(rng, d, cplx, 'full') for _ in range(4)]).reshape(2, 2, d, d),
        'identity': _psd_values(rng, d, cplx, 'identity'),
        'exact-batch': np.stack([_psd_values(rng, d, cplx, c) for c in ('identity', 'diag-degenerate', 'diagonal', 'block-degenerate')]),
    }
    V = {k: _cplx(rng, v.shape, cplx) for k, v in configs.items()}

    def grad_of(name, A0=None, Vn=None):
        A0 = configs[name] if A0 is None else A0
        Vn = V[name] if Vn is None else Vn
        A = torch.tensor(A0, dtype=torch.complex128, requires_grad=True)
        (op(A) * torch.tensor(Vn).conj()).real.sum().backward()
        return _np(A.grad)

    names = list(configs)
    orders = [names, names[::-1], [names[i] for i in (2, 5, 0, 4, 6, 1, 3)]]
    first = {}
    for oi, seq in enumerate(orders):
        for name in seq + [seq[0]]:  # one configuration repeated at the end
            ctx.set_case({'kind': f'{fn}-order', 'order': seq, 'config': name})
            with ctx.guard(f'{fn}-order'):
                g = grad_of(name)
                _psd_compare(ctx, fn, g, configs[name], V[name], s, order, f'{fn}/grad-vs-reference/call-order', f'{fn} gradient of configuration {name} in call order {oi}',
                             f'order/{fn}', 1e-7, {'order': seq, 'config': name})
                if name in first:
                    Pm = _psd_ref_grad(fn, configs[name], V[name], s, order)[1].reshape(g.shape)
                    ctx.close(Pm @ g @ Pm, Pm @ first[name] @ Pm, 1e-10 * (1 + np.abs(first[name]).max()), f'{fn}/history/order-dependent',
                              f'{fn} gradient of the same input depends on which calls were made before it', {'order': seq, 'config': name}, point=f'order/{fn}')
                else:
                    first[name] = g
                ctx.case(f'{fn}-order', oi, name, configs[name], nontrivial=True)
    # batched call == the same items one by one (relational clause)
    with ctx.guard(f'{fn}-batched-vs-single'):
        gb = first['mixed-batch']
        for i in range(3):
            gi = grad_of(None, configs['mixed-batch'][i], V['mixed-batch'][i])
            Pm = _psd_ref_grad(fn, configs['mixed-batch'][i], V['mixed-batch'][i], s, order)[1][0]
            ctx.close(Pm @ gb[i] @ Pm, Pm @ gi @ Pm, 1e-9 * (1 + np.abs(gi).max()), f'{fn}/batched-vs-unbatched',
                      f'{fn} gradient of a batch member differs from the gradient of the same matrix processed alone',
                      {'member': i, 'class': mixed_cls[i]}, point=f'order/{fn}')


def order_circuit(ctx, numqi, st):
    """the same programs differentiated in different orders (qubit counts 4..1 and back) in ONE process, one repeated at the end."""
    rng = ctx.rng
    items = []
    for n in (4, 1, 3, 2):
        while True:
            spec = gen_program(rng, nmin=n, nmax=n, lmax=8)
            if spec['n'] == n and any(op.get('p') and op['p'][0] == 'theta' for op in spec['prog']):
                break
        items.append(_hist_spec_from(rng, spec))
    first = {}
    for oi, seq in enumerate([[0, 1, 2, 3], [3, 2, 1, 0], [1, 3, 0, 2]]):
        for i in seq + [seq[0]]:
            spec, H, psi0, P_init = items[i]
            desc = {'kind': 'circuit-order', 'order': seq, 'item': i, 'n': spec['n'], 'program': spec['prog']}
            ctx.set_case(desc)
            with ctx.guard('circuit-order'):
                model = make_circuit_model(numqi, spec, H, psi0, P_init, True)
                named, names_shapes = _params_of(model)
                loss = model()
                loss.backward()
                got = flat_from_dict(names_shapes, _grads_now(named))
                lref, gref, _ = _ref_at(model, spec, H, psi0, True)
                cmp_grad(ctx, got, gref, 'circuit/grad-vs-autograd/call-order', 'circuit gradient in a varied call order', 'order/circuit',
                         classes=coordinate_classes(spec, names_shapes), witness=desc)
                if i in first:
                    ctx.close(got, first[i], 1e-12 * (1 + np.abs(got).max()), 'circuit/history/order-dependent',
                              'circuit gradient of the same program depends on which circuits were differentiated before it', desc, point='order/circuit')
                else:
                    first[i] = got
                ctx.case('circuit-order', oi, i, spec['prog'], nontrivial=float(np.abs(got).max()) > 1e-8)


def _hist_spec_from(rng, spec):
    N = 2**spec['n']
    H = rng.normal(size=(N, N)) + 1j * rng.normal(size=(N, N))
    H = (H + H.conj().T) / 2
    psi0 = rng.normal(size=N) + 1j * rng.normal(size=N)
    psi0 /= np.linalg.norm(psi0)
    keys = sorted({op['p'][1] for op in spec['prog'] if op.get('p') and op['p'][0] == 'P'})
    return spec, H, psi0, {k: rng.uniform(0, 2 * np.pi, size=PSHAPES[k]) for k in keys}


def run_history(ctx, numqi, st, shard):
    ctx.workload('corner', 1)
    st['adam'] = bool(shard.get('adam', False))
    what = shard.get('what', 'all')
    for rep in range(shard['n']):
        if what in ('all', 'circuit'):
            ctx.workload('random')
            hist_circuit(ctx, numqi, st, rep)
            if rep % 2 == 0:
                lifecycle_circuit(ctx, numqi, st, rep // 2)
        if what in ('all', 'matrix'):
            ctx.workload('random', 5)
            hist_kl(ctx, numqi, st, rep)
            for fn in ('sqrtm', 'logm'):
                hist_psd(ctx, numqi, st, rep, fn)
                layout_psd(ctx, numqi, st, rep, fn)
    if what in ('all', 'matrix'):
        for fn in ('sqrtm', 'logm'):
            order_psd(ctx, numqi, st, fn)
        api_surface_matrix(ctx, numqi, st)
    if what in ('all', 'circuit'):
        order_circuit(ctx, numqi, st)
        api_surface_circuit(ctx, numqi, st)


# =================================================================================================== API surface
# parameter order of the shipped public entry points (the specification for positional calls)
SIG_MINIMIZE = ['model', 'theta0', 'num_repeat', 'tol', 'print_freq', 'method', 'print_every_round', 'maxiter', 'early_stop_threshold', 'callback', 'seed']
SIG_PGATE = ['index', 'args', 'name', 'requires_grad']                       # Circuit.rx / ry / rz / u3 / rzz
SIG_CPGATE = ['control_qubit', 'target_qubit', 'args', 'name', 'requires_grad']  # Circuit.crx / cry / crz / cu3
SIG_RULE = ['q0_conj', 'q0_grad', 'op', 'index', 'tag_op_grad']
SIG_CRULE = ['q0_conj', 'q0_grad', 'op', 'ind_control_set', 'ind_target', 'tag_op_grad']


def _same_result(ctx, a, b, key, what, witness, tol=1e-12):
    fa = np.concatenate([np.asarray(_np(x), dtype=np.complex128).reshape(-1) for x in a])
    fb = np.concatenate([np.asarray(_np(x), dtype=np.complex128).reshape(-1) for x in b])
    return ctx.close(fa, fb, tol * (1 + (np.abs(fb).max() if fb.size else 0)), key, what, witness, point='api/positional-vs-keyword')


def api_surface_circuit(ctx, numqi, st):
    """every documented way of calling the circuit-side entry points gives the same gradient (and the reference one)."""
    rng = ctx.rng
    ctx.workload('corner', 1)
    n = 3
    N = 2**n
    H = rng.normal(size=(N, N)) + 1j * rng.normal(size=(N, N))
    H = (H + H.conj().T) / 2
    psi0 = rng.normal(size=N) + 1j * rng.normal(size=N)
    psi0 /= np.linalg.norm(psi0)
    a = [float(x) for x in rng.uniform(0, 2 * np.pi, size=8)]
    prog = [{'g': 'rx', 'tgt': [0], 'ctrl': [], 'p': ['theta', 'rx', 0]}, {'g': 'u3', 'tgt': [2], 'ctrl': [], 'p': ['theta', 'u3', 0]},
            {'g': 'rzz', 'tgt': [2, 0], 'ctrl': [], 'p': ['theta', 'rzz', 0]}, {'g': 'X', 'tgt': [1], 'ctrl': [0]},
            {'g': 'crx', 'tgt': [1], 'ctrl': [2], 'p': ['theta', 'crx', 0]}, {'g': 'cu3', 'tgt': [0], 'ctrl': [1, 2], 'p': ['theta', 'cu3', 0]}]
    theta = {'rx': [[a[0]]], 'u3': [a[1:4]], 'rzz': [[a[4]]], 'crx': [[a[5]]], 'cu3': [[a[6], a[7], a[0]]]}
    spec = {'n': n, 'prog': prog, 'mats': {}, 'theta': theta, 'features': [], 'special': None}
    i64, f64 = np.int64, np.float64

    def build(form):
        c = numqi.sim.Circuit(default_requires_grad=True)
        if form == 'positional':
            c.rx(0, a[0], 'rx', True); c.u3(2, tuple(a[1:4]), 'u3', True); c.rzz((2, 0), a[4], 'rzz', True); c.cnot(0, 1)
            c.crx(2, 1, a[5], 'crx', True); c.cu3((1, 2), 0, (a[6], a[7], a[0]), 'cu3', True)
        elif form == 'keyword':
            c.rx(index=0, args=a[0], name='rx', requires_grad=True); c.u3(requires_grad=True, name='u3', args=tuple(a[1:4]), index=2)
            c.rzz(args=a[4], index=(2, 0)); c.cnot(control_qubit=0, target_qubit=1)
            c.crx(control_qubit=2, target_qubit=1, args=a[5], name='crx', requires_grad=True)
            c.cu3(target_qubit=0, control_qubit=(1, 2), args=(a[6], a[7], a[0]))
        elif form == 'numpy-scalars':
            c.rx(i64(0), f64(a[0])); c.u3(i64(2), np.array(a[1:4])); c.rzz(np.array([2, 0]), f64(a[4])); c.cx(i64(0), i64(1))
            c.crx(i64(2), i64(1), f64(a[5])); c.cu3(np.array([1, 2]), i64(0), np.array([a[6], a[7], a[0]]))
        elif form == 'sequences':
            c.rx((0,), (a[0],)); c.u3([2], list(a[1:4])); c.rzz([2, 0], [a[4]]); c.cx((0,), (1,))
            c.crx([2], [1], [a[5]]); c.cu3({2, 1}, (0,), [a[6], a[7], a[0]])
        elif form == 'defaults-then-bridge':  # gates built with args=None, values supplied through the flat-parameter bridge
            c.rx(0); c.u3(2); c.rzz((2, 0)); c.cnot(0, 1); c.crx(2, 1); c.cu3((1, 2), 0)
        return c

    class M(torch.nn.Module):
        def __init__(self, circ):
            super().__init__()
            self.circuit_torch = numqi.sim.CircuitTorchWrapper(circ)
            self.H = torch.tensor(H)
            self.psi0 = torch.tensor(psi0)

        def forward(self):
            q = self.circuit_torch(self.psi0)
            return torch.vdot(q, self.H @ q).real

    results = {}
    for form in ('positional', 'keyword', 'numpy-scalars', 'sequences', 'defaults-then-bridge'):
        ctx.set_case({'kind': 'api-circuit', 'form': form})
        with ctx.guard(f'api/circuit-{form}'):
            model = M(build(form))
            named, names_shapes = _params_of(model)
            hf = numqi.optimize.hf_model_wrapper(model) if form != 'keyword' else numqi.optimize.hf_model_wrapper(model=model)
            flat = flat_from_dict(names_shapes, {'circuit_torch.theta.' + k: np.array(v) for k, v in theta.items()})
            r0 = hf(flat)
            r1 = hf(flat, True)
            r2 = hf(flat, tag_grad=True)
            r3 = hf(flat, np.True_)
            f0 = hf(flat, False)
            f1 = hf(flat, tag_grad=False)
            _same_result(ctx, [r1[0], r1[1], r2[0], r2[1], r3[0], r3[1]], [r0[0], r0[1]] * 3, 'hf_model_wrapper/closure/explicit-default-differs',
                         'closure(theta) differs from closure(theta, True) / closure(theta, tag_grad=True) / closure(theta, np.True_)', form)
            _same_result(ctx, [f0, f1], [r0[0], r0[0]], 'hf_model_wrapper/closure/positional-call-differs-from-keyword-call',
                         'closure(theta, False) / closure(theta, tag_grad=False) differ from the value returned with the gradient', form)
            results[form] = r0
            lref, gref, _ = ref_circuit(spec, dict_from_flat(names_shapes, flat), H, psi0, False)
            cmp_grad(ctx, r0[1], flat_from_dict(names_shapes, gref), f'circuit/grad-vs-autograd/api-form({form})', f'circuit built through the {form} API form',
                     'api/circuit-forms', classes=coordinate_classes(spec, names_shapes), witness=form)
            ctx.case('api-circuit', form, a, nontrivial=True)
    for form, r in results.items():
        if form != 'positional' and 'positional' in results:
            key = 'Circuit.gate/positional-call-differs-from-keyword-call' if form == 'keyword' else f'Circuit.gate/argument-form-dependent({form})'
            _same_result(ctx, [r[0], r[1]], list(results['positional']), key, f'the circuit built through the {form} form gives a different (loss, gradient)', form)
    # Circuit.extend_circuit: the gates of the sub-circuit are RE-USED (shared parameters) every time it is appended
    ctx.set_case({'kind': 'api-extend-circuit'})
    with ctx.guard('api/extend-circuit'):
        sub = numqi.sim.Circuit(default_requires_grad=True)
        sub.ry(0, a[0]); sub.crx(0, 1, a[5]); sub.rzz((2, 1), a[4])
        c = numqi.sim.Circuit(default_requires_grad=True)
        c.extend_circuit(sub); c.cnot(1, 2); c.u3(2, tuple(a[1:4])); c.extend_circuit(sub); c.H(0); c.extend_circuit(circ0=sub)
        e_prog, e_theta = [], {'ry': [[a[0]]], 'crx': [[a[5]]], 'rzz': [[a[4]]], 'u3': [a[1:4]]}
        blk = [{'g': 'ry', 'tgt': [0], 'ctrl': [], 'p': ['theta', 'ry', 0]}, {'g': 'crx', 'tgt': [1], 'ctrl': [0], 'p': ['theta', 'crx', 0]},
               {'g': 'rzz', 'tgt': [2, 1], 'ctrl': [], 'p': ['theta', 'rzz', 0]}]
        e_prog = blk + [{'g': 'X', 'tgt': [2], 'ctrl': [1]}, {'g': 'u3', 'tgt': [2], 'ctrl': [], 'p': ['theta', 'u3', 0]}] + [dict(o) for o in blk] + [{'g': 'H', 'tgt': [0], 'ctrl': []}] + [dict(o) for o in blk]
        e_spec = {'n': n, 'prog': e_prog, 'mats': {}, 'theta': e_theta, 'features': [], 'special': None}
        model = M(c)
        named, names_shapes = _params_of(model)
        flat = rng.uniform(0, 2 * np.pi, size=sum(int(np.prod(sh)) for _, sh in names_shapes))
        st['closure'] = {'key': 'circuit/grad-vs-fd/extend_circuit', 'point': 'api/circuit-forms', 'tag': 'extend_circuit'}
        try:
            hf = numqi.optimize.hf_model_wrapper(model)
            fv, gv = hf(flat)
        finally:
            st['closure'] = None
        ok_layout = [k for k, _ in names_shapes] == ['circuit_torch.theta.' + k for k in sorted(e_theta)] and all(int(np.prod(sh)) == len(e_theta[k[len('circuit_torch.theta.'):]][0]) for k, sh in names_shapes)
        if ctx.check(ok_layout, 'Circuit.extend_circuit/parameters-not-shared', 'a sub-circuit appended three times must contribute ONE parameter row per trainable gate',
                     {'parameters': [[k, list(sh)] for k, sh in names_shapes]}, point='api/circuit-forms'):
            lref, gref, _ = ref_circuit(e_spec, dict_from_flat(names_shapes, flat), H, psi0, False)
            if abs(lref - fv) <= 1e-9 * (1 + abs(lref)):
                cmp_grad(ctx, gv, flat_from_dict(names_shapes, gref), 'circuit/grad-vs-autograd/extend_circuit(shared parameters)', 'circuit built with extend_circuit (gates re-used three times)',
                         'api/circuit-forms', witness='extend_circuit')
            else:
                ctx.inconclusive('api/extend-circuit/reference-forward-mismatch')
        ctx.case('api-extend-circuit', flat, nontrivial=True)
        # less prominent consumers of the bridge: get_model_flat_grad / get_model_flat_parameter / check_model_gradient / minimize_adam
        OI = numqi.optimize._internal
        _same_result(ctx, [OI.get_model_flat_grad(model), OI.get_model_flat_parameter(model)], [gv, flat], 'get_model_flat_grad/differs-from-closure-gradient',
                     'get_model_flat_grad / get_model_flat_parameter after closure(theta) differ from the returned gradient / theta', 'extend_circuit')
        try:
            numqi.optimize.check_model_gradient(model, tol=1e-5, zero_eps=1e-4, seed=int(rng.integers(2**31)))
            ctx.check(True, 'check_model_gradient/asserts-on-a-correct-model', '', None, point='api/circuit-forms')
        except AssertionError:
            ctx.check(False, 'check_model_gradient/asserts-on-a-correct-model', "numqi's own gradient check (tol 1e-5, step 1e-4) rejects the gradient of a unitary-gate circuit model",
                      'extend_circuit', point='api/circuit-forms')
        # Adam / SGD drive loss.backward() directly (no bridge): the backward postconditions judge every step
        before = ctx.hits.get('_CircuitFunction.backward', 0)
        for oa in ((('adam', 0.05), ('sgd', 0.05, 0.01)) if st.get('adam') else ()):  # (thorough only: the first optimizer.step costs ~5 s of torch imports)
            numqi.optimize.minimize_adam(model, 3, theta0=('uniform', 0, 2 * np.pi), optim_args=oa, seed=int(rng.integers(2**31)), tqdm_update_freq=0)
        _count(ctx, 'minimize_adam_backward_calls_observed', 'circuit', ctx.hits.get('_CircuitFunction.backward', 0) - before)
    # numqi.optimize.minimize: positional in the shipped order vs keywords (same start, same seed)
    ctx.set_case({'kind': 'api-minimize'})
    with ctx.guard('api/minimize'):
        st['every'] = 4
        try:
            m1, m2 = M(build('positional')), M(build('positional'))
            t0 = np.array([0.3 + 0.1 * i for i in range(9)])
            r_pos = numqi.optimize.minimize(m1, t0, 1, 1e-10, 0, 'L-BFGS-B', 0, 4, None, None, 11)
            r_kw = numqi.optimize.minimize(model=m2, theta0=t0, num_repeat=1, tol=1e-10, print_freq=0, method='L-BFGS-B', print_every_round=0, maxiter=4,
                                           early_stop_threshold=None, callback=None, seed=11)
            _same_result(ctx, [r_pos.x, r_pos.fun], [r_kw.x, r_kw.fun], 'minimize/positional-call-differs-from-keyword-call',
                         'numqi.optimize.minimize called positionally (shipped parameter order) and with keywords give different results', SIG_MINIMIZE)
        finally:
            st['every'] = 1
    # the per-gate adjoint rules: positional / keyword / flag and index types, and the reference vector-Jacobian product
    S = numqi.sim.state
    for ctrl in ((), (2,), (0, 2)):
        ctx.set_case({'kind': 'api-rule', 'controls': list(ctrl)})
        with ctx.guard('api/adjoint-rule'):
            tg = (1,) if ctrl else (3, 1)
            nq = 4
            op = rand_unitary(rng, 2**len(tg))
            qout = rng.normal(size=2**nq) + 1j * rng.normal(size=2**nq)
            gq = rng.normal(size=2**nq) + 1j * rng.normal(size=2**nq)
            if ctrl:
                base = S.apply_control_n_gate_grad(qout.conj(), gq, op, set(ctrl), tg, True)
                forms = {'keyword': lambda: S.apply_control_n_gate_grad(q0_conj=qout.conj(), q0_grad=gq, op=op, ind_control_set=set(ctrl), ind_target=tg, tag_op_grad=True),
                         'default-flag': lambda: S.apply_control_n_gate_grad(qout.conj(), gq, op, set(ctrl), tg),
                         'numpy-flag-list-index': lambda: S.apply_control_n_gate_grad(qout.conj(), gq, op, list(ctrl), list(tg), np.True_),
                         'tuple-controls-int-target': lambda: S.apply_control_n_gate_grad(qout.conj(), gq, op, tuple(ctrl) if len(ctrl) > 1 else ctrl[0], tg[0], 1)}
            else:
                base = S.apply_gate_grad(qout.conj(), gq, op, tg, True)
                forms = {'keyword': lambda: S.apply_gate_grad(q0_conj=qout.conj(), q0_grad=gq, op=op, index=tg, tag_op_grad=True),
                         'default-flag': lambda: S.apply_gate_grad(qout.conj(), gq, op, tg),
                         'numpy-flag-list-index': lambda: S.apply_gate_grad(qout.conj(), gq, op, [np.int64(t) for t in tg], np.True_)}
            for name, fcall in forms.items():
                _same_result(ctx, list(fcall()), list(base), ('apply_control_n_gate_grad' if ctrl else 'apply_gate_grad') +
                             ('/positional-call-differs-from-keyword-call' if name == 'keyword' else f'/argument-form-dependent({name})'),
                             f'adjoint rule called in the {name} form differs from the positional call', {'controls': list(ctrl), 'targets': list(tg)})
            opt = torch.tensor(op, requires_grad=True)
            E = R.embed(opt, tg, nq, ctrl)
            qin = torch.linalg.solve(E.detach(), torch.tensor(qout))
            qin_t = qin.clone().requires_grad_()
            out = E @ qin_t
            ref_op, ref_q = torch.autograd.grad(out, [opt, qin_t], grad_outputs=torch.tensor(gq))
            _same_result(ctx, [base[0], base[1], base[2]], [qin.conj(), ref_q, ref_op], ('apply_control_n_gate_grad' if ctrl else 'apply_gate_grad') + '/vs-reference-vjp',
                         'adjoint rule differs from the vector-Jacobian product of the dense embedded operator', {'controls': list(ctrl), 'targets': list(tg)}, tol=1e-10)
            ctx.case('api-rule', ctrl, tg, op, nontrivial=True)


def api_surface_matrix(ctx, numqi, st):
    rng = ctx.rng
    ctx.workload('corner', 1)
    TO = numqi._torch_op
    d = 3
    A0 = _psd_values(rng, d, True, 'full')
    Vn = _cplx(rng, (d, d), True)

    def grad_with(op):
        A = torch.tensor(A0, requires_grad=True)
        F = op(A)
        (F * torch.tensor(Vn).conj()).real.sum().backward()
        return [F.detach(), A.grad]
    ctx.set_case({'kind': 'api-logm'})
    with ctx.guard('api/logm'):
        base = grad_with(TO.PSDMatrixLogm(6, 8))
        for name, op in {'PSDMatrixLogm(keywords)': TO.PSDMatrixLogm(num_sqrtm=6, pade_order=8), 'PSDMatrixLogm(explicit device)': TO.PSDMatrixLogm(6, 8, 'cpu'),
                         'get_PSDMatrixLogm(positional)': TO.get_PSDMatrixLogm(6, 8), 'get_PSDMatrixLogm(keywords)': TO.get_PSDMatrixLogm(num_sqrtm=6, pade_order=8),
                         'get_PSDMatrixLogm(numpy ints)': TO.get_PSDMatrixLogm(np.int64(6), np.int64(8))}.items():
            _same_result(ctx, grad_with(op), base, 'PSDMatrixLogm/positional-call-differs-from-keyword-call', f'{name} differs from PSDMatrixLogm(6, 8)', name)
        _psd_compare(ctx, 'logm', _np(base[1]), A0, Vn, 6, 8, 'logm/vjp-vs-reference', 'PSDMatrixLogm(6,8) gradient', 'api/positional-vs-keyword', 1e-7, 'api')
        import copy
        m0 = TO.PSDMatrixLogm(6, 8)
        m1 = copy.deepcopy(m0)
        grad_with(TO.PSDMatrixLogm(3, 5))  # another instance used in between
        _same_result(ctx, grad_with(m1), base, 'PSDMatrixLogm/deepcopy-differs', 'copy.deepcopy(PSDMatrixLogm(6, 8)) differs from the original', 'deepcopy')
        _same_result(ctx, grad_with(m0), base, 'PSDMatrixLogm/instance-changed-after-other-instances-were-used', 'PSDMatrixLogm(6, 8) differs after its copy and a (3,5) instance were used', 'deepcopy')
        try:  # the module builds torch.eye with the DEFAULT dtype: the gradient of a complex128 input must not depend on it
            torch.set_default_dtype(torch.float64)
            r64 = grad_with(TO.PSDMatrixLogm(6, 8))
        finally:
            torch.set_default_dtype(torch.float32)
        _same_result(ctx, r64, base, 'PSDMatrixLogm/depends-on-default-dtype', 'PSDMatrixLogm gradient of a complex128 input under torch default dtype float64 vs float32', 'default-dtype', tol=1e-10)
    ctx.set_case({'kind': 'api-entropy'})
    with ctx.guard('api/entropy'):
        U = numqi.utils
        rho0 = rand_dm(rng, d, mix=0.2)
        sig0 = rand_dm(rng, d, mix=0.2)

        def ent(call):
            r = torch.tensor(rho0, requires_grad=True)
            s_ = torch.tensor(sig0, requires_grad=True)
            v = call(r, s_)
            v.backward()
            return [v.detach(), torch.zeros_like(r) if r.grad is None else r.grad, torch.zeros_like(s_) if s_.grad is None else s_.grad]
        b = ent(lambda r, s_: U.get_relative_entropy(r, s_, None, ('pade', 6, 8)))
        _same_result(ctx, ent(lambda r, s_: U.get_relative_entropy(rho=r, sigma=s_, tr_rho_log_rho=None, _torch_logm=('pade', 6, 8))), b,
                     'get_relative_entropy/positional-call-differs-from-keyword-call', 'keyword call differs from positional call', 'api')
        _same_result(ctx, ent(lambda r, s_: U.get_relative_entropy(r, s_)), b, 'get_relative_entropy/explicit-default-differs',
                     "get_relative_entropy(rho, sigma) differs from the call with the defaults (None, ('pade',6,8)) passed explicitly", 'api')
        b = ent(lambda r, s_: U.get_von_neumann_entropy(r, ('pade', 6, 8)))
        _same_result(ctx, ent(lambda r, s_: U.get_von_neumann_entropy(rho=r, _torch_logm=('pade', 6, 8))), b,
                     'get_von_neumann_entropy/positional-call-differs-from-keyword-call', 'keyword call differs from positional call', 'api')
    # VarQEC / VarQECUnitary constructors
    ctx.set_case({'kind': 'api-varqec'})
    with ctx.guard('api/varqec'):
        ops = numqi.qec.make_error_list(3, 2)

        def mk_circ():
            c = numqi.sim.Circuit(default_requires_grad=True)
            for x in range(3):
                c.u3(x)
            for x in range(3):
                c.cu3(x, (x + 1) % 3)
            return c
        theta = rng.uniform(0, 2 * np.pi, size=18)
        for K in (2, 3):
            r_pos = numqi.optimize.hf_model_wrapper(numqi.qec.VarQEC(mk_circ(), K, ops, 'L1'))(theta)
            r_kw = numqi.optimize.hf_model_wrapper(numqi.qec.VarQEC(circuit=mk_circ(), num_logical_dim=K, error_list=ops, loss_type='L1'))(theta)
            _same_result(ctx, list(r_kw), list(r_pos), 'VarQEC/positional-call-differs-from-keyword-call', 'VarQEC built positionally and with keywords differ', K)
            r_def = numqi.optimize.hf_model_wrapper(numqi.qec.VarQEC(mk_circ(), K, ops))(theta)
            r_l2 = numqi.optimize.hf_model_wrapper(numqi.qec.VarQEC(mk_circ(), K, ops, 'L2'))(theta)
            _same_result(ctx, list(r_def), list(r_l2), 'VarQEC/explicit-default-differs', "VarQEC(..., loss_type='L2') differs from the default", K)
            mu1, mu2 = numqi.qec.VarQECUnitary(3, K, ops, 'L1'), numqi.qec.VarQECUnitary(num_qubit=3, num_logical_dim=K, error_list=ops, loss_type='L1')
            th = rng.uniform(-1, 1, size=sum(int(np.prod(v.shape)) for _, v in sorted_named(mu1)))
            st['closure'] = {'key': 'varqec-unitary/grad-vs-fd', 'point': 'varqec/grad-vs-fd', 'kappa': 10.0, 'tag': 'api'}
            try:
                _same_result(ctx, list(numqi.optimize.hf_model_wrapper(mu2)(th)), list(numqi.optimize.hf_model_wrapper(mu1)(th)),
                             'VarQECUnitary/positional-call-differs-from-keyword-call', 'VarQECUnitary built positionally and with keywords differ', K)
            finally:
                st['closure'] = None
        ctx.case('api-varqec', theta, nontrivial=True)


# thorough tier: every random shard is run this many times with independent random streams (see vmon/runner.py get_shards)
THOROUGH_REPEAT = 2
