"""C02 - trivializations are locally onto: the differential has full rank at generic points.

Monitor: a sampling probe attached to the same entry points as C01. For every unbatched float64 torch call of a functional
map the probe computes the autograd Jacobian of the REAL map (complex outputs viewed as pairs of reals) at the observed theta,
takes its singular values and decides the numerical rank with a relative-gap criterion. Ranks are collected per configuration;
at the end of the shard the verdict per configuration is taken over all generic draws observed:
  * any draw with rank > dim(manifold)       -> the image is not inside the manifold / wrong chart,
  * every draw with rank < dim(manifold)     -> the map is confined to a lower-dimensional subset (rank 0: constant map).
The expected dimensions come from the statement (table in `expected_dim`).
"""
import numpy as np

from vmon.core import to_numpy

TECHNIQUE = ('runtime monitoring: a sampling probe on the trivialization entry points computes the autograd Jacobian of the real map at every observed unbatched float64 theta and decides its numerical rank by a relative-gap criterion; verdict per configuration over all generic draws')
LEVEL_TEXT = ('Exploration by runtime monitoring: Jacobian ranks observed at generic random points (and at thetas visited by L-BFGS) for every chart/method/field/dim/rank configuration, compared with the manifold dimension from the statement. Rank at non-generic points is out of reach.')
RULE = ('cases = (map, method option, field, dim, rank, theta draw) with theta ~ N(0,1)*{0.5,1} (generic points), dims 2..4 (quick) / 2..5 '
        '(thorough), all ranks, real and complex, every method option; 3 (quick) / 8 (thorough) draws per configuration plus thetas visited by '
        'L-BFGS drivers. A draw is judged only when the singular values show a clean gap (s_rank/s_0>1e-5 and s_rank+1/s_0<1e-9), otherwise it is '
        'inconclusive. Non-trivial = every case (generic theta); distinct by digest of (configuration, theta)')
EXHAUSTIVE = {'quick': True, 'thorough': True}
EXHAUSTIVE_DOMAINS = {'quick': ['every map x method option x field x dim 2..4 x rank 1..dim (configurations enumerated completely; theta sampled)'],
                      'thorough': ['every map x method option x field x dim 2..5 x rank 1..dim']}
ASSUMPTIONS = ['"generic" = random normal theta; measure-zero singular points of the charts are not probed',
               'numerical rank: singular values of the float64 autograd Jacobian with a relative gap criterion']
DECIDING = ['jacobian/to_sphere_quotient', 'jacobian/to_sphere_coordinate', 'jacobian/to_ball', 'jacobian/to_discrete_probability_softmax',
            'jacobian/to_discrete_probability_sphere', 'jacobian/to_trace1_psd_cholesky', 'jacobian/to_trace1_psd_ensemble', 'jacobian/to_symmetric_matrix',
            'jacobian/to_special_orthogonal_exp', 'jacobian/to_special_orthogonal_cayley', 'jacobian/to_stiefel_polar', 'jacobian/to_stiefel_qr',
            'jacobian/to_stiefel_choleskyL', 'jacobian/to_stiefel_euler', 'jacobian/to_positive_real_softplus', 'jacobian/to_positive_real_exp',
            'jacobian/to_open_interval', 'jacobian/Stiefel.forward', 'jacobian/DiscreteProbability.forward', 'jacobian/Trace1PSD.forward', 'jacobian/Sphere.forward',
            'jacobian/SymmetricMatrix.forward', 'jacobian/SpecialOrthogonal.forward', 'jacobian/Ball.forward', 'verdict/configuration']


def shards(tier, seed):
    kinds = ['simple', 'psd', 'symmetric', 'so', 'stiefel-polar-qr', 'stiefel-chol-euler', 'stiefel-module', 'module-lifecycle', 'drivers']
    if tier == 'thorough':
        ret = []
        for k in kinds:
            if k in ('psd', 'so', 'stiefel-polar-qr', 'stiefel-chol-euler', 'stiefel-module', 'module-lifecycle'):
                ret += [{'name': f'{k}-{i}', 'kind': k, 'part': i, 'nparts': 2} for i in range(2)]
            else:
                ret.append({'name': k, 'kind': k, 'part': 0, 'nparts': 1})
        return ret
    return [{'name': k, 'kind': k, 'part': 0, 'nparts': 1} for k in kinds]


def expected_dim(name, n, args):
    """dimension of the manifold parametrized (from the statement); n = number of parameters."""
    if name.endswith('.forward/module'):  # the class form parametrizes the same manifold as the chart it wraps
        return expected_dim(args['chart'], n, args)
    if name in ('to_positive_real_softplus', 'to_positive_real_exp', 'to_open_interval'):
        return n  # elementwise charts of (0,inf)^n / (a,b)^n: parameter count
    if name == 'to_sphere_quotient':
        return n - 1  # real: d-1; complex: 2d-1 (n=2d)
    if name == 'to_sphere_coordinate':
        return n  # minimal chart: parameter count (d-1 real, 2d-1 complex)
    if name == 'to_ball':
        return n  # open ball of R^d / C^d
    if name in ('to_discrete_probability_softmax', 'to_discrete_probability_sphere'):
        return n - 1
    if name in ('to_trace1_psd_cholesky', 'to_trace1_psd_ensemble'):
        d, r, is_real = args['dim'], args['rank'], args['is_real']
        return (d * r - r * (r - 1) // 2 - 1) if is_real else (2 * d * r - r * r - 1)
    if name == 'to_symmetric_matrix':
        return n - (1 if args['is_norm1'] else 0)  # minimal chart; norm-1 removes the radial direction
    if name in ('to_special_orthogonal_exp', 'to_special_orthogonal_cayley'):
        d = args['dim']
        return d * (d - 1) // 2 if args['is_real'] else d * d - 1
    if name in ('to_stiefel_polar', 'to_stiefel_qr'):
        d, r = args['dim'], args['rank']
        return (d * r - r * (r + 1) // 2) if args['is_real'] else (2 * d * r - r * r)
    if name in ('to_stiefel_choleskyL', 'to_stiefel_euler'):
        return n  # minimal charts: parameter count (equals the Stiefel dimension in the real case and with phases)
    if name == 'DiscreteProbability.forward/weighted':
        return n - 1
    if name == 'Stiefel.forward/so':
        d, r = args['dim'], args['rank']
        return (d * r - r * (r + 1) // 2) if args['is_real'] else min(2 * d * r - r * r, d * d - 1)
    raise KeyError(name)


def homogeneous_chart(name, args):
    if name.endswith('.forward/module'):
        return homogeneous_chart(args['chart'], args)
    if name in ('to_sphere_quotient', 'to_discrete_probability_sphere', 'to_trace1_psd_cholesky', 'to_trace1_psd_ensemble', 'to_stiefel_polar', 'to_stiefel_qr'):
        return True
    return name == 'to_symmetric_matrix' and str(args.get('is_norm1')) == 'True'


class Probe:
    def __init__(self, ctx, numqi):
        import torch
        self.torch = torch
        self.ctx = ctx
        self.numqi = numqi
        self.records = {}  # config key -> list of (rank, expected, theta digest, svals)
        self.sample_every = 1
        self._count = 0
        self.lifecycle = None  # set by the lifecycle workload: part of the configuration key of module-form observations

    def jac_rank(self, f, theta):
        torch = self.torch

        def g(t):
            out = f(t)
            if torch.is_complex(out):
                out = torch.view_as_real(out)
            return out.reshape(-1)

        J = torch.autograd.functional.jacobian(g, theta.detach().clone(), vectorize=False)
        J = J.reshape(-1, theta.numel()).numpy()
        if not np.all(np.isfinite(J)):
            return None, None
        s = np.linalg.svd(J, compute_uv=False)
        if s.size == 0 or s[0] == 0:
            return 0, s
        rel = s / s[0]
        rank = int((rel > 1e-7).sum())
        clean = rel[rank - 1] > 1e-5 and (rank == len(rel) or rel[rank] < 1e-9)
        if not clean:
            return -1, s
        return rank, s

    def observe(self, name, f, theta, args):
        ctx = self.ctx
        torch = self.torch
        if not (isinstance(theta, torch.Tensor) and theta.dtype == torch.float64 and theta.ndim == 1 and 0 < theta.numel() <= 60):
            return
        self._count += 1
        if self._count % self.sample_every:
            return
        pname = 'Stiefel.forward' if name.startswith('Stiefel.forward') else name.split('/')[0]
        ctx.hit(f'jacobian/{pname}')
        try:
            with torch.enable_grad():
                rank, s = self.jac_rank(f, theta)
        except Exception as e:
            ctx.inconclusive(f'jacobian-failed/{name}/{type(e).__name__}')
            return
        if rank is None:
            ctx.inconclusive(f'jacobian-not-finite/{name}')
            return
        if rank == -1:
            ctx.inconclusive(f'no-clean-gap/{name}')
            return
        n = theta.numel()
        exp = expected_dim(name, n, args)
        # parameter regime: a tiny parameter vector is a generic point only of the charts that normalise their argument (homogeneous
        # of degree 0: the differential has full rank on every ray); it is its own configuration there, so that a chart that
        # collapses small parameters (absolute threshold on a norm) is not hidden behind the unit-scale draws. For the other charts
        # a tiny vector sits next to a coordinate singularity (theta=0) and is not a generic point: not judged.
        tiny = float(np.abs(to_numpy(theta)).max()) < 1e-4
        if tiny:
            if not homogeneous_chart(name, args):
                ctx.inconclusive(f'tiny-parameter-at-non-normalising-chart/{name}')
                return
            args = {**args, 'regime': 'tiny-parameters'}
        key = (name, tuple(sorted((k, str(v)) for k, v in args.items())), n)
        self.records.setdefault(key, []).append((rank, exp, to_numpy(theta).copy(), s[:min(len(s), exp + 2)]))
        ctx.evaluations += 1
        if rank > exp:
            ctx.violation(f'jacobian-rank/above-manifold-dimension/{name}',
                          f'{name}: the differential has rank {rank} > dim(manifold)={exp}: the image is not inside the manifold it names',
                          {'config': dict(key[1]), 'nparam': n, 'rank': rank, 'expected': exp, 'theta': to_numpy(theta), 'singular_values': s[:exp + 3]})

    def finish(self):
        ctx = self.ctx
        summary = {}
        for key, recs in self.records.items():
            name, cfg, n = key
            ranks = [r for r, _, _, _ in recs]
            exp = recs[0][1]
            ctx.hit('verdict/configuration')
            ctx.evaluations += 1
            best = max(ranks)
            summary[f'{name}|{dict(cfg)}|n={n}'] = {'expected': exp, 'ranks': sorted(set(ranks)), 'draws': len(ranks)}
            if best < exp:
                what = 'constant map (rank 0 at every generic draw)' if best == 0 else f'rank {best} < dim(manifold)={exp} at every generic draw'
                k = 'jacobian-rank/constant-map' if best == 0 else 'jacobian-rank/below-manifold-dimension'
                ctx.violation(f'{k}/{name}', f'{name}: {what}: the map is confined to a lower-dimensional subset',
                              {'config': dict(cfg), 'nparam': n, 'ranks': ranks, 'expected': exp, 'theta': recs[0][2], 'singular_values': recs[0][3]})
        ctx.extra['configurations'] = len(summary)
        items = list(summary.items())
        ctx.extra['configuration_ranks(sample)'] = dict(items[:25])
        return summary

    def install(self):
        ctx, numqi = self.ctx, self.numqi
        M = numqi.manifold
        I, S = M._internal, M._stiefel
        probe = self

        def attach(owner, fname, argspec):
            def post(c):
                if c.exc is not None:
                    return
                theta = c.args[0]
                args = argspec(c, to_numpy(theta).shape[-1] if hasattr(theta, 'shape') and len(theta.shape) else 1)
                if args is None:
                    return
                rest, kw = c.args[1:], c.kwargs
                probe.observe(fname, lambda t: c.func(t, *rest, **kw), theta, args)
            ctx.attach(owner, fname, post=post, point=fname)

        attach(I, 'to_positive_real_softplus', lambda c, n: {})
        attach(I, 'to_positive_real_exp', lambda c, n: {})
        attach(I, 'to_open_interval', lambda c, n: {})
        attach(I, 'to_sphere_quotient', lambda c, n: {'is_real': c.arg(1, 'is_real', True)})
        attach(I, 'to_sphere_coordinate', lambda c, n: {'is_real': c.arg(1, 'is_real', True)})
        attach(I, 'to_ball', lambda c, n: {'is_real': c.arg(1, 'is_real', True)})
        attach(I, 'to_discrete_probability_softmax', lambda c, n: {})
        attach(I, 'to_discrete_probability_sphere', lambda c, n: {})

        def spec_chol(c, n):
            d = c.arg(1, 'dim')
            r = c.arg(2, 'rank', None) or d
            return {'dim': d, 'rank': r, 'is_real': n == (r * (2 * d - r + 1)) // 2}

        def spec_ens(c, n):
            d = c.arg(1, 'dim')
            r = c.arg(2, 'rank', None) or d
            return {'dim': d, 'rank': r, 'is_real': n == r + d * r}

        attach(I, 'to_trace1_psd_cholesky', spec_chol)
        attach(I, 'to_trace1_psd_ensemble', spec_ens)

        def spec_sym(c, n):
            d = c.arg(1, 'dim')
            t0, n1 = bool(c.arg(2, 'is_trace0', False)), bool(c.arg(3, 'is_norm1', False))
            return {'dim': d, 'is_trace0': t0, 'is_norm1': n1, 'is_real': n == d * (d + 1) // 2 - (1 if t0 else 0)}

        attach(I, 'to_symmetric_matrix', spec_sym)

        def spec_so(c, n):
            d = c.arg(1, 'dim')
            a = {'dim': d, 'is_real': n == d * (d - 1) // 2}
            if c.func.__name__.endswith('cayley'):
                a['order'] = c.arg(2, 'order', 2)
            return a

        attach(I, 'to_special_orthogonal_exp', spec_so)
        attach(I, 'to_special_orthogonal_cayley', spec_so)

        def spec_st_full(c, n):
            d, r = c.arg(1, 'dim'), c.arg(2, 'rank')
            return {'dim': d, 'rank': r, 'is_real': n == d * r}

        def spec_st_chol(c, n):
            d, r = c.arg(1, 'dim'), c.arg(2, 'rank')
            return {'dim': d, 'rank': r, 'is_real': n == d * r - r * (r + 1) // 2}

        def spec_st_euler(c, n):
            d, r = c.arg(1, 'dim'), c.arg(2, 'rank')
            return {'dim': d, 'rank': r, 'is_real': n == d * r - r * (r + 1) // 2, 'with_phase': bool(c.arg(3, 'with_phase', False))}

        attach(S, 'to_stiefel_polar', spec_st_full)
        attach(S, 'to_stiefel_qr', spec_st_full)
        attach(S, 'to_stiefel_choleskyL', spec_st_chol)
        attach(S, 'to_stiefel_euler', spec_st_euler)

        # Stiefel module with the so-exp / so-cayley options (first columns of an SO/SU matrix): probe forward as a function of theta
        torch = self.torch
        orig_exp, orig_cay = ctx.orig(I.to_special_orthogonal_exp), ctx.orig(I.to_special_orthogonal_cayley)

        def post_stiefel_forward(c):
            if c.exc is not None:
                return
            m = c.args[0]
            if m.method not in ('so-exp', 'so-cayley') or m.batch_size is not None or m.theta.dtype != torch.float64:
                return
            is_real = m.dtype in (torch.float32, torch.float64)

            # probe the module's own forward as a function of theta (functional_call keeps the real code path)
            def fwd(t):
                with ctx.quiet():
                    return torch.func.functional_call(m, {'theta': t}, ())
            probe.observe(f'Stiefel.forward/so', fwd, m.theta.detach(), {'dim': m.dim, 'rank': m.rank, 'is_real': is_real, 'method': m.method})


        # weighted simplex: the class form with the optional `weight` (any positive weights: the chart still has rank d-1)
        def post_prob_forward(c):
            if c.exc is not None:
                return
            m = c.args[0]
            if m.batch_size is not None or m.theta.dtype != torch.float64 or m.weight_inv is None:
                return

            def fwd(t):
                with ctx.quiet():
                    return torch.func.functional_call(m, {'theta': t}, ())
            probe.observe('DiscreteProbability.forward/weighted', fwd, m.theta.detach(), {'dim': m.dim, 'method': m.method, 'weight_inv': [round(float(x), 6) for x in to_numpy(m.weight_inv)]})

        # class forms through their own forward() as a function of their OWN parameter (torch.func.functional_call keeps the real code
        # path): an instance that was deep-copied, re-loaded or re-used must still be a full-rank chart in its own theta
        def real_dt(dt):
            return dt in (torch.float32, torch.float64)

        def chart_of(cls, m):
            if cls == 'Trace1PSD':
                return f'to_trace1_psd_{m.method}', {'dim': m.dim, 'rank': m.rank, 'is_real': real_dt(m.dtype)}
            if cls == 'Sphere':
                return f'to_sphere_{m.method}', {'dim': m.dim, 'is_real': m.is_real}
            if cls == 'Ball':
                return 'to_ball', {'dim': m.dim, 'is_real': m.is_real}
            if cls == 'DiscreteProbability':
                return (None, None) if m.weight_inv is not None else (f'to_discrete_probability_{m.method}', {'dim': m.dim})
            if cls == 'SymmetricMatrix':
                return 'to_symmetric_matrix', {'dim': m.dim, 'is_trace0': bool(m.is_trace0), 'is_norm1': bool(m.is_norm1), 'is_real': bool(m.is_real)}
            if cls == 'SpecialOrthogonal':
                a = {'dim': m.dim, 'is_real': real_dt(m.dtype)}
                if m.method == 'cayley':
                    a['order'] = m.cayley_order
                return f'to_special_orthogonal_{m.method}', a
            if cls == 'Stiefel':
                if m.method in ('so-exp', 'so-cayley'):
                    return None, None  # probed by post_stiefel_forward
                a = {'dim': m.dim, 'rank': m.rank, 'is_real': real_dt(m.dtype)}
                if m.method == 'euler':
                    a['with_phase'] = bool(m.euler_with_phase)
                return f'to_stiefel_{m.method}', a
            return None, None

        def post_module_forward(cls):
            def post(c):
                if c.exc is not None or probe.lifecycle is None:
                    return
                m = c.args[0]
                if m.batch_size is not None or m.theta.dtype != torch.float64:
                    return
                chart, a = chart_of(cls, m)
                if chart is None:
                    return

                def fwd(t):
                    with ctx.quiet():
                        return torch.func.functional_call(m, {'theta': t}, ())
                probe.observe(f'{cls}.forward/module', fwd, m.theta.detach(), {**a, 'chart': chart, 'lifecycle': probe.lifecycle})
            return post

        def both(*posts):
            def post(c):
                for f in posts:
                    f(c)
            return post

        for cls in ('Trace1PSD', 'Sphere', 'Ball', 'SymmetricMatrix', 'SpecialOrthogonal'):
            ctx.attach(getattr(I, cls), 'forward', post=post_module_forward(cls), point=f'{cls}.forward/module')
        ctx.attach(I.DiscreteProbability, 'forward', post=both(post_prob_forward, post_module_forward('DiscreteProbability')), point='DiscreteProbability.forward')
        ctx.attach(S.Stiefel, 'forward', post=both(post_stiefel_forward, post_module_forward('Stiefel')), point='Stiefel.forward')


def draws(ctx, n, ndraw, tiny=False):
    out = []
    for i in range(ndraw):
        scale = [0.5, 1.0][i % 2]
        out.append(ctx.rng.normal(size=n) * scale)
    if tiny:  # the same chart far inside the unit ball (see Probe.observe: its own configuration)
        out += [ctx.rng.normal(size=n) * sc for sc in (1e-6, 1e-8)]
    return out


def run(ctx, shard):
    import numqi
    import torch
    probe = Probe(ctx, numqi)
    probe.install()
    M = numqi.manifold
    kind = shard['kind']
    part, nparts = shard.get('part', 0), shard.get('nparts', 1)
    dims = [2, 3, 4] if ctx.tier == 'quick' else [2, 3, 4, 5]
    ndraw = 3 if ctx.tier == 'quick' else 8
    counter = [0]

    def go(name, f, n, desc):
        counter[0] += 1
        if counter[0] % nparts != part or n <= 0:
            return
        for th in draws(ctx, n, ndraw, tiny=homogeneous_chart(name, desc)):
            ctx.set_case({'map': name, **desc, 'nparam': n})
            ctx.case(name, desc, th, sample={'map': name, **desc, 'theta': th} if ctx.rng.random() < 0.01 else None)
            with ctx.guard(name):
                f(torch.tensor(th, dtype=torch.float64))

    ctx.workload('exhaustive')
    if kind == 'simple':
        for n in (1, 3):
            go('to_positive_real_softplus', M.to_positive_real_softplus, n, {})
            go('to_positive_real_exp', M.to_positive_real_exp, n, {})
            go('to_open_interval', lambda t: M.to_open_interval(t, -1.0, 2.5), n, {'lower': -1.0, 'upper': 2.5})
        for d in dims + [6]:
            for is_real in (True, False):
                n = d if is_real else 2 * d
                go('to_sphere_quotient', lambda t, r=is_real: M.to_sphere_quotient(t, r), n, {'dim': d, 'is_real': is_real})
                go('to_sphere_coordinate', lambda t, r=is_real: M.to_sphere_coordinate(t, r), n - 1, {'dim': d, 'is_real': is_real})
                go('to_ball', lambda t, r=is_real: M.to_ball(t, r), n, {'dim': d, 'is_real': is_real})
            go('to_discrete_probability_softmax', M.to_discrete_probability_softmax, d, {'dim': d})
            go('to_discrete_probability_sphere', M.to_discrete_probability_sphere, d, {'dim': d})
            for me in ('softmax', 'sphere'):
                for wkind in ('float', 'int-dtype', 'list'):
                    w = {'float': ctx.rng.uniform(0.5, 3, size=d), 'int-dtype': np.arange(2, d + 2), 'list': np.arange(1, d + 1)}[wkind]
                    for i in range(ndraw):
                        ctx.set_case({'module': 'DiscreteProbability', 'dim': d, 'method': me, 'weight': wkind})
                        with ctx.guard('DiscreteProbability.forward'):
                            try:
                                m = M.DiscreteProbability(d, method=me, weight=(w.tolist() if wkind == 'list' else w), dtype=torch.float64)
                            except (AttributeError, AssertionError, TypeError):
                                ctx.inconclusive('DiscreteProbability-weight-kind-not-accepted/' + wkind)  # a python list has no .min(): not accepted by the class
                                break
                            with torch.no_grad():
                                m.theta.copy_(torch.tensor(ctx.rng.normal(size=d)))
                            ctx.case('DiscreteProbability-module', d, me, wkind, to_numpy(m.theta))
                            m()
    elif kind == 'psd':
        for d in dims:
            for r in range(1, d + 1):
                for is_real in (True, False):
                    N0 = (r * (2 * d - r + 1)) // 2
                    go('to_trace1_psd_cholesky', lambda t, d=d, r=r: M.to_trace1_psd_cholesky(t, d, r), N0 if is_real else 2 * N0 - r, {'dim': d, 'rank': r, 'is_real': is_real})
                    go('to_trace1_psd_ensemble', lambda t, d=d, r=r: M.to_trace1_psd_ensemble(t, d, r), (r + d * r) if is_real else (r + 2 * d * r),
                       {'dim': d, 'rank': r, 'is_real': is_real})
    elif kind == 'symmetric':
        for d in dims:
            for is_real in (True, False):
                for t0 in (False, True):
                    for n1 in (False, True):
                        n = (d * (d + 1) // 2 if is_real else d * d) - (1 if t0 else 0)
                        go('to_symmetric_matrix', lambda t, d=d, t0=t0, n1=n1: M.to_symmetric_matrix(t, d, t0, n1), n, {'dim': d, 'is_real': is_real, 'is_trace0': t0, 'is_norm1': n1})
    elif kind == 'so':
        for d in dims:
            for is_real in (True, False):
                n = d * (d - 1) // 2 if is_real else d * d - 1
                go('to_special_orthogonal_exp', lambda t, d=d: M.to_special_orthogonal_exp(t, d), n, {'dim': d, 'is_real': is_real})
                for order in (1, 2, 3):
                    go('to_special_orthogonal_cayley', lambda t, d=d, o=order: M.to_special_orthogonal_cayley(t, d, o), n, {'dim': d, 'is_real': is_real, 'order': order})
    elif kind == 'stiefel-polar-qr':
        for d in dims:
            for r in range(1, d + 1):
                for is_real in (True, False):
                    n = d * r * (1 if is_real else 2)
                    go('to_stiefel_polar', lambda t, d=d, r=r: M.to_stiefel_polar(t, d, r), n, {'dim': d, 'rank': r, 'is_real': is_real})
                    go('to_stiefel_qr', lambda t, d=d, r=r: M.to_stiefel_qr(t, d, r), n, {'dim': d, 'rank': r, 'is_real': is_real})
    elif kind == 'stiefel-chol-euler':
        for d in dims:
            for r in range(1, d + 1):
                N0 = d * r - r * (r + 1) // 2
                for is_real in (True, False):
                    go('to_stiefel_choleskyL', lambda t, d=d, r=r: M.to_stiefel_choleskyL(t, d, r), N0 * (1 if is_real else 2), {'dim': d, 'rank': r, 'is_real': is_real})
                go('to_stiefel_euler', lambda t, d=d, r=r: M.to_stiefel_euler(t, d, r, False), N0, {'dim': d, 'rank': r, 'is_real': True, 'with_phase': False})
                go('to_stiefel_euler', lambda t, d=d, r=r: M.to_stiefel_euler(t, d, r, False), 2 * N0, {'dim': d, 'rank': r, 'is_real': False, 'with_phase': False})
                go('to_stiefel_euler', lambda t, d=d, r=r: M.to_stiefel_euler(t, d, r, True), 2 * N0 + r, {'dim': d, 'rank': r, 'is_real': False, 'with_phase': True})
    elif kind == 'stiefel-module':
        for d in dims:
            for r in range(1, d + 1):
                for dt in (torch.float64, torch.complex128):
                    for me in ('so-exp', 'so-cayley'):
                        counter[0] += 1
                        if counter[0] % nparts != part:
                            continue
                        for i in range(ndraw):
                            ctx.set_case({'module': 'Stiefel', 'dim': d, 'rank': r, 'method': me, 'dtype': str(dt)})
                            with ctx.guard('Stiefel.forward'):
                                m = M.Stiefel(d, r, method=me, dtype=dt)
                                with torch.no_grad():
                                    m.theta.copy_(torch.tensor(ctx.rng.normal(size=tuple(m.theta.shape)) * [0.5, 1.0][i % 2]))
                                ctx.case('Stiefel-module', d, r, me, str(dt), to_numpy(m.theta))
                                m()
    elif kind == 'module-lifecycle':
        import copy
        ctx.workload('realistic')
        C64, F64 = torch.complex128, torch.float64
        specs = []
        for d in dims[:2]:
            for dt in (F64, C64):
                for r in sorted({1, d}):
                    specs += [('Trace1PSD', dict(dim=d, rank=r, method=me, dtype=dt)) for me in ('cholesky', 'ensemble')]
                    specs += [('Stiefel', dict(dim=d, rank=r, method=me, dtype=dt)) for me in ('polar', 'qr', 'choleskyL')]
                specs += [('Sphere', dict(dim=d, method=me, dtype=dt)) for me in ('quotient', 'coordinate')]
                specs += [('Ball', dict(dim=d, dtype=dt)), ('SymmetricMatrix', dict(dim=d, dtype=dt)), ('SymmetricMatrix', dict(dim=d, is_trace0=True, dtype=dt))]
                specs += [('SpecialOrthogonal', dict(dim=d, method=me, dtype=dt)) for me in ('exp', 'cayley')]
            specs += [('DiscreteProbability', dict(dim=d, method=me, dtype=F64)) for me in ('softmax', 'sphere')]

        def randomise(m, scale=1.0):
            with torch.no_grad():
                m.theta.copy_(torch.tensor(ctx.rng.normal(size=tuple(m.theta.shape)) * scale))

        for cls, kw in specs:
            counter[0] += 1
            if counter[0] % nparts != part:
                continue
            ctor = getattr(M, cls)
            for rep in range(2 if ctx.tier == 'quick' else 4):
                ctx.set_case({'module': cls, 'options': {k: str(v) for k, v in kw.items()}, 'rep': rep})
                ctx.case('module-lifecycle', cls, {k: str(v) for k, v in kw.items()}, rep)
                with ctx.guard(f'{cls}.forward'):
                    try:
                        m = ctor(**kw)
                    except (AssertionError, TypeError):
                        ctx.inconclusive(f'module-options-not-accepted/{cls}')
                        break
                    randomise(m)
                    probe.lifecycle = 'fresh'
                    m()
                    m2 = copy.deepcopy(m)           # a deep copy owns its parameters
                    randomise(m2, [0.5, 1.0][rep % 2])
                    probe.lifecycle = 'deepcopy-with-new-parameters'
                    m2()
                    probe.lifecycle = 'original-after-its-copy-was-used'
                    m()
                    m3 = ctor(**kw)                 # parameters restored from a state_dict
                    m3.load_state_dict(m2.state_dict())
                    probe.lifecycle = 'load_state_dict'
                    m3()
                    randomise(m)                    # in-place parameter update (what an optimizer does), same object evaluated again
                    probe.lifecycle = 'in-place-update-then-call-again'
                    m()
                    probe.lifecycle = None
    elif kind == 'drivers':
        # thetas visited by an optimizer (module parameters are unbatched float64 vectors => probed on every call, sampled 1 in 5)
        ctx.workload('realistic')
        probe.sample_every = 5
        rng = ctx.rng
        for it in range(2 if ctx.tier == 'quick' else 8):
            try:
                dim = int(rng.integers(2, 4))
                model = M.TwoHermitianSumModel(dim)
                model.set_matrix(*[numqi.random.rand_hermitian_matrix(dim, seed=int(rng.integers(2**31))) for _ in range(3)])
                numqi.optimize.minimize(model, theta0=('normal', 0, 1), num_repeat=1, tol=1e-8, print_every_round=0, maxiter=10, seed=int(rng.integers(2**31)))
                ctx.case('driver-2h', dim, it)

                class Dummy(torch.nn.Module):
                    def __init__(self):
                        super().__init__()
                        self.st = M.Trace1PSD(3, rank=2, method=['cholesky', 'ensemble'][it % 2], dtype=torch.complex128)
                        self.sp = M.Sphere(3, method=['quotient', 'coordinate'][it % 2], dtype=torch.complex128)
                        self.H = torch.tensor(numqi.random.rand_hermitian_matrix(3, seed=it))

                    def forward(self):
                        rho, psi = self.st(), self.sp()
                        return torch.einsum('ab,ba->', rho, self.H).real + (psi.conj() @ self.H @ psi).real

                numqi.optimize.minimize(Dummy(), theta0=('normal', 0, 1), num_repeat=1, tol=1e-8, print_every_round=0, maxiter=10, seed=int(rng.integers(2**31)))
                ctx.case('driver-dummy', it)
            except Exception as e:
                ctx.inconclusive(f'driver-error/{type(e).__name__}')
    probe.finish()


# thorough tier: every random shard is run this many times with independent random streams (see vmon/runner.py get_shards)
THOROUGH_REPEAT = 12
