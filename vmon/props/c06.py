"""C06 - boundaries are exact thresholds and the detection hierarchy is nested.

Monitors (attached to the real numqi callables, see `install`):
  * get_density_matrix_boundary / get_ppt_boundary: threshold semantics on both sides of beta_u and beta_l with the
    reference's own eigensolver calls (vmon/ref/entangle.py), value against an independent bisection, batched == per item;
  * hf_interpolate_dm: explicit Gell-Mann (Bloch vector) expansion of the result has length |beta| and the direction of rho;
  * get_ABk_symmetric_extension_boundary / is_ABk_symmetric_ext / CHABoundaryBagging.solve: every answer is appended to a
    per-direction event log; states carrying a ghost label (content digest) issued by an inner model must be accepted;
  * PureBosonicExt.forward / AutodiffCHAREE.forward: the produced state is re-derived by the reference from the model's
    own coordinates (explicit Dicke embedding + partial trace, explicit product mixture) and labelled.
The event log is checked offline at the end of each shard for the nesting inequalities (slack 1e-4 for SDP/LP answers).
"""
import math
import warnings

import numpy as np

from vmon.core import digest
from vmon.ref import entangle as R

RULE = ('cases = (dims, direction from the maximally mixed state, method configuration): random Hermitian directions, random '
        'density matrices of every rank, pure entangled / product states, Werner-, isotropic- and UPB-BES directions and their '
        'reflections in dims (2,2),(2,3),(3,2),(3,3),(2,4), single and batched; inner-model states at random parameters of scale '
        '0.1/1/10 and after 5 L-BFGS steps. A threshold case is non-trivial when the direction is not the zero vector (always); '
        'a nesting case is non-trivial when at least two of the recorded boundary lengths along that direction differ by more '
        'than 1e-3 (the chain is not degenerate); an inner-in-outer case is non-trivial when the labelled state is not the '
        'maximally mixed state. Distinct by digest of (kind, dims, rounded unit Bloch vector, configuration).')
EXHAUSTIVE = {'quick': False, 'thorough': False}
EXHAUSTIVE_DOMAINS = {'quick': [], 'thorough': []}
ASSUMPTIONS = [
    'bipartite index convention (a,b) -> a*dB+b, A the left Kronecker factor; Gell-Mann normalisation Tr(Mi Mj)=2 delta_ij',
    'the Dicke basis ordering of PureBosonicExt is numqi.dicke.get_dicke_klist (used only to read the model coordinates; the '
    'embedding and the partial trace are the reference\'s own)',
    'SDP/LP answers carry solver tolerance (cvxpy picks SCS with eps=1e-4 for these SDPs): orderings are asserted with 1e-4 absolute '
    'slack; a pair that exceeds it is re-solved with the same numqi SDP at eps=1e-8 and is a violation only if the excess persists; '
    'SolverError / None / a solve the solver itself flags "inaccurate" is inconclusive, never a violation; CHA LP feasible points (weights on the '
    'simplex, re-summed state on the ray) are compared at the same 1e-4 solver-answer slack',
    'boundaries of the optimiser-driven get_boundary() methods of the inner models are not rigorous bounds and are not compared',
]
TECHNIQUE = ('runtime contracts (postconditions) on the boundary functions with a reference eigensolver/bisection oracle, ghost '
             'labels (content-digest registry) from the inner models to the outer criteria, and an offline checker over the '
             'per-direction event log for the nesting inequalities')
LEVEL_TEXT = 'held on the monitored executions (random + structured directions, k up to the stated levels)'
LEVEL_NOTE = ('CHABoundaryBagging.solve raises cvxpy.SolverError in this sandbox for every dimension pair except (2,2) '
              '(CLARABEL instead of ECOS): those runs are counted as inconclusive')
DECIDING = [
    'numqi.entangle._misc.get_density_matrix_boundary', 'numqi.entangle.ppt.get_ppt_boundary',
    'numqi.entangle._misc.hf_interpolate_dm', 'numqi.entangle.symext.get_ABk_symmetric_extension_boundary',
    'numqi.entangle.symext.is_ABk_symmetric_ext', 'PureBosonicExt.forward', 'AutodiffCHAREE.forward',
    'CHABoundaryBagging.solve', 'threshold/dm', 'threshold/ppt', 'threshold/batched', 'interpolate', 'nesting/offline',
    'inner-in-outer/labelled-state-at-symext', 'cha/feasible-point', 'reference-bosonic-sdp', 'api-surface', 'tiny-distance', 'numerical-range/ray', 'gellmann-norm',
    'numqi.entangle.symext.get_ABk_extension_numerical_range', 'numqi.entangle.ppt.get_ppt_numerical_range',
]

TOL_ORDER = 1e-4      # slack for orderings that involve an SDP / LP answer
TOL_EXACT = 1e-9      # slack for orderings between eigenvalue-based answers
PROBE = 1e-6          # relative probe distance on both sides of a threshold
DIMS = [(2, 2), (2, 3), (3, 3), (2, 4)]


# =============================================================================== shards
def _kmax(dims, tier):
    base = {(2, 2): 4, (2, 3): 3, (3, 3): 2, (2, 4): 2}[tuple(dims)]
    return base + (1 if tier == 'thorough' else 0)


def shards(tier, seed):
    """heavy shards first (the runner starts them in list order, 16 at a time). Budgets are CPU seconds."""
    q = tier == 'quick'
    B = 120 if q else 600
    ret = []
    plan = [  # dims, number of shards, directions per shard
        ((2, 4), 3, 7) if q else ((2, 4), 8, 8),
        ((2, 3), 4, 5) if q else ((2, 3), 8, 12),
        ((3, 3), 3, 10) if q else ((3, 3), 8, 18),
        ((2, 2), 2, 14) if q else ((2, 2), 3, 60),
    ]
    nest = []
    for dims, ns, nd in plan:
        for i in range(ns):
            nest.append({'name': f'nest-{dims[0]}{dims[1]}-{i}', 'dims': list(dims), 'ndir': nd, 'part': i,
                         'kmax': _kmax(dims, tier), 'cpu_budget_s': B})
    certk_q = {'hook': [[2, 2], [3, 2], [3, 3]], 'sym': [[2, 3, 3], [2, 3, 2], [2, 4, 2], [2, 2, 3], [3, 3, 2]], 'nsym': 1}
    if q:
        ret += nest[:7]
        # (2,3) k=3 states at the non-bosonic k'=3 test make the first-order feasibility solver run 30-50 s per call
        ret.append({'name': 'pureb-c', 'cfg': [[2, 3, 3]], 'nstate': 1, 'feed_lbfgs': False, 'cpu_budget_s': B,
                    'named': [{'dims': [3, 3], 'ks': [3, 4], 'nrand': 1, 'sym_kmax': 3}, {'dims': [2, 4], 'ks': [2, 3], 'nrand': 0},
                              {'dims': [2, 3], 'ks': [3, 4], 'nrand': 0}]})
        ret.append({'name': 'cha', 'ncha': 10, 'nmodel': 2, 'kmax22': 3, 'cpu_budget_s': B})
        ret += nest[7:]
        ret.append({'name': 'pureb-a', 'cfg': [[3, 3, 2], [2, 4, 2], [2, 2, 4], [2, 2, 2], [2, 3, 2]], 'nstate': 2, 'cpu_budget_s': B,
                    'api': {'symext': [[2, 2, 2], [2, 2, 1]], 'dims': [[2, 2], [2, 3], [3, 2]], 'models': [[2, 2, 2], [2, 3, 2]]}})
        ret.append({'name': 'thresholds', 'n': 60, 'certk': certk_q, 'tiny': True, 'numrange': [[2, 2, 3], [2, 3, 2]], 'cpu_budget_s': B})
    else:
        # measured CPU (seed 0): pureb-33-k3 / pureb-24-k3 / cha-* 450-900 s (single feasibility solves of 100-1000 s on boundary states),
        # nest-23-* 200-350 s, nest-24-* / nest-33-* 150-280 s, everything else < 120 s
        heavy = [[3, 3, 3], [2, 4, 3], [2, 3, 4]]
        for c in heavy:
            ret.append({'name': f'pureb-{c[0]}{c[1]}-k{c[2]}', 'cfg': [c], 'nstate': 6, 'cpu_budget_s': B})
        for i in range(3):
            ret.append({'name': f'cha-{i}', 'ncha': 60, 'nmodel': 8, 'kmax22': 4, 'cpu_budget_s': B})
        ret += nest[:16]
        cfgs = [[2, 3, 3], [3, 2, 3], [2, 2, 5], [2, 2, 4], [2, 2, 3], [2, 2, 2], [2, 2, 1], [2, 3, 2], [3, 3, 2], [2, 4, 2]]
        for c in cfgs:
            ret.append({'name': f'pureb-{c[0]}{c[1]}-k{c[2]}', 'cfg': [c], 'nstate': 6, 'cpu_budget_s': B})
        ret += nest[16:]
        ret.append({'name': 'certk-hook', 'certk': {'hook': [[2, 2], [3, 2], [3, 3], [4, 2]], 'sym': [], 'nsym': 0}, 'cpu_budget_s': B})
        for c in [[2, 3, 4], [3, 3, 3], [2, 3, 3], [2, 2, 4], [2, 4, 2], [2, 2, 3], [3, 3, 2], [2, 3, 2]]:
            ret.append({'name': f'certk-{c[0]}{c[1]}-k{c[2]}', 'certk': {'hook': [], 'sym': [c], 'nsym': 6}, 'cpu_budget_s': B})
        ret.append({'name': 'named-33', 'named': [{'dims': [3, 3], 'ks': [2, 3, 4], 'nrand': 4, 'sym_kmax': 3}], 'cpu_budget_s': B})
        ret.append({'name': 'named-23', 'named': [{'dims': [2, 3], 'ks': [2, 3, 4], 'nrand': 4, 'sym_kmax': 3}], 'cpu_budget_s': B})
        ret.append({'name': 'named-24-22', 'named': [{'dims': [2, 4], 'ks': [2, 3], 'nrand': 4, 'sym_kmax': 2},
                                                     {'dims': [2, 2], 'ks': [2, 3, 4, 5], 'nrand': 4}], 'cpu_budget_s': B})
        ret.append({'name': 'api-22', 'api': {'symext': [[2, 2, 2], [2, 2, 1], [2, 2, 3], [2, 2, 4]], 'dims': [[2, 2], [3, 2]], 'models': [[2, 2, 2], [2, 2, 3]]},
                    'cpu_budget_s': B})
        ret.append({'name': 'api-23', 'api': {'symext': [[2, 3, 2], [2, 3, 1], [2, 3, 3]], 'dims': [[2, 3], [2, 4]], 'models': [[2, 3, 2], [2, 4, 2]]},
                    'cpu_budget_s': B})
        ret.append({'name': 'api-33', 'api': {'symext': [[3, 3, 2], [3, 3, 1]], 'dims': [[3, 3]], 'models': [[3, 3, 2]], 'full': False}, 'cpu_budget_s': B})
        ret.append({'name': 'numrange', 'tiny': True, 'numrange': [[2, 2, 4], [2, 2, 3], [2, 3, 3], [2, 3, 2], [3, 3, 2], [2, 4, 2]], 'cpu_budget_s': B})
        ret += [{'name': f'thresholds-{i}', 'n': 800} for i in range(3)]
    return ret


# =============================================================================== CPU budget
# Shard budgets are in *CPU* seconds (time.process_time): the machine is shared, a wall-clock budget would cut the workload
# (and change what is observed) whenever other jobs are running.
def cpu_left(ctx):
    import time
    b = ctx.shard.get('cpu_budget_s')
    if not b:
        return float('inf')
    return b - time.process_time() + ctx.extra.get('_cpu0', 0.0)


# =============================================================================== monitor state
class Mon:
    def __init__(self, ctx):
        self.ctx = ctx
        self.log = []            # per-direction event log
        self.labels = {}         # content digest -> label
        self.kext_of = {}        # id(PureBosonicExt instance) -> kext
        self.depth = 0           # >0 while inside get_ppt_boundary (its inner DM-boundary calls are not logged)
        self.margin = {}         # smallest |margin| seen at a threshold probe, by kind
        self.excess = {}         # ordering key -> worst (largest) b_inner - b_outer
        self.excess_refined = {}  # same, after the failing pair was re-solved to 1e-8
        self.excess_flagged = {}  # same, for comparisons where the solver flagged one of the two solves as inaccurate
        self.separated = {}      # ordering key -> number of comparisons with a strict gap > 1e-3
        self.compared = {}       # ordering key -> number of comparisons
        self.last_cha_state = None
        self.last_state = None
        self.rho_of_dir = {}     # (direction digest, d) -> first matrix seen with that direction (for high-accuracy re-solves)
        self.refined = {}        # cache of high-accuracy re-solves
        self.n_refined = 0

    def note_max(self, name, value):
        d = self.ctx.extra.setdefault('worst_solver_residuals', {})
        d[name] = max(d.get(name, 0.0), float(value))

    def note_margin(self, kind, value):
        v = abs(float(value))
        if kind not in self.margin or v < self.margin[kind]:
            self.margin[kind] = v

    def event(self, rho, dims, method, beta, **kw):
        e = {'dig': digest(R.direction_digest_source(rho)), 'd': int(np.shape(rho)[-1]), 'dims': None if dims is None else tuple(int(t) for t in dims),
             'method': method, 'beta': float(beta), 'inacc': False}
        e.update(kw)
        self.log.append(e)
        self.rho_of_dir.setdefault((e['dig'], e['d']), np.array(rho, dtype=np.complex128))
        return e


EPS = 2.220446049250313e-16
COND_C = 50.0       # measured on the unchanged tree: boundaries of rho0 + t*H have relative error <= 3.3*eps/t (t = 1e-4 .. 1e-12)


def direction_kappa(x):
    """relative accuracy to which the *direction* of a unit-trace Hermitian matrix is known: its traceless part t*H is the
    difference of O(1/d) numbers, i.e. known to eps/t. Tolerances of everything derived from the direction scale with it."""
    n = R.bloch_norm(x)
    return float('inf') if n <= 0 else COND_C * EPS / n


def content_digest(x):
    return digest(np.ascontiguousarray(np.asarray(x), dtype=np.complex128))


def _admissible(x, tol=1e-9):
    x = np.asarray(x)
    if x.ndim != 2 or x.shape[0] != x.shape[1] or not np.all(np.isfinite(x)):
        return False
    if abs(np.trace(x) - 1) > tol or np.abs(x - x.conj().T).max() > tol:
        return False
    return R.bloch_norm(x) > 1e-13


def _cfg_str(e):
    if e['method'] == 'symext':
        return f"symext(k={e['k']},ppt={int(e['ppt'])},boson={int(e['boson'])})" + (f"[{e['src']}]" if e.get('src') else '')
    if e['method'] in ('pureb-state', 'kext-state', 'ref-boson'):
        return f"{e['method']}(k={e['k']})"
    return e['method']


# =============================================================================== install
def install(ctx, numqi, mon):
    import cvxpy
    E = numqi.entangle
    SolverError = cvxpy.error.SolverError

    # ---------------------------------------------------------------- threshold oracle shared by the DM and PPT boundary
    def check_threshold(kind, item, norm, bl, bu, dims=None, within_dm=True, with_bisection=True):
        point = 'threshold/' + kind
        if kind == 'dm':
            margin = R.min_eig
            name_in, name_out = 'inside-not-psd', 'outside-still-psd'
        elif within_dm:
            margin = lambda x: R.ppt_margin(x, *dims)
            name_in, name_out = 'inside-not-ppt', 'outside-still-ppt'
        else:
            margin = lambda x: R.pt_margin(x, *dims)
            name_in, name_out = 'inside-pt-not-psd', 'outside-pt-still-psd'
        pre = f'{kind}_boundary'
        wit = lambda **kw: dict({'dims': dims, 'within_dm': within_dm, 'dm_norm_given': norm is not None, 'beta_l': float(bl), 'beta_u': float(bu),
                                 'rho': item}, **kw)
        ok = bool(np.isfinite(bl) and np.isfinite(bu) and bu > 0 and bl < 0)
        ctx.check(ok, f'{pre}/sign', f'{pre}: need beta_l < 0 < beta_u and finite (the maximally mixed state is interior)', wit, point=point)
        if not ok:
            return
        kappa = direction_kappa(item) if norm is None else max(direction_kappa(item), 0.0)
        if 2 * kappa > 1e-3:
            ctx.inconclusive('threshold/direction-known-to-less-than-1e-3')
            return
        for side, beta in (('beta_u', float(bu)), ('beta_l', float(bl))):
            if kappa > 0.1 * PROBE:
                break  # the ray itself is not known to the probe distance: only the conditioned value check below applies
            m_in = margin(R.ray_point(item, beta * (1 - PROBE), norm))
            m_out = margin(R.ray_point(item, beta * (1 + PROBE), norm))
            mon.note_margin(f'{kind}/{side}/inside', m_in)
            mon.note_margin(f'{kind}/{side}/outside', m_out)
            ctx.check(m_in >= 0, f'{pre}/{side}/{name_in}', f'{pre}: the point at {side}*(1-1e-6) on the ray fails the criterion '
                      '(reported boundary is too far out)', lambda: wit(side=side, margin_inside=m_in), point=point)
            ctx.check(m_out < 0, f'{pre}/{side}/{name_out}', f'{pre}: the point at {side}*(1+1e-6) on the ray still satisfies the criterion '
                      '(reported boundary is too far in)', lambda: wit(side=side, margin_outside=m_out), point=point)
        if with_bisection or kappa > 0.1 * PROBE:
            if kind == 'dm':
                rl, ru = R.dm_boundary(item, norm)
            else:
                rl, ru = R.ppt_boundary(item, dims[0], dims[1], norm, within_dm)
            if rl is not None and ru is not None:
                rt = max(1e-8, 2 * kappa)
                ctx.check(abs(bu - ru) <= rt * abs(ru) and abs(bl - rl) <= rt * abs(rl), f'{pre}/value-vs-bisection',
                          f'{pre}: reported boundary differs from the bisection of the criterion along the ray',
                          lambda: wit(ref_l=rl, ref_u=ru), point=point)

    def norms_of(dm_norm, n):
        if dm_norm is None:
            return [None] * n
        a = np.asarray(dm_norm, dtype=np.float64).reshape(-1)
        if a.size == 1:
            return [float(a[0])] * n
        return [float(t) for t in a]

    # ---------------------------------------------------------------- get_density_matrix_boundary
    def post_dm_boundary(c):
        if c.exc is not None:
            return
        dm = np.asarray(c.arg(0, 'dm'))
        dm_norm = c.arg(1, 'dm_norm')
        N0 = dm.shape[-1]
        items = dm.reshape(-1, N0, N0)
        res = c.result
        ok = isinstance(res, tuple) and len(res) == 2 and np.shape(res[0]) == dm.shape[:-2] and np.shape(res[1]) == dm.shape[:-2]
        ctx.check(ok, 'dm_boundary/batch-shape', 'get_density_matrix_boundary must return (beta_l, beta_u) with the batch shape of dm',
                  {'in': dm.shape, 'out': [np.shape(t) for t in res] if isinstance(res, tuple) else repr(type(res))})
        if not ok:
            return
        bl = np.asarray(res[0], dtype=np.float64).reshape(-1)
        bu = np.asarray(res[1], dtype=np.float64).reshape(-1)
        norms = norms_of(dm_norm, len(items))
        if len(norms) != len(items):
            return
        top = mon.depth == 0
        for i, item in enumerate(items):
            if not _admissible(item):
                ctx.inconclusive('dm_boundary/inadmissible-input')
                continue
            if norms[i] is not None and not (norms[i] > 0):
                ctx.inconclusive('dm_boundary/inadmissible-input')
                continue
            check_threshold('dm', item, norms[i], bl[i], bu[i], with_bisection=(i < 6))
            if top and norms[i] is None and R.bloch_norm(item) >= 1e-5:
                mon.event(item, None, 'dm', bu[i])
        if dm.ndim > 2:
            f = ctx.orig(E._misc.get_density_matrix_boundary)
            for i in range(min(len(items), 12)):
                s = f(items[i].copy(), dm_norm=norms[i])
                ctx.check(np.ndim(s[0]) == 0 and abs(s[0] - bl[i]) <= 1e-12 * abs(s[0]) and abs(s[1] - bu[i]) <= 1e-12 * abs(s[1]),
                          'dm_boundary/batched!=single', 'batched get_density_matrix_boundary differs from the per-item call',
                          {'index': i, 'batch_shape': dm.shape[:-2], 'batched': [bl[i], bu[i]], 'single': [float(s[0]), float(s[1])]},
                          point='threshold/batched')

    ctx.attach(E._misc, 'get_density_matrix_boundary', post=post_dm_boundary, point='numqi.entangle._misc.get_density_matrix_boundary')

    # ---------------------------------------------------------------- get_ppt_boundary
    def pre_ppt(c):
        mon.depth += 1

    def post_ppt_boundary(c):
        mon.depth -= 1
        if c.exc is not None:
            return
        dm = np.asarray(c.arg(0, 'dm'))
        dims = tuple(int(t) for t in c.arg(1, 'dim'))
        dm_norm = c.arg(2, 'dm_norm')
        within_dm = bool(c.arg(3, 'within_dm', True))
        N0 = dm.shape[-1]
        items = dm.reshape(-1, N0, N0)
        res = c.result
        ok = isinstance(res, tuple) and len(res) == 2 and np.shape(res[0]) == dm.shape[:-2] and np.shape(res[1]) == dm.shape[:-2]
        ctx.check(ok, 'ppt_boundary/batch-shape', 'get_ppt_boundary must return (beta_l, beta_u) with the batch shape of dm',
                  {'in': dm.shape, 'out': [np.shape(t) for t in res] if isinstance(res, tuple) else repr(type(res))})
        if not ok:
            return
        bl = np.asarray(res[0], dtype=np.float64).reshape(-1)
        bu = np.asarray(res[1], dtype=np.float64).reshape(-1)
        norms = norms_of(dm_norm, len(items))
        if len(norms) != len(items):
            return
        for i, item in enumerate(items):
            if not _admissible(item) or (norms[i] is not None and not (norms[i] > 0)):
                ctx.inconclusive('ppt_boundary/inadmissible-input')
                continue
            check_threshold('ppt', item, norms[i], bl[i], bu[i], dims=dims, within_dm=within_dm, with_bisection=(i < 6))
            if within_dm and norms[i] is None and mon.depth == 0 and R.bloch_norm(item) >= 1e-5:
                mon.event(item, dims, 'ppt', bu[i])
                if i < 6:
                    r_dm = R.dm_boundary(item)[1]
                    r_ppt = R.ppt_boundary(item, dims[0], dims[1])[1]
                    if r_dm is not None and r_ppt is not None:
                        mon.event(item, None, 'ref-dm', r_dm)
                        mon.event(item, dims, 'ref-ppt', r_ppt)
        if dm.ndim > 2:
            f = ctx.orig(E.ppt.get_ppt_boundary)
            for i in range(min(len(items), 12)):
                s = f(items[i].copy(), dims, dm_norm=norms[i], within_dm=within_dm)
                ctx.check(np.ndim(s[0]) == 0 and abs(s[0] - bl[i]) <= 1e-12 * abs(s[0]) and abs(s[1] - bu[i]) <= 1e-12 * abs(s[1]),
                          'ppt_boundary/batched!=single', 'batched get_ppt_boundary differs from the per-item call',
                          {'index': i, 'dims': dims, 'batch_shape': dm.shape[:-2], 'batched': [bl[i], bu[i]], 'single': [float(s[0]), float(s[1])]},
                          point='threshold/batched')

    ctx.attach(E.ppt, 'get_ppt_boundary', post=post_ppt_boundary, pre=pre_ppt, point='numqi.entangle.ppt.get_ppt_boundary')

    # ---------------------------------------------------------------- hf_interpolate_dm
    def post_interp(c):
        if c.exc is not None:
            return
        rho = np.asarray(c.arg(0, 'rho'))
        alpha, beta, dm_norm = c.arg(1, 'alpha'), c.arg(2, 'beta'), c.arg(3, 'dm_norm')
        if (alpha is not None) and (beta is not None):
            return  # ambiguous request, not generated by the workloads
        if not _admissible(rho):
            ctx.inconclusive('interpolate/inadmissible-input')
            return
        res = np.asarray(c.result)
        ok = res.shape == rho.shape and np.all(np.isfinite(res))
        ctx.check(ok, 'interpolate/shape', 'hf_interpolate_dm must return a finite matrix of the shape of rho', {'in': rho.shape, 'out': res.shape},
                  point='interpolate')
        if not ok:
            return
        v_rho = R.bloch(rho)
        v_res = R.bloch(res)
        n_rho = float(np.linalg.norm(v_rho))
        scale = max(1.0, abs(float(beta if beta is not None else alpha)))
        tol_i = 1e-10
        if beta is not None and dm_norm is None:
            kap = direction_kappa(rho)
            if kap > 1e-3:
                ctx.inconclusive('interpolate/direction-known-to-less-than-1e-3')
                return
            tol_i = max(1e-10, kap)
        wit = lambda **kw: dict({'alpha': alpha, 'beta': beta, 'dm_norm': dm_norm, 'rho': rho, 'bloch_norm_rho': n_rho,
                                 'bloch_norm_result': float(np.linalg.norm(v_res))}, **kw)
        ctx.check(abs(np.trace(res) - 1) <= max(1e-12, tol_i) * scale and np.abs(res - res.conj().T).max() <= max(1e-12, tol_i) * scale, 'interpolate/trace-hermitian',
                  'hf_interpolate_dm result is not a Hermitian trace-one matrix', wit, point='interpolate')
        if beta is not None:
            n = n_rho if dm_norm is None else float(dm_norm)
            if not n > 0:
                return
            expected = (float(beta) / n) * v_rho
            ctx.check(abs(np.linalg.norm(v_res) - abs(float(beta)) * n_rho / n) <= tol_i * scale, 'interpolate/distance',
                      'hf_interpolate_dm(beta=b): Gell-Mann distance of the result from the maximally mixed state is not |b|', wit, point='interpolate')
            ctx.check(np.abs(v_res - expected).max() <= tol_i * scale, 'interpolate/direction',
                      'hf_interpolate_dm(beta=b): Bloch vector of the result is not b * unit(Bloch vector of rho)', wit, point='interpolate')
        else:
            ctx.check(np.abs(v_res - float(alpha) * v_rho).max() <= 1e-10 * scale, 'interpolate/alpha',
                      'hf_interpolate_dm(alpha=a): Bloch vector of the result is not a * Bloch vector of rho', wit, point='interpolate')

    ctx.attach(E._misc, 'hf_interpolate_dm', post=post_interp, point='numqi.entangle._misc.hf_interpolate_dm')

    # ---------------------------------------------------------------- get_ABk_symmetric_extension_boundary
    def post_symext_boundary(c):
        if c.exc is not None:
            if isinstance(c.exc, SolverError):
                ctx.inconclusive('symext-boundary-solver-error')
            return
        rho = np.asarray(c.arg(0, 'rho'))
        dims = tuple(int(t) for t in c.arg(1, 'dim'))
        k = int(c.arg(2, 'kext'))
        use_ppt, use_boson = bool(c.arg(3, 'use_ppt', False)), bool(c.arg(4, 'use_boson', False))
        return_info = bool(c.arg(6, 'return_info', False))
        single = rho.ndim == 2
        items = rho[None] if single else rho
        res = c.result[0] if return_info else c.result
        if single:
            betas = [res]
        else:
            ok = np.shape(res) == (len(items),)
            ctx.check(ok, 'symext_boundary/batch-shape', 'batched get_ABk_symmetric_extension_boundary must return one beta per state',
                      {'n': len(items), 'out': np.shape(res)})
            if not ok:
                return
            betas = list(res)
        for item, beta in zip(items, betas):
            if beta is None or not np.isfinite(beta):
                ctx.inconclusive('symext-boundary-none')
                continue
            if not _admissible(item) or R.bloch_norm(item) < 1e-5:
                continue
            ctx.check(float(beta) > 0, 'symext_boundary/not-positive', 'k-extension boundary must be positive (the maximally mixed state is interior)',
                      {'dims': dims, 'k': k, 'ppt': use_ppt, 'boson': use_boson, 'beta': float(beta)})
            mon.event(item, dims, 'symext', beta, k=k, ppt=use_ppt, boson=use_boson)

    ctx.attach(E.symext, 'get_ABk_symmetric_extension_boundary', post=post_symext_boundary,
               point='numqi.entangle.symext.get_ABk_symmetric_extension_boundary')

    # ---------------------------------------------------------------- is_ABk_symmetric_ext (consumer of the ghost labels)
    def solver_error_on_rerun(fn, accurate=False):
        """re-run fn() with cvxpy.Problem.solve instrumented; (result, True if a SolverError was raised inside).
        accurate=True additionally asks the solver for 1e-8 instead of its default tolerance."""
        flag = {'err': False}
        orig_solve = cvxpy.Problem.solve

        def solve(self, *a, **kw):
            if accurate and 'solver' not in kw:
                kw = dict(kw, solver='SCS', eps=1e-8, max_iters=200000)
            try:
                return orig_solve(self, *a, **kw)
            except SolverError:
                flag['err'] = True
                raise
        cvxpy.Problem.solve = solve
        try:
            with warnings.catch_warnings():
                warnings.simplefilter('ignore')
                r = fn()
        finally:
            cvxpy.Problem.solve = orig_solve
        return r, flag['err']

    def judge_rejection(item, dims, k, use_ppt, use_boson):
        """is_ABk_symmetric_ext said "no" for a state that must be accepted: numqi maps a SolverError to "no", and a state
        on the boundary may be lost to solver tolerance. Returns 'rejected' only if the answer is reproducible without a
        SolverError and persists after moving the state 1e-4 towards the maximally mixed state."""
        f = ctx.orig(E.symext.is_ABk_symmetric_ext)
        with ctx.quiet():
            _, err = solver_error_on_rerun(lambda: f(item, dims, k, use_ppt=use_ppt, use_boson=use_boson))
            if err:
                return 'symext-feasibility-solver-error'
            # same numqi SDP, solved to 1e-8 instead of the default first-order tolerance 1e-4
            r1, err1 = solver_error_on_rerun(lambda: f(item, dims, k, use_ppt=use_ppt, use_boson=use_boson), accurate=True)
            if not err1 and bool(r1):
                return 'symext-feasibility-rejection-is-default-solver-tolerance(accepted when re-solved to 1e-8)'
            n = R.bloch_norm(item)
            inner = R.herm(R.ray_point(item, max(n - TOL_ORDER, 0.5 * n)))
            r2, err2 = solver_error_on_rerun(lambda: f(inner, dims, k, use_ppt=use_ppt, use_boson=use_boson), accurate=True)
        if err2:
            return 'symext-feasibility-solver-error'
        if bool(r2):
            return 'symext-feasibility-boundary-within-1e-4'
        return 'rejected'

    mon.judge_rejection = judge_rejection

    def refined_boundary(rho, dims, k, use_ppt, use_boson):
        """the same numqi SDP solved to 1e-8 instead of the default first-order tolerance (SCS eps=1e-4): used only to decide
        whether an ordering that fails by more than the slack is solver tolerance or a property of the formulation."""
        key = (content_digest(rho), tuple(dims), int(k), bool(use_ppt), bool(use_boson))
        if key in mon.refined:
            return mon.refined[key]
        orig_solve = cvxpy.Problem.solve

        def solve(self, *a, **kw):
            if 'solver' not in kw:
                kw = dict(kw, solver='SCS', eps=1e-8, max_iters=200000)
            return orig_solve(self, *a, **kw)
        f = ctx.orig(E.symext.get_ABk_symmetric_extension_boundary)
        cvxpy.Problem.solve = solve
        try:
            with ctx.quiet(), warnings.catch_warnings(record=True) as w:
                warnings.simplefilter('always')
                try:
                    r = f(rho, dims, k, use_ppt=use_ppt, use_boson=use_boson)
                    r = None if (r is None or not np.all(np.isfinite(r))) else r
                except SolverError:
                    r = None
            if r is not None and any('inaccurate' in str(x.message).lower() for x in w):
                r = None
        finally:
            cvxpy.Problem.solve = orig_solve
        mon.refined[key] = r
        mon.n_refined += 1
        return r

    mon.refined_boundary = refined_boundary

    def refined_numrange(rho, dims, k, use_ppt, use_boson, src):
        """the numerical-range entry points re-solved to 1e-8 along the ray of rho (own complete operator basis)."""
        key = (src, content_digest(rho), tuple(dims), int(k), bool(use_ppt), bool(use_boson))
        if key in mon.refined:
            return mon.refined[key]
        d = rho.shape[0]
        ops = R.gm_basis(d) / 2
        v = R.bloch(rho)
        nv = float(np.linalg.norm(v))
        orig_solve = cvxpy.Problem.solve

        def solve(self, *a, **kw):
            if 'solver' not in kw:
                kw = dict(kw, solver='SCS', eps=1e-8, max_iters=200000)
            return orig_solve(self, *a, **kw)
        cvxpy.Problem.solve = solve
        try:
            with ctx.quiet(), warnings.catch_warnings(record=True) as w:
                warnings.simplefilter('always')
                try:
                    if src == 'pptnr':
                        r = ctx.orig(E.ppt.get_ppt_numerical_range)(ops, v / nv, dims, use_tqdm=False)
                    else:
                        r = ctx.orig(E.symext.get_ABk_extension_numerical_range)(ops, v / nv, dims, k, use_ppt=use_ppt, use_boson=use_boson, use_tqdm=False)
                    r = None if (r is None or not np.all(np.isfinite(r))) else float(r)
                except SolverError:
                    r = None
            if r is not None and any('inaccurate' in str(x.message).lower() for x in w):
                r = None
        finally:
            cvxpy.Problem.solve = orig_solve
        mon.refined[key] = r
        mon.n_refined += 1
        return r

    mon.refined_numrange = refined_numrange

    # ---------------------------------------------------------------- numerical-range entry points (rays given by expectation values)
    def log_numrange(c, dims, k, use_ppt, use_boson, return_info, src):
        ops = np.asarray(c.arg(0, 'op_list'))
        direction = np.asarray(c.arg(1, 'direction'), dtype=np.float64)
        res = c.result[0] if return_info else c.result
        single = direction.ndim == 1
        rows = direction[None] if single else direction
        vals = [res] if single else list(np.reshape(res, -1))
        ok = len(vals) == len(rows)
        ctx.check(ok, f'{src}/batch-shape', 'numerical range: one beta per direction expected', {'n': len(rows), 'out': np.shape(res)})
        if not ok or ops.ndim != 3:
            return
        d = ops.shape[1]
        for row, beta in zip(rows, vals):
            if beta is None or not np.isfinite(beta):
                ctx.inconclusive('numerical-range-none')
                continue
            x = R.ray_from_expectations(ops, row)
            if x is None:
                continue  # not a complete operator basis: the feasible set is a cross-section, not a ray
            rho_ray = np.eye(d) / d + x
            sx = R.bloch_norm(rho_ray)
            if not sx > 1e-9:
                continue
            ctx.hit('numerical-range/ray')
            mon.event(R.herm(np.eye(d) / d + (0.2 / sx) * x), dims, 'symext', float(beta) * sx, k=k, ppt=use_ppt, boson=use_boson, src=src)

    def post_ext_numrange(c):
        if c.exc is not None:
            if isinstance(c.exc, SolverError):
                ctx.inconclusive('numerical-range-solver-error')
            return
        dims = tuple(int(t) for t in c.arg(2, 'dim'))
        log_numrange(c, dims, int(c.arg(3, 'kext')), bool(c.arg(4, 'use_ppt', False)), bool(c.arg(5, 'use_boson', False)),
                     bool(c.arg(7, 'return_info', False)), 'numrange')

    ctx.attach(E.symext, 'get_ABk_extension_numerical_range', post=post_ext_numrange, point='numqi.entangle.symext.get_ABk_extension_numerical_range')

    def post_ppt_numrange(c):
        if c.exc is not None:
            if isinstance(c.exc, SolverError):
                ctx.inconclusive('numerical-range-solver-error')
            return
        dims = tuple(int(t) for t in c.arg(2, 'dim'))
        log_numrange(c, dims, 1, True, False, bool(c.arg(3, 'return_info', False)), 'pptnr')

    ctx.attach(E.ppt, 'get_ppt_numerical_range', post=post_ppt_numrange, point='numqi.entangle.ppt.get_ppt_numerical_range')

    # ---------------------------------------------------------------- the Gell-Mann norm every boundary is scaled with
    def post_gm_norm(c):
        if c.exc is not None:
            return
        dm = c.arg(0, 'dm')
        if not isinstance(dm, np.ndarray) or dm.ndim < 2 or dm.shape[-1] != dm.shape[-2] or not np.all(np.isfinite(dm)):
            return
        N0 = dm.shape[-1]
        items = dm.reshape(-1, N0, N0)
        res = np.asarray(c.result, dtype=np.float64).reshape(-1)
        if len(res) != len(items):
            ctx.check(False, 'gellmann_norm/batch-shape', 'dm_to_gellmann_norm must return one norm per matrix', {'in': dm.shape, 'out': np.shape(c.result)})
            return
        for item, r in zip(items[:64], res[:64]):
            tl = item - (np.trace(item) / N0) * np.eye(N0)
            ref = math.sqrt(float(np.vdot(tl, tl).real) / 2)
            fro = math.sqrt(float(np.vdot(item, item).real))
            # honest rounding: the traceless part is a difference of O(|dm|) numbers -> absolute error O(eps*|dm|) (measured <= 0.05 eps)
            ctx.check(abs(r - ref) <= COND_C * EPS * (1 + fro), 'gellmann_norm/absolute-error-above-rounding',
                      'dm_to_gellmann_norm differs from |dm - tr(dm)/d 1|_F/sqrt(2) by more than 50 eps (1+|dm|_F): catastrophic cancellation near the '
                      'maximally mixed state?', lambda: {'got': float(r), 'expected': ref, 'abs_err': abs(r - ref), 'rel_err': abs(r - ref) / ref if ref else None,
                                                        'rho': item}, point='gellmann-norm')

    ctx.attach(numqi.gellmann, 'dm_to_gellmann_norm', post=post_gm_norm, point='numqi.gellmann.dm_to_gellmann_norm')

    # ---------------------------------------------------------------- is_ppt (membership test of the PPT criterion, bipartite)
    def post_is_ppt(c):
        if c.exc is not None:
            return
        rho = np.asarray(c.arg(0, 'rho'))
        dim = c.arg(1, 'dim')
        eps = float(c.arg(2, 'eps', -1e-7))
        try:
            dim = tuple(int(t) for t in dim)
        except TypeError:
            return
        if len(dim) != 2 or rho.ndim != 2 or rho.shape[0] != dim[0] * dim[1]:
            return
        m = R.pt_margin(rho, dim[0], dim[1])
        if abs(m - eps) <= 1e-9:
            ctx.inconclusive('is_ppt/at-threshold')
            return
        ctx.check(bool(c.result) == (m > eps), 'is_ppt/disagrees-with-reference-partial-transpose',
                  'is_ppt differs from "smallest eigenvalue of the explicit partial transpose >= eps"', {'dims': dim, 'eps': eps, 'margin': m, 'got': bool(c.result)},
                  point='is_ppt')

    ctx.attach(E.ppt, 'is_ppt', post=post_is_ppt, point='numqi.entangle.ppt.is_ppt')

    def post_is_symext(c):
        if c.exc is not None:
            return
        rho = np.asarray(c.arg(0, 'rho'))
        dims = tuple(int(t) for t in c.arg(1, 'dim'))
        k = int(c.arg(2, 'kext'))
        use_ppt, use_boson = bool(c.arg(3, 'use_ppt', False)), bool(c.arg(4, 'use_boson', False))
        return_info = bool(c.arg(6, 'return_info', False))
        single = rho.ndim == 2
        items = rho[None] if single else rho
        res = [c.result] if single else list(c.result)
        if len(res) != len(items):
            ctx.check(False, 'is_symext/batch-shape', 'is_ABk_symmetric_ext must return one answer per state', {'n': len(items), 'out': len(res)})
            return
        for item, r in zip(items, res):
            accepted = bool(r[0]) if return_info else bool(r)
            lab = mon.labels.get(content_digest(item))
            if lab is None or lab['dims'] != dims:
                continue
            if lab['kind'] == 'pureb':
                if use_ppt or k > lab['k']:
                    continue
                key = 'inner-in-outer/pureb-rejected-by-symext'
                what = f'a state produced by PureBosonicExt(k) is rejected by is_ABk_symmetric_ext(k\'<=k, use_boson={use_boson})'
            elif lab['kind'] == 'kext-certified':
                if use_ppt or use_boson or k > lab['k']:
                    continue
                key = 'certified-kext-state/rejected-by-symext'
                what = 'a state with an explicit (reference-built) k-symmetric extension is rejected by is_ABk_symmetric_ext(k\'<=k)'
            else:
                key = 'inner-in-outer/' + lab['kind'] + '-rejected-by-symext'
                what = f'a convex combination of product states ({lab["kind"]}) is rejected by is_ABk_symmetric_ext(use_ppt={use_ppt}, use_boson={use_boson})'
            point = 'inner-in-outer/labelled-state-at-symext'
            if accepted:
                ctx.check(True, key, what, point=point)
                continue
            # rejected: solver failure and boundary-within-solver-tolerance are inconclusive (DESIGN section 3)
            verdict = judge_rejection(item, dims, k, use_ppt, use_boson)
            if verdict != 'rejected':
                ctx.inconclusive(verdict)
                ctx.hit(point)
            else:
                ctx.check(False, key, what + ' (also after moving it 1e-4 towards the maximally mixed state)',
                          {'dims': dims, 'kext': k, 'use_ppt': use_ppt, 'use_boson': use_boson, 'label': lab, 'rho': item}, point=point)

    ctx.attach(E.symext, 'is_ABk_symmetric_ext', post=post_is_symext, point='numqi.entangle.symext.is_ABk_symmetric_ext')

    # ---------------------------------------------------------------- PureBosonicExt (producer)
    PB = E.pureb.PureBosonicExt

    def post_pb_init(c):
        if c.exc is None:
            mon.kext_of[id(c.args[0])] = int(c.arg(3, 'kext'))

    ctx.attach(PB, '__init__', post=post_pb_init, point='PureBosonicExt.__init__')

    def post_pb_forward(c):
        if c.exc is not None:
            return
        model = c.args[0]
        k = mon.kext_of.get(id(model))
        if k is None or model.dm_torch is None:
            return
        dA, dB = int(model.dimA), int(model.dimB)
        dm = model.dm_torch.detach().cpu().numpy().copy()
        wit = {'dims': (dA, dB), 'kext': k}
        ok = dm.shape == (dA * dB, dA * dB) and bool(np.all(np.isfinite(dm)))
        ctx.check(ok, 'pureb/shape', 'PureBosonicExt.dm_torch must be a finite (dA*dB, dA*dB) matrix', wit)
        if not ok:
            return
        ctx.check(abs(np.trace(dm) - 1) <= 1e-10 and np.abs(dm - dm.conj().T).max() <= 1e-10 and R.min_eig(dm) >= -1e-10,
                  'pureb/not-a-state', 'PureBosonicExt.dm_torch is not a density matrix (trace 1, Hermitian, PSD)',
                  lambda: dict(wit, trace=complex(np.trace(dm)), min_eig=R.min_eig(dm), rho=dm))
        certified = False
        if dA * dB**k <= 20000:
            import torch
            with torch.no_grad():
                psi = model.manifold().detach().cpu().numpy().reshape(dA, -1)
            klist = numqi.dicke.get_dicke_klist(k, dB)
            if psi.shape[1] == len(klist):
                ref_rho, nrm = R.bosonic_reduced_state(psi, klist, dA, dB)
                certified = ctx.check(abs(nrm - 1) <= 1e-10 and np.abs(ref_rho - dm).max() <= 1e-10, 'pureb/state-not-reduction-of-bosonic-pure-state',
                                      'PureBosonicExt.dm_torch differs from Tr_{B^(k-1)} of the pure state on A (x) Sym^k(B) with the model\'s '
                                      'coordinates (explicit Dicke embedding + explicit partial trace)',
                                      lambda: dict(wit, max_abs_err=float(np.abs(ref_rho - dm).max()), norm_psi=nrm, got=dm, expected=ref_rho))
        mon.labels[content_digest(dm)] = {'kind': 'pureb', 'k': k, 'dims': (dA, dB), 'certified': bool(certified)}
        mon.last_state = dm

    ctx.attach(PB, 'forward', post=post_pb_forward, point='PureBosonicExt.forward')

    # ---------------------------------------------------------------- AutodiffCHAREE (producer)
    AC = E.cha.AutodiffCHAREE

    def post_ac_forward(c):
        if c.exc is not None:
            return
        model = c.args[0]
        if model.dm_torch is None:
            return
        dA, dB = int(model.dim0), int(model.dim1)
        dm = model.dm_torch.detach().cpu().numpy().copy()
        wit = {'dims': (dA, dB), 'num_state': int(model.num_state)}
        ok = dm.shape == (dA * dB, dA * dB) and bool(np.all(np.isfinite(dm)))
        ctx.check(ok, 'cha-model/shape', 'AutodiffCHAREE.dm_torch must be a finite (dA*dB, dA*dB) matrix', wit)
        if not ok:
            return
        import torch
        with torch.no_grad():
            p = model.manifold.manifold_p().detach().cpu().numpy()
            a = model.manifold.manifold_psiA().detach().cpu().numpy()
            b = model.manifold.manifold_psiB().detach().cpu().numpy()
        certified = False
        if p.ndim == 1 and a.shape == (len(p), dA) and b.shape == (len(p), dB):
            simplex = p.min() >= 0 and abs(p.sum() - 1) <= 1e-10 and np.abs(np.linalg.norm(a, axis=1) - 1).max() <= 1e-10 \
                and np.abs(np.linalg.norm(b, axis=1) - 1).max() <= 1e-10
            ref_rho = R.product_mixture(p, a, b)
            certified = ctx.check(simplex and np.abs(ref_rho - dm).max() <= 1e-10, 'cha-model/state-not-the-product-mixture',
                                  'AutodiffCHAREE.dm_torch is not sum_i p_i |a_i b_i><a_i b_i| of the model\'s own simplex weights and unit vectors',
                                  lambda: dict(wit, max_abs_err=float(np.abs(ref_rho - dm).max()), p_sum=float(p.sum()), p_min=float(p.min())))
        m = R.ppt_margin(dm, dA, dB)
        ctx.check(m >= -1e-12, 'inner-in-outer/cha-model-state-not-ppt', 'a state produced by AutodiffCHAREE is not a PPT state (reference eigensolver)',
                  lambda: dict(wit, margin=m, rho=dm))
        mon.labels[content_digest(dm)] = {'kind': 'cha-model', 'dims': (dA, dB), 'certified': bool(certified)}
        mon.last_state = dm

    ctx.attach(AC, 'forward', post=post_ac_forward, point='AutodiffCHAREE.forward')

    # ---------------------------------------------------------------- CHABoundaryBagging.solve (producer + event)
    CB = E.cha.CHABoundaryBagging

    def post_cha_solve(c):
        mon.last_cha_state = None
        if c.exc is not None:
            if isinstance(c.exc, SolverError):
                ctx.inconclusive('cha-solver-error')
            elif isinstance(c.exc, RuntimeError) and 'initial state' in str(c.exc):
                ctx.inconclusive('cha-init-failed')
            elif isinstance(c.exc, AssertionError) and 'cvxpy solve failed' in str(c.exc):
                ctx.inconclusive('cha-lp-none')
            return
        model = c.args[0]
        dm = np.asarray(c.arg(1, 'dm'))
        return_info = bool(c.arg(8, 'return_info', False))
        dA, dB = int(model.dimA), int(model.dimB)
        beta = c.result[0] if return_info else c.result
        if beta is None or not np.isfinite(beta):
            ctx.inconclusive('cha-lp-none')
            return
        beta = float(beta)
        if not _admissible(dm):
            return
        wit = {'dims': (dA, dB), 'beta': beta, 'maxiter': c.arg(2, 'maxiter', 150), 'seed': c.arg(9, 'seed')}
        if return_info:
            ketA, ketB, lam, _hist = c.result[1]
            ketA, ketB, lam = np.asarray(ketA), np.asarray(ketB), np.asarray(lam)
            point = 'cha/feasible-point'
            ok = lam.ndim == 1 and len(lam) > 0 and ketA.shape == (len(lam), dA) and ketB.shape == (len(lam), dB)
            ctx.check(ok, 'cha/info-shape', 'CHABoundaryBagging.solve(return_info=True) must return matching ketA, ketB, lambda', wit, point=point)
            if not ok:
                return
            # LP answer (cvxpy/CLARABEL): weights and the re-summed state carry the LP solver's feasibility tolerance -> DESIGN section 3
            # solver-answer slack 1e-4 (observed on the unchanged tree: |sum-1| up to 3.4e-5 after numqi drops lambda<=0, on-ray error 9.4e-6)
            ctx.check(lam.min() >= 0 and abs(lam.sum() - 1) <= TOL_ORDER and np.abs(np.linalg.norm(ketA, axis=1) - 1).max() <= 1e-8
                      and np.abs(np.linalg.norm(ketB, axis=1) - 1).max() <= 1e-8, 'cha/weights-not-on-simplex',
                      'CHA feasible point: weights must be >=0 and sum to 1, product vectors must be unit vectors',
                      lambda: dict(wit, lam_sum=float(lam.sum()), lam_min=float(lam.min())), point=point)
            sigma = R.product_mixture(lam, ketA, ketB)
            target = R.ray_point(dm, beta)
            mon.note_max('cha |sum(lambda)-1|', abs(lam.sum() - 1))
            mon.note_max('cha max|sigma-ray(beta)|', np.abs(sigma - target).max())
            ok = ctx.check(np.abs(sigma - target).max() <= TOL_ORDER, 'cha/feasible-point-not-on-ray',
                           'CHA feasible point: sum_i lambda_i |a_i b_i><a_i b_i| differs from the state at distance beta on the ray of rho',
                           lambda: dict(wit, max_abs_err=float(np.abs(sigma - target).max())), point=point)
            t2 = np.asarray(E._misc.hf_interpolate_dm(dm, beta=beta))
            ctx.check(t2.shape == sigma.shape and np.abs(sigma - t2).max() <= TOL_ORDER, 'cha/feasible-point!=hf_interpolate_dm',
                      'CHA feasible point differs from hf_interpolate_dm(rho, beta)', wit, point=point)
            m = R.ppt_margin(sigma, dA, dB)
            ctx.check(m >= -1e-9, 'inner-in-outer/cha-point-not-ppt', 'CHA feasible point (a product mixture) is not PPT by the reference eigensolver',
                      lambda: dict(wit, margin=m), point=point)
            if ok:
                s = R.herm(sigma / np.trace(sigma).real)
                mon.labels[content_digest(s)] = {'kind': 'cha-point', 'dims': (dA, dB), 'certified': True}
                mon.last_cha_state = s
        mon.event(dm, (dA, dB), 'cha', beta, certified=bool(return_info and mon.last_cha_state is not None))

    ctx.attach(CB, 'solve', post=post_cha_solve, point='CHABoundaryBagging.solve')


# =============================================================================== offline checker over the event log
def _relation(e1, e2):
    """(key, slack) if set(e1) is contained in set(e2) for mathematical reasons (so beta1 <= beta2), else None."""
    m1, m2 = e1['method'], e2['method']
    exact = {'dm', 'ppt', 'ref-dm', 'ref-ppt'}
    slack = TOL_EXACT if (m1 in exact and m2 in exact) else TOL_ORDER
    if m2 in ('dm', 'ref-dm'):
        if m1 in ('ppt', 'ref-ppt'):
            return 'nesting/ppt<=dm', slack
        if m1 == 'symext':
            return 'nesting/kext<=dm', slack
        if m1 in ('cha', 'sep-point'):
            return 'nesting/cha<=dm', slack
        if m1 == 'pureb-state':
            return 'nesting/pureb-state<=dm', slack
        if m1 == 'kext-state':
            return 'nesting/certified-kext-state<=dm', slack
        if m1 == 'ref-boson':
            return 'nesting/reference-bosonic-sdp<=dm', slack
        return None
    if e1['dims'] is None or e1['dims'] != e2['dims']:
        return None
    if m2 in ('ppt', 'ref-ppt'):
        if m1 == 'symext' and e1['ppt']:
            return 'nesting/kext+ppt<=ppt', slack
        if m1 in ('cha', 'sep-point'):
            return 'nesting/cha<=ppt', slack
        return None
    if m2 == 'ref-boson':
        # reference SDP of the bosonic k2-extension set: contains every bosonic k1>=k2 extension set and every separable point
        if m1 == 'symext' and e1['boson'] and e1['k'] >= e2['k']:
            return 'nesting/boson-kext<=reference-bosonic-sdp', slack
        if m1 in ('cha', 'sep-point'):
            return 'nesting/cha<=reference-bosonic-sdp', slack
        if m1 == 'pureb-state' and e1['k'] >= e2['k']:
            return 'nesting/pureb-state<=reference-bosonic-sdp', slack
        return None
    if m2 == 'symext':
        if m1 == 'ref-boson':
            if e1['k'] >= e2['k'] and not e2['ppt']:
                return 'nesting/reference-bosonic-sdp<=kext', slack
            return None
        if m1 in ('cha', 'sep-point'):
            return 'nesting/cha<=kext', slack
        if m1 == 'pureb-state':
            if e1['k'] >= e2['k'] and not e2['ppt']:
                return 'nesting/pureb-state<=kext', slack
            return None
        if m1 == 'kext-state':
            if e1['k'] >= e2['k'] and not e2['ppt'] and not e2['boson']:
                return 'nesting/certified-kext-state<=kext', slack
            return None
        if m1 == 'symext':
            a1 = (e1['k'], int(e1['ppt']), int(e1['boson']))
            a2 = (e2['k'], int(e2['ppt']), int(e2['boson']))
            if a1 == a2 or not all(x >= y for x, y in zip(a1, a2)):
                return None
            diff = [x != y for x, y in zip(a1, a2)]
            if diff == [True, False, False]:
                return 'nesting/k+1<=k', slack
            if diff == [False, True, False]:
                return 'nesting/kext+ppt<=kext', slack
            if diff == [False, False, True]:
                return 'nesting/boson<=symmetric', slack
            return 'nesting/kext-mixed-order', slack
    return None


def _refined_beta(mon, e, dig, d):
    """beta of the event, re-solved to 1e-8 if it came from the k-extension SDP (other methods are returned as recorded)."""
    if e['method'] != 'symext':
        return e['beta']
    rho = mon.rho_of_dir.get((dig, d))
    if rho is None:
        return None
    if e.get('src') in ('numrange', 'pptnr'):
        r = mon.refined_numrange(rho, e['dims'], e['k'], e['ppt'], e['boson'], e['src'])
    else:
        r = mon.refined_boundary(rho, e['dims'], e['k'], e['ppt'], e['boson'])
    return None if r is None else float(r)


def check_nesting(ctx, mon):
    groups = {}
    for e in mon.log:
        groups.setdefault((e['dig'], e['d']), []).append(e)
    nsample = 0
    for (dig, d), evs in groups.items():
        # identical repeated events (same method/config/beta) are compared once
        uniq = {}
        for e in evs:
            uniq.setdefault((e['method'], e.get('src'), e['dims'], e.get('k'), e.get('ppt'), e.get('boson'), round(e['beta'], 12)), e)
        evs = list(uniq.values())
        betas = [e['beta'] for e in evs]
        has_sdp = any(e['method'] in ('symext', 'cha', 'pureb-state', 'sep-point', 'kext-state', 'ref-boson') for e in evs)
        if has_sdp:
            dims = next((e['dims'] for e in evs if e['dims'] is not None), None)
            ctx.case('nesting', d, dig, sorted(_cfg_str(e) for e in evs), nontrivial=(max(betas) - min(betas) > 1e-3))
            if nsample < 3:
                nsample += 1
                ctx.sample({'kind': 'nesting', 'direction_digest': dig, 'dims': dims,
                            'betas': {f'{_cfg_str(e)}': round(e['beta'], 8) for e in sorted(evs, key=lambda t: -t['beta'])}})
        for e1 in evs:
            for e2 in evs:
                if e1 is e2:
                    continue
                rel = _relation(e1, e2)
                if rel is None:
                    continue
                key, slack = rel
                exc = e1['beta'] - e2['beta']
                mon.compared[key] = mon.compared.get(key, 0) + 1
                if -exc > 1e-3:
                    mon.separated[key] = mon.separated.get(key, 0) + 1
                store = mon.excess_flagged if (e1['inacc'] or e2['inacc']) else mon.excess
                if key not in store or exc > store[key]:
                    store[key] = exc
                if exc > slack and (e1['inacc'] or e2['inacc']):
                    ctx.inconclusive('nesting/solver-flagged-inaccurate')
                    ctx.hit('nesting/offline')
                    continue
                wit = {'inner': _cfg_str(e1), 'outer': _cfg_str(e2), 'dims': e1['dims'] or e2['dims'], 'beta_inner': e1['beta'],
                       'beta_outer': e2['beta'], 'excess': exc}
                if exc > slack and 'symext' in (e1['method'], e2['method']):
                    # the default SDP solve is a first-order method with eps=1e-4: decide with the same numqi SDP solved to 1e-8
                    r1, r2 = _refined_beta(mon, e1, dig, d), _refined_beta(mon, e2, dig, d)
                    if r1 is None or r2 is None:
                        ctx.inconclusive('nesting/refinement-solver-failure')
                        ctx.hit('nesting/offline')
                        continue
                    exc_r = r1 - r2
                    wit.update({'beta_inner_resolved_1e-8': r1, 'beta_outer_resolved_1e-8': r2, 'excess_resolved': exc_r})
                    if key not in mon.excess_refined or exc_r > mon.excess_refined[key]:
                        mon.excess_refined[key] = exc_r
                    if exc_r <= slack:
                        ctx.inconclusive('nesting/excess-is-default-solver-tolerance(holds when re-solved to 1e-8)')
                        ctx.hit('nesting/offline')
                        continue
                    exc = exc_r
                ctx.set_case({'direction_digest': dig, 'inner': e1, 'outer': e2})
                ctx.check(exc <= slack, key, f'{key}: boundary length of the smaller set exceeds that of the larger set along the same direction '
                          f'by more than {slack:g}', wit, point='nesting/offline')
        # two-sided checks: 1-ext = all states, 1-ext + PPT = PPT states (definitions of the first level of the hierarchy), and
        # the bosonic k-ext boundary against the reference's own SDP on A (x) Sym^k(B)
        for e1 in evs:
            if e1['method'] != 'symext':
                continue
            for e2 in evs:
                if e1['k'] == 1 and e1['ppt'] and e2['method'] in ('ppt', 'ref-ppt') and e2['dims'] == e1['dims']:
                    key = 'symext-k1+ppt/!=ppt-boundary'
                elif e1['k'] == 1 and (not e1['ppt']) and e2['method'] in ('dm', 'ref-dm'):
                    key = 'symext-k1/!=dm-boundary'
                elif e2['method'] == 'ref-boson' and e1['boson'] and (not e1['ppt']) and e1['k'] == e2['k'] and e1['dims'] == e2['dims']:
                    key = 'symext-boson/!=reference-bosonic-sdp'
                elif (e2['method'] == 'symext' and e1.get('src') in ('numrange', 'pptnr') and e2.get('src') is None and e1['dims'] == e2['dims']
                      and (e1['k'], e1['ppt'], e1['boson']) == (e2['k'], e2['ppt'], e2['boson'])):
                    key = 'numerical_range/!=symext-boundary-on-the-same-ray'
                else:
                    continue
                gap = abs(e1['beta'] - e2['beta'])
                mon.compared[key] = mon.compared.get(key, 0) + 1
                if key not in mon.excess or gap > mon.excess[key]:
                    mon.excess[key] = gap
                if gap > TOL_ORDER and e1['inacc']:
                    ctx.inconclusive('nesting/solver-flagged-inaccurate')
                    continue
                wit = {'symext': _cfg_str(e1), 'other': e2['method'], 'dims': e1['dims'], 'beta_symext': e1['beta'], 'beta_other': e2['beta']}
                if gap > TOL_ORDER:
                    r1, r2 = _refined_beta(mon, e1, dig, d), _refined_beta(mon, e2, dig, d)
                    if r1 is None or r2 is None:
                        ctx.inconclusive('nesting/refinement-solver-failure')
                        continue
                    wit['beta_symext_resolved_1e-8'] = r1
                    wit['beta_other_resolved_1e-8'] = r2
                    if abs(r1 - r2) <= TOL_ORDER:
                        ctx.inconclusive('nesting/excess-is-default-solver-tolerance(holds when re-solved to 1e-8)')
                        continue
                    gap = abs(r1 - r2)
                ctx.set_case({'direction_digest': dig, 'inner': e1, 'outer': e2})
                ctx.check(gap <= TOL_ORDER, key, 'the k-extension boundary must coincide with its independent reference (k=1: state-space / PPT boundary; '
                          'bosonic: the reference SDP on A (x) Sym^k(B)) up to 1e-4',
                          wit, point='nesting/offline')
    ctx.set_case(None)
    ctx.extra['nesting_worst_excess(inner-outer; <=slack required)'] = {k: float(v) for k, v in sorted(mon.excess.items())}
    ctx.extra['nesting_worst_excess_when_solver_flagged_inaccurate'] = {k: float(v) for k, v in sorted(mon.excess_flagged.items())}
    ctx.extra['nesting_excess_after_1e-8_re-solve(only pairs that exceeded the slack)'] = {k: float(v) for k, v in sorted(mon.excess_refined.items())}
    ctx.extra['sdp_re-solved_to_1e-8'] = mon.n_refined
    ctx.extra['nesting_comparisons'] = dict(sorted(mon.compared.items()))
    ctx.extra['nesting_strictly_separated(>1e-3)'] = dict(sorted(mon.separated.items()))
    ctx.extra['log_events'] = len(mon.log)
    ctx.extra['smallest_threshold_margins(|min eig| at beta*(1-/+1e-6))'] = {k: float(v) for k, v in sorted(mon.margin.items())}
    ctx.extra['ghost_labels_issued'] = len(mon.labels)


# =============================================================================== workload helpers
def _rand_complex(rng, *shape):
    return rng.normal(size=shape) + 1j * rng.normal(size=shape)


def rand_dm(rng, d, rank=None):
    rank = d if rank is None else rank
    g = _rand_complex(rng, d, rank)
    rho = g @ g.conj().T
    return R.herm(rho / np.trace(rho).real)


def rand_herm_direction(rng, d):
    """a Hermitian trace-one matrix that is in general not positive (only its direction matters)."""
    g = _rand_complex(rng, d, d)
    h = g + g.conj().T
    h = h - (np.trace(h).real / d) * np.eye(d)
    h = h / np.sqrt(np.vdot(h, h).real / 2)
    return R.herm(np.eye(d) / d + rng.uniform(0.02, 0.6) * h)


def rand_pure_entangled(rng, dA, dB):
    psi = _rand_complex(rng, dA * dB)
    return R.proj(psi)


def rand_pure_product(rng, dA, dB):
    return R.proj(np.kron(_rand_complex(rng, dA), _rand_complex(rng, dB)))


def reflect(rho):
    d = rho.shape[0]
    return R.herm(2 * np.eye(d) / d - rho)


def named_directions(dA, dB):
    out = [('max-entangled', R.max_entangled(dA, dB))]
    if dA == dB:
        out.append(('werner(+)', R.werner_like(dA, 0.9)))
        out.append(('werner(-)', R.werner_like(dA, -0.9)))
        d = dA
        out.append(('isotropic', R.herm(0.7 * R.max_entangled(d, d) + 0.3 * np.eye(d * d) / (d * d))))
    if (dA, dB) == (3, 3):
        out.append(('tiles-bes', R.tiles_bes()))
    return out


def partial_swap_werner(dA, dB, a):
    """(1 - a*F)/Tr with F the swap on the common min(dA,dB)-dimensional block (the Werner family for dA == dB)."""
    m = min(dA, dB)
    f = np.zeros((dA * dB, dA * dB))
    for i in range(m):
        for j in range(m):
            f[i * dB + j, j * dB + i] = 1
    x = np.eye(dA * dB) - a * f
    return R.herm(x / np.trace(x))


def antisymmetric_heavy_directions(rng, dA, dB, nrand):
    """directions with a large antisymmetric (Werner-like) component: there the bosonic and the symmetric extension sets differ
    most (for generic random directions their boundaries coincide within solver tolerance)."""
    out = [('werner-like(+0.9)', partial_swap_werner(dA, dB, 0.9)), ('werner-like(-0.9)', partial_swap_werner(dA, dB, -0.9))]
    for j in range(nrand):
        w = [0.1, 0.03, 0.3][j % 3]
        out.append((f'werner-like(+0.9)+{w}*random-dm', R.herm((1 - w) * partial_swap_werner(dA, dB, 0.9) + w * rand_dm(rng, dA * dB))))
    if nrand >= 2:
        out.append(('werner-like(+0.5)', partial_swap_werner(dA, dB, 0.5)))
        out.append(('max-entangled', R.max_entangled(dA, dB)))
        out.append(('werner-like(+0.9)+0.2*pure-entangled', R.herm(0.8 * partial_swap_werner(dA, dB, 0.9) + 0.2 * rand_pure_entangled(rng, dA, dB))))
        if (dA, dB) == (3, 3):
            out.append(('tiles-bes', R.tiles_bes()))
    return out


def draw_direction(rng, dA, dB, i):
    """deterministic mixture of direction classes (i = running index inside the shard)."""
    d = dA * dB
    named = named_directions(dA, dB)
    c = i % 10
    if c in (0, 1, 2):
        return 'dm-full-rank', rand_dm(rng, d)
    if c == 3:
        return 'hermitian', rand_herm_direction(rng, d)
    if c in (4, 5):
        return 'pure-entangled', rand_pure_entangled(rng, dA, dB)
    if c == 6:
        r = int(rng.integers(2, d))
        return f'dm-rank{r}', rand_dm(rng, d, r)
    if c == 7:
        n, m = named[(i // 10) % len(named)]
        return n, m
    if c == 8:
        return 'reflected-pure-entangled', reflect(rand_pure_entangled(rng, dA, dB))
    return 'pure-product', rand_pure_product(rng, dA, dB)


class Driver:
    """calls into numqi on behalf of the workloads: SolverError -> inconclusive, 'inaccurate' warnings flag the events."""

    def __init__(self, ctx, numqi, mon):
        import cvxpy
        self.ctx, self.numqi, self.mon = ctx, numqi, mon
        self.E = numqi.entangle
        self.SolverError = cvxpy.error.SolverError

    def sdp(self, fn, reason='sdp-solver-error'):
        n0 = len(self.mon.log)
        with warnings.catch_warnings(record=True) as w:
            warnings.simplefilter('always')
            try:
                r = fn()
            except self.SolverError:
                self.ctx.inconclusive(reason)
                return None
        if any('inaccurate' in str(x.message).lower() for x in w):
            for e in self.mon.log[n0:]:
                e['inacc'] = True
            self.ctx.extra['solves_flagged_inaccurate'] = self.ctx.extra.get('solves_flagged_inaccurate', 0) + 1
        return r

    def _timed(self, tag, fn):
        import time
        t0 = time.time()
        try:
            return self.sdp(fn)
        finally:
            dt = time.time() - t0
            rec = self.ctx.extra.setdefault('sdp_wall_s(count,total,max)', {}).setdefault(tag, [0, 0.0, 0.0])
            rec[0] += 1
            rec[1] = round(rec[1] + dt, 2)
            rec[2] = round(max(rec[2], dt), 2)
            if dt > 10:
                slow = self.ctx.extra.setdefault('slow_sdp_calls(>10s wall)', [])
                if len(slow) < 6:
                    slow.append({'call': tag, 'wall_s': round(dt, 1), 'case': self.ctx._case})

    def boundary(self, rho, dims, k, ppt, boson, **kw):
        return self._timed(f'boundary{tuple(dims)}k{k}ppt{int(ppt)}boson{int(boson)}',
                           lambda: self.E.get_ABk_symmetric_extension_boundary(rho, dims, k, use_ppt=ppt, use_boson=boson, **kw))

    def ref_boson(self, rho, dims, k):
        """independent oracle: the reference's own SDP for the bosonic k-extension boundary (explicit Dicke embedding, eps=1e-7)."""
        import time
        t0 = time.time()
        b = R.bosonic_ext_boundary_sdp(rho, dims[0], dims[1], k)
        rec = self.ctx.extra.setdefault('sdp_wall_s(count,total,max)', {}).setdefault(f'reference-bosonic-sdp{tuple(dims)}k{k}', [0, 0.0, 0.0])
        dt = time.time() - t0
        rec[0] += 1
        rec[1] = round(rec[1] + dt, 2)
        rec[2] = round(max(rec[2], dt), 2)
        if b is None:
            self.ctx.inconclusive('reference-sdp-not-optimal')
            return None
        self.ctx.hit('reference-bosonic-sdp')
        self.mon.event(rho, dims, 'ref-boson', b, k=int(k))
        return b

    def is_ext(self, rho, dims, k, ppt, boson, tag=''):
        return self._timed(f'is_ext{tag}{tuple(dims)}k{k}ppt{int(ppt)}boson{int(boson)}',
                           lambda: self.E.is_ABk_symmetric_ext(rho, dims, k, use_ppt=ppt, use_boson=boson))


def symext_configs(kmax, lean=False):
    out = []
    for k in range(1, kmax + 1):
        for ppt in (False, True):
            for boson in (False, True):
                if k == 1 and boson:
                    continue  # identical problem
                out.append((k, ppt, boson))
    return out


# =============================================================================== workloads
def run_thresholds(ctx, numqi, mon, shard):
    E = numqi.entangle
    rng = ctx.rng
    n = shard['n']
    dims_list = DIMS + [(3, 2)]
    nppt_inside = 0
    for it in range(n):
        dA, dB = dims_list[it % len(dims_list)]
        d = dA * dB
        kind, rho = draw_direction(rng, dA, dB, it // len(dims_list))
        if it % 7 == 3:
            kind, rho = 'reflected-' + kind, reflect(rho)
        ctx.workload('corner' if kind in ('pure-product', 'max-entangled', 'tiles-bes') or kind.startswith('werner') or kind == 'isotropic' else 'random')
        ctx.set_case({'op': 'threshold', 'dims': (dA, dB), 'direction': kind, 'it': it})
        src = R.direction_digest_source(rho)
        with ctx.guard('threshold'):
            nrm = R.bloch_norm(rho)
            give_norm = (it % 3 == 1)
            bl, bu = E.get_density_matrix_boundary(rho, dm_norm=nrm if give_norm else None)
            pl, pu = E.get_ppt_boundary(rho, (dA, dB), dm_norm=nrm if (it % 3 == 2) else None)
            E.get_ppt_boundary(rho, (dA, dB), within_dm=False)
            ok = all(np.ndim(t) == 0 and np.isfinite(t) for t in (bl, bu, pl, pu))
            if ok:
                if pu < bu - 1e-6 or pl > bl + 1e-6:
                    nppt_inside += 1
                # realistic chain of the repository's own users: walk to the reported boundary / a fraction of it
                for beta in (float(bu), float(bl), float(pu) * rng.uniform(0.1, 0.99), float(pl) * rng.uniform(0.1, 0.99), rng.uniform(-2, 2)):
                    E.hf_interpolate_dm(rho, beta=beta)
                E.hf_interpolate_dm(rho, beta=float(pu), dm_norm=nrm)
                E.hf_interpolate_dm(rho, alpha=float(rng.uniform(-1, 2)))
            ctx.case('threshold', (dA, dB), src, nontrivial=True,
                     sample={'kind': 'threshold', 'dims': (dA, dB), 'direction': kind, 'direction_digest': digest(src), 'beta_l': bl, 'beta_u': bu,
                             'beta_ppt_l': pl, 'beta_ppt_u': pu} if it < 4 else None)
    # batched inputs: shapes (1,), (k,), (k,l); dm_norm as array / None
    ctx.workload('random')
    for it in range(max(6, n // 6)):
        dA, dB = dims_list[it % len(dims_list)]
        d = dA * dB
        shape = [(1,), (5,), (2, 3), (3, 1), (4,)][it % 5]
        nb = int(np.prod(shape))
        mats = np.stack([draw_direction(rng, dA, dB, int(rng.integers(0, 1000)))[1] for _ in range(nb)]).reshape(shape + (d, d))
        ctx.set_case({'op': 'threshold-batched', 'dims': (dA, dB), 'batch_shape': shape, 'it': it})
        with ctx.guard('threshold-batched'):
            norms = np.array([R.bloch_norm(m) for m in mats.reshape(-1, d, d)]).reshape(shape)
            E.get_density_matrix_boundary(mats, dm_norm=norms if it % 2 else None)
            E.get_ppt_boundary(mats, (dA, dB), dm_norm=norms if it % 3 == 0 else None, within_dm=(it % 4 != 3))
            ctx.case('threshold-batched', (dA, dB), shape, np.round(mats, 7) + 0.0, nontrivial=True)
    ctx.extra['threshold_cases_with_ppt_boundary_strictly_inside_dm_boundary'] = nppt_inside


def run_nest(ctx, numqi, mon, shard):
    E = numqi.entangle
    rng = ctx.rng
    drv = Driver(ctx, numqi, mon)
    dA, dB = shard['dims']
    dims = (dA, dB)
    kmax = shard['kmax']
    cfgs = symext_configs(kmax)
    part = shard['part']
    done = 0
    for i in range(shard['ndir']):
        if cpu_left(ctx) < 0:
            ctx.inconclusive('budget-exhausted', shard['ndir'] - i)
            break
        kind, rho = draw_direction(rng, dA, dB, i + 3 * part)
        ctx.workload('corner' if kind in ('pure-product', 'max-entangled', 'tiles-bes', 'isotropic') or kind.startswith('werner') else 'random')
        ctx.set_case({'op': 'nest', 'dims': dims, 'direction': kind, 'i': i, 'kmax': kmax})
        with ctx.guard('nest'):
            bl, bu = E.get_density_matrix_boundary(rho)
            pl, pu = E.get_ppt_boundary(rho, dims)
            betas = {}
            for (k, ppt, boson) in cfgs:
                b = drv.boundary(rho, dims, k, ppt, boson)
                if b is not None and np.isfinite(b):
                    betas[(k, ppt, boson)] = float(b)
            if i % 3 == 0 and (kmax, False, True) in betas:
                drv.ref_boson(rho, dims, kmax)
            # relational: a state max(1e-2, 10%) inside the reported k-ext boundary must be accepted, one 3e-2 outside rejected
            # (1e-3 inside, or 1e-2 inside next to a pure state, makes the first-order feasibility solver iterate for 10-90 s)
            if betas:
                cfg = list(betas)[int(rng.integers(len(betas)))]
                b = betas[cfg]
                inner = E.hf_interpolate_dm(rho, beta=b - max(1e-2, 0.1 * b)) if b > 2e-2 else None
                if inner is not None and R.min_eig(inner) > 1e-9:
                    r = drv.is_ext(inner, dims, *cfg, tag='-inner')
                    if r is not None and not bool(r):
                        verdict = mon.judge_rejection(inner, dims, cfg[0], cfg[1], cfg[2])
                        if verdict != 'rejected':
                            ctx.inconclusive(verdict)
                            r = None
                    if r is not None:
                        ctx.check(bool(r), 'symext/inside-own-boundary-rejected',
                                  'the state max(1e-2, 10%) inside the reported k-extension boundary is rejected by is_ABk_symmetric_ext (same options)',
                                  {'dims': dims, 'cfg': cfg, 'beta': b, 'direction': kind})
                if b + 3e-2 < float(bu) - 1e-6:
                    outer = E.hf_interpolate_dm(rho, beta=b + 3e-2)
                    r = drv.is_ext(outer, dims, *cfg, tag='-outer')
                    if r is not None:
                        ctx.check(not bool(r), 'symext/outside-own-boundary-accepted',
                                  'the state 3e-2 outside the reported k-extension boundary is accepted by is_ABk_symmetric_ext (same options)',
                                  {'dims': dims, 'cfg': cfg, 'beta': b, 'direction': kind})
            done += 1
            if i < 2:
                ctx.sample({'kind': 'nest-direction', 'dims': dims, 'direction': kind, 'direction_digest': digest(R.direction_digest_source(rho)),
                            'beta_dm': float(bu), 'beta_ppt': float(pu),
                            'beta_kext': {f'k={k},ppt={int(p)},boson={int(b)}': round(v, 8) for (k, p, b), v in betas.items()}})
    # batched == per item for the SDP boundary (cheap configuration)
    ctx.workload('random')
    ctx.set_case({'op': 'nest-batched', 'dims': dims})
    with ctx.guard('nest-batched'):
        mats = np.stack([rand_dm(rng, dA * dB), rand_pure_entangled(rng, dA, dB), rand_herm_direction(rng, dA * dB)])
        k = min(2, kmax)
        boson = bool(part % 2)
        rb = drv.boundary(mats, dims, k, False, boson)
        if rb is not None and np.shape(rb) == (3,):
            for j in range(3):
                rs = drv.boundary(mats[j], dims, k, False, boson)
                if rs is not None and np.isfinite(rs) and np.isfinite(rb[j]):
                    # both are default-tolerance (1e-4) solves of the same SDP: they may differ by twice that. Decide against the 1e-8 re-solve.
                    gap = abs(float(rs) - float(rb[j]))
                    wit = {'dims': dims, 'k': k, 'boson': boson, 'index': j, 'batched': float(rb[j]), 'single': float(rs)}
                    if gap > 1e-5:
                        rr = mon.refined_boundary(mats[j], dims, k, False, boson)
                        if rr is None:
                            ctx.inconclusive('nesting/refinement-solver-failure')
                            continue
                        wit['single_resolved_1e-8'] = float(rr)
                        gap = abs(float(rb[j]) - float(rr))
                        if gap <= TOL_ORDER and abs(float(rs) - float(rr)) <= TOL_ORDER:
                            ctx.hit('threshold/batched')
                            ctx.inconclusive('symext_boundary/batched-vs-single-within-default-solver-tolerance')
                            continue
                    ctx.check(gap <= TOL_ORDER, 'symext_boundary/batched!=single',
                              'batched get_ABk_symmetric_extension_boundary differs from the per-item call (and from its 1e-8 re-solve) by more than 1e-4',
                              wit, point='threshold/batched')
    ctx.extra['directions_done'] = done


def _drive_inner_state(ctx, drv, mon, dm, dims, kind, k_label, ks, rng, with_ppt):
    """feed a labelled inner-model state to the outer tests and record it as a point on its own ray.

    Quick tier: inner-model states sit on the boundary of the sets they are tested against, where the first-order feasibility
    solver needs 10-60 CPU s per call outside (2,2) (non-bosonic tests of PureBosonicExt states, all tests of nearly pure product
    mixtures); there the quick tier feeds the state moved 5% towards
    the maximally mixed state (same label: both sets are convex and contain the maximally mixed state). The thorough tier feeds
    every state as produced."""
    E = drv.E
    n = R.bloch_norm(dm)
    contracted = None
    if ctx.tier == 'quick' and tuple(dims) != (2, 2) and n > 1e-9:
        lab = mon.labels.get(content_digest(dm))
        if lab is not None:
            contracted = R.herm(R.ray_point(dm, 0.95 * n))
            mon.labels[content_digest(contracted)] = dict(lab, contracted_to=0.95)
    ctx.case('inner-in-outer', kind, dims, k_label, R.direction_digest_source(dm) if n > 1e-9 else 0, nontrivial=n > 1e-6)
    if n <= 1e-9:
        return
    method = 'pureb-state' if kind == 'pureb' else 'sep-point'
    mon.event(dm, dims, method, n, k=k_label)
    E.get_density_matrix_boundary(dm)
    E.get_ppt_boundary(dm, dims)
    for k in ks:
        for boson in (False, True):
            if k == 1 and boson:
                continue
            for ppt in ((False, True) if with_ppt else (False,)):
                if cpu_left(ctx) < 0:
                    ctx.inconclusive('budget-exhausted')
                    return
                drv.is_ext(contracted if (contracted is not None and (not boson or kind != 'pureb')) else dm, dims, k, ppt, boson)
    # the boundary of the outer set along the direction of the state must not be shorter than the state's own distance
    k = ks[-1]
    drv.boundary(dm, dims, k, bool(with_ppt and rng.integers(2)), bool(rng.integers(2)))


def run_pureb(ctx, numqi, mon, shard):
    import torch
    E = numqi.entangle
    rng = ctx.rng
    drv = Driver(ctx, numqi, mon)
    nsamp = 0
    for (dA, dB, k) in shard['cfg']:
        dims = (dA, dB)
        ctx.set_case({'op': 'pureb', 'dims': dims, 'k': k})
        with ctx.guard('pureb'):
            model = E.PureBosonicExt(dA, dB, k, distance_kind='gellmann')
            npar = len(numqi.optimize.get_model_flat_parameter(model))
            for s in range(shard['nstate']):
                if cpu_left(ctx) < 0:
                    ctx.inconclusive('budget-exhausted')
                    break
                scale = [0.1, 1.0, 10.0][(s + k) % 3]
                theta = rng.normal(size=npar) * scale
                ctx.set_case({'op': 'pureb', 'dims': dims, 'k': k, 'scale': scale, 's': s})
                ctx.workload('random')
                numqi.optimize.set_model_flat_parameter(model, theta)
                model.set_dm_target(rand_dm(rng, dA * dB))
                with torch.no_grad():
                    model()
                dm = mon.last_state
                ks = sorted(set([k, int(rng.integers(1, k + 1))]))
                _drive_inner_state(ctx, drv, mon, dm, dims, 'pureb', k, ks, rng, with_ppt=False)
                if nsamp < 3:
                    nsamp += 1
                    ctx.sample({'kind': 'pureb-state', 'dims': dims, 'k': k, 'param_scale': scale, 'gellmann_norm': R.bloch_norm(dm),
                                'direction_digest': digest(R.direction_digest_source(dm)), 'outer_k_tested': ks})
            # realistic driver: 5 L-BFGS steps towards an entangled target (every visited parameter point is monitored)
            ctx.workload('realistic')
            ctx.set_case({'op': 'pureb-lbfgs', 'dims': dims, 'k': k})
            model.set_dm_target(R.herm(0.8 * rand_pure_entangled(rng, dA, dB) + 0.2 * np.eye(dA * dB) / (dA * dB)))
            numqi.optimize.minimize(model, theta0=rng.normal(size=npar), maxiter=5, tol=1e-14, print_every_round=0)
            dm = mon.last_state
            if cpu_left(ctx) > 0 and shard.get('feed_lbfgs', True):
                _drive_inner_state(ctx, drv, mon, dm, dims, 'pureb', k, [k], rng, with_ppt=False)


def run_cha(ctx, numqi, mon, shard):
    import torch
    E = numqi.entangle
    rng = ctx.rng
    drv = Driver(ctx, numqi, mon)
    # ---- LP over a bag of product states: works with CLARABEL essentially only for (2,2); other dims are tried and counted
    ncha = shard['ncha']
    nsamp = 0
    for it in range(ncha):
        if cpu_left(ctx) < 0:
            ctx.inconclusive('budget-exhausted')
            break
        dA, dB = (2, 2) if it % 5 != 4 else DIMS[1 + (it // 5) % 3]
        dims = (dA, dB)
        kind, rho = draw_direction(rng, dA, dB, it)
        maxiter = it % 6
        seed = int(rng.integers(0, 2**31))
        return_info = (it % 4 != 3)
        ctx.workload('realistic')
        ctx.set_case({'op': 'cha-bagging', 'dims': dims, 'direction': kind, 'maxiter': maxiter, 'seed': seed, 'return_info': return_info})
        with ctx.guard('cha'):
            model = E.CHABoundaryBagging(dims)
            try:
                with warnings.catch_warnings():
                    warnings.simplefilter('ignore')
                    res = model.solve(rho, maxiter=maxiter, return_info=return_info, seed=seed)
            except drv.SolverError:
                continue  # counted by the monitor (cha-solver-error)
            except RuntimeError as e:
                if 'initial state' in str(e):
                    continue
                raise
            except AssertionError as e:
                if 'cvxpy solve failed' in str(e):
                    continue
                raise
            beta = res[0] if return_info else res
            if beta is None or not np.isfinite(beta):
                continue
            ctx.case('cha-bagging', dims, R.direction_digest_source(rho), maxiter, nontrivial=True)
            E.get_density_matrix_boundary(rho)
            pl, pu = E.get_ppt_boundary(rho, dims)
            kmax = shard['kmax22'] if dims == (2, 2) else 2
            kk = sorted(set([2, int(rng.integers(1, kmax + 1))]))
            betas = {}
            for k in kk:
                ppt = bool(rng.integers(2))
                boson = bool(rng.integers(2))
                betas[f'k={k},ppt={int(ppt)},boson={int(boson)}'] = drv.boundary(rho, dims, k, ppt, boson)
            sigma = mon.last_cha_state
            if sigma is not None:
                for (k, ppt, boson) in [(2, False, False), (2, True, True), (kk[-1], bool(rng.integers(2)), bool(rng.integers(2)))]:
                    drv.is_ext(sigma, dims, k, ppt, boson)
            if nsamp < 3:
                nsamp += 1
                ctx.sample({'kind': 'cha-bagging', 'dims': dims, 'direction': kind, 'maxiter': maxiter, 'beta_cha': float(beta), 'beta_ppt': float(pu),
                            'beta_kext': betas, 'direction_digest': digest(R.direction_digest_source(rho))})
    # ---- gradient model of the convex hull of product states at arbitrary parameter points
    for dims in DIMS:
        dA, dB = dims
        ctx.set_case({'op': 'cha-model', 'dims': dims})
        with ctx.guard('cha-model'):
            model = E.AutodiffCHAREE(dims, distance_kind='gellmann')
            npar = len(numqi.optimize.get_model_flat_parameter(model))
            for s in range(shard['nmodel']):
                if cpu_left(ctx) < 0:
                    ctx.inconclusive('budget-exhausted')
                    break
                scale = [0.1, 1.0, 10.0][(s + dA + dB) % 3]
                ctx.workload('random')
                ctx.set_case({'op': 'cha-model', 'dims': dims, 'scale': scale, 's': s})
                numqi.optimize.set_model_flat_parameter(model, rng.normal(size=npar) * scale)
                model.set_dm_target(rand_dm(rng, dA * dB))
                with torch.no_grad():
                    model()
                _drive_inner_state(ctx, drv, mon, mon.last_state, dims, 'cha-model', 0, [2], rng, with_ppt=True)
            ctx.workload('realistic')
            ctx.set_case({'op': 'cha-model-lbfgs', 'dims': dims})
            model.set_dm_target(R.herm(0.8 * rand_pure_entangled(rng, dA, dB) + 0.2 * np.eye(dA * dB) / (dA * dB)))
            numqi.optimize.minimize(model, theta0=rng.normal(size=npar), maxiter=5, tol=1e-14, print_every_round=0)
            if cpu_left(ctx) > 0:
                _drive_inner_state(ctx, drv, mon, mon.last_state, dims, 'cha-model', 0, [2], rng, with_ppt=True)


def run_certk(ctx, numqi, mon, shard):
    """reference-built states with an explicit k-symmetric (in general non-bosonic) extension: the only probes that tell a
    too small *non-bosonic* feasible set apart (every numqi inner model is bosonic-extendible)."""
    rng = ctx.rng
    drv = Driver(ctx, numqi, mon)
    shard = shard['certk']

    def feed(sigma, ext, dims, k, kind, contract):
        dA, dB = dims
        # re-verify the certificate before the label is issued: ext is PSD, trace one, invariant under the adjacent
        # transpositions of the B copies (they generate S_k), and reduces to sigma
        ok = abs(np.trace(ext) - 1) < 1e-10 and R.min_eig(ext) > -1e-10 and np.abs(R.reduce_ABk_to_AB(ext, dA, dB, k) - sigma).max() < 1e-10
        t = ext.reshape([dA] + [dB] * k + [dA] + [dB] * k)
        for j in range(k - 1):
            ax = list(range(2 * k + 2))
            ax[1 + j], ax[2 + j] = ax[2 + j], ax[1 + j]
            ax[k + 2 + j], ax[k + 3 + j] = ax[k + 3 + j], ax[k + 2 + j]
            ok = ok and np.abs(np.transpose(t, ax) - t).max() < 1e-10
        if not ok:
            raise RuntimeError('reference certificate of a k-extendible state failed its own re-verification')
        n = R.bloch_norm(sigma)
        ctx.case('certified-kext', kind, dims, k, R.direction_digest_source(sigma), nontrivial=n > 1e-6)
        inner = R.herm(R.ray_point(sigma, contract * n))
        for st in (sigma, inner):
            mon.labels[content_digest(st)] = {'kind': 'kext-certified', 'k': k, 'dims': dims, 'certified': True}
        mon.event(sigma, dims, 'kext-state', n, k=k)
        drv.E.get_density_matrix_boundary(sigma)
        drv.E.get_ppt_boundary(sigma, dims)
        for kk in sorted(set([k, max(1, k - 1)])):
            drv.is_ext(inner, dims, kk, False, False)
        b = drv.boundary(sigma, dims, k, False, False)
        bb = drv.boundary(sigma, dims, k, False, True)
        ctx.sample({'kind': 'certified-kext-state', 'construction': kind, 'dims': dims, 'k': k, 'gellmann_norm': n,
                    'beta_kext': None if b is None else float(b), 'beta_kext_boson': None if bb is None else float(bb)})

    for (d, k) in shard['hook']:
        if cpu_left(ctx) < 0:
            ctx.inconclusive('budget-exhausted')
            break
        ctx.workload('corner')
        ctx.set_case({'op': 'certk-hook', 'dims': (d, d), 'k': k})
        with ctx.guard('certk'):
            r = R.hook_kext_state(d, k)
            if r is None:
                continue
            feed(r[0], r[1], (d, d), k, 'hook-projector', 0.97)
            # a non-Werner neighbour: mixture with a symmetrised random pure state (still certified, by convexity)
            g = _rand_complex(rng, d * d**k)
            s2, e2 = R.symmetrised_kext_state(R.proj(g), d, d, k)
            w = 0.8
            feed(R.herm(w * r[0] + (1 - w) * s2), w * r[1] + (1 - w) * e2, (d, d), k, 'hook-projector+symmetrised-pure', 0.97)
    for (dA, dB, k) in shard['sym']:
        for it in range(shard['nsym']):
            if cpu_left(ctx) < 0:
                ctx.inconclusive('budget-exhausted')
                break
            ctx.workload('random')
            rank = 1 + it % 3
            ctx.set_case({'op': 'certk-symmetrised', 'dims': (dA, dB), 'k': k, 'rank': rank, 'it': it})
            with ctx.guard('certk'):
                s2, e2 = R.symmetrised_kext_state(rand_dm(rng, dA * dB**k, rank), dA, dB, k)
                feed(s2, e2, (dA, dB), k, f'symmetrised-rank{rank}', 0.97)


def run_named(ctx, numqi, mon, shard):
    """antisymmetric-heavy named directions: bosonic and symmetric k-extension boundaries for every k of the plan, the bosonic one
    also against the reference's own SDP (two-sided); the offline checker then sees beta_(k+1)-boson <= beta_k-boson <= beta_k-sym
    on directions where these are strictly different."""
    E = numqi.entangle
    rng = ctx.rng
    drv = Driver(ctx, numqi, mon)
    for plan in shard['named']:
        dA, dB = plan['dims']
        dims = (dA, dB)
        ks = plan['ks']
        for idx, (kind, rho) in enumerate(antisymmetric_heavy_directions(rng, dA, dB, plan['nrand'])):
            if cpu_left(ctx) < 0:
                ctx.inconclusive('budget-exhausted')
                break
            exact = '+' not in kind.replace('(+', '(')
            ctx.workload('corner' if exact else 'random')
            ctx.set_case({'op': 'named', 'dims': dims, 'direction': kind, 'ks': ks})
            with ctx.guard('named'):
                bl, bu = E.get_density_matrix_boundary(rho)
                pl, pu = E.get_ppt_boundary(rho, dims)
                betas = {}
                for k in ks:
                    betas[f'k={k},boson'] = drv.boundary(rho, dims, k, False, True)
                    betas[f'k={k},reference-bosonic-sdp'] = drv.ref_boson(rho, dims, k)
                    # the symmetric (non-bosonic) SDP at the top level costs 10-40 s on non-symmetric directions of (3,3)/(2,3)
                    if exact or k <= plan.get('sym_kmax', max(ks)):
                        betas[f'k={k},symmetric'] = drv.boundary(rho, dims, k, False, False)
                ctx.case('named', dims, R.direction_digest_source(rho), ks, nontrivial=True)
                if idx < 3:
                    ctx.sample({'kind': 'named-direction', 'dims': dims, 'direction': kind, 'direction_digest': digest(R.direction_digest_source(rho)),
                                'beta_dm': float(bu), 'beta_ppt': float(pu),
                                'betas': {k: (None if v is None else round(float(v), 7)) for k, v in betas.items()}})


# parameter order of the shipped API as written in each docstring ("Parameters:" section): this is the specification the
# positional calls below follow (the post-conditions in install() read positional arguments in the same order)
API_ORDER = {
    'get_density_matrix_boundary': ('dm', 'dm_norm'),
    'get_ppt_boundary': ('dm', 'dim', 'dm_norm', 'within_dm'),
    'hf_interpolate_dm': ('rho', 'alpha', 'beta', 'dm_norm'),
    'get_ABk_symmetric_extension_boundary': ('rho', 'dim', 'kext', 'use_ppt', 'use_boson', 'use_tqdm', 'return_info'),
    'is_ABk_symmetric_ext': ('rho', 'dim', 'kext', 'use_ppt', 'use_boson', 'use_tqdm', 'return_info'),
    'CHABoundaryBagging': ('dim', 'num_state'),
    'CHABoundaryBagging.solve': ('dm', 'maxiter', 'norm2_init', 'decay_rate', 'threshold', 'num_init_retry', 'use_tqdm', 'return_info', 'seed'),
    'PureBosonicExt': ('dimA', 'dimB', 'kext', 'distance_kind'),
    'AutodiffCHAREE': ('dim', 'num_state', 'distance_kind'),
}


def run_api(ctx, numqi, mon, shard):
    """API surface (generic lesson 2): every monitored public function is also called positionally in docstring order, with
    the defaults passed explicitly, with flags as np.bool_ / 0 / 1, dim as tuple / list / ndarray, kext as a numpy integer, with
    return_info, and batched x every flag combination; each variant must give the answer of the plain keyword call. The
    post-conditions and the event log see all of these calls too (positional arguments are read in docstring order)."""
    import torch
    E = numqi.entangle
    rng = ctx.rng
    drv = Driver(ctx, numqi, mon)
    plan = shard['api']

    def same(a, b, tol=TOL_ORDER):
        if a is None or b is None:
            return None
        a, b = np.asarray(a, dtype=np.float64), np.asarray(b, dtype=np.float64)
        return bool(a.shape == b.shape and np.all(np.isfinite(a)) and np.all(np.isfinite(b)) and np.abs(a - b).max() <= tol)

    def cmp(ok, key, what, wit):
        if ok is None:
            ctx.inconclusive('api/variant-solver-failure')
            return
        ctx.check(ok, key, what, wit, point='api-surface')

    for (dA, dB, k) in plan['symext']:
        dims = (dA, dB)
        d = dA * dB
        # a noisy entangled pure state: beta_kext+ppt < beta_kext < beta_dm, so every flag matters
        rho = R.herm(0.8 * rand_pure_entangled(rng, dA, dB) + 0.2 * rand_dm(rng, d))
        # (b) the same ray given by an indefinite Hermitian unit-trace matrix (three times as long)
        rho_far = R.herm(np.eye(d) / d + 3.0 * (rho - np.eye(d) / d))
        ctx.set_case({'op': 'api-symext', 'dims': dims, 'k': k})
        ctx.workload('corner')
        with ctx.guard('api-symext'):
            bdm = float(E.get_density_matrix_boundary(rho)[1])
            base = {}
            full_variants = plan.get('full', True)
            for ppt in (False, True):
                for boson in (False, True):
                    if cpu_left(ctx) < 0:
                        ctx.inconclusive('budget-exhausted')
                        break
                    f = lambda *a, **kw: drv.sdp(lambda: E.get_ABk_symmetric_extension_boundary(*a, **kw))
                    kw0 = f(rho, dims, k, use_ppt=ppt, use_boson=boson)
                    base[(ppt, boson)] = kw0
                    wit = {'dims': dims, 'k': k, 'use_ppt': ppt, 'use_boson': boson, 'keyword_call': None if kw0 is None else float(kw0)}
                    v = f(rho, dims, k, ppt, boson)
                    cmp(same(kw0, v), 'symext_boundary/positional-call-differs-from-keyword-call',
                        'get_ABk_symmetric_extension_boundary(rho, dim, kext, use_ppt, use_boson) called positionally in docstring order differs '
                        'from the keyword call', dict(wit, positional=None if v is None else float(v)))
                    if not full_variants:
                        continue
                    v = f(rho, dims, k, ppt, boson, False, False)
                    cmp(same(kw0, v), 'symext_boundary/positional-call-differs-from-keyword-call',
                        'get_ABk_symmetric_extension_boundary with all seven arguments positional (docstring order) differs from the keyword call',
                        dict(wit, positional=None if v is None else float(v)))
                    v = f(rho, dims, k, use_ppt=ppt, use_boson=boson, use_tqdm=False, return_info=False)
                    cmp(same(kw0, v), 'symext_boundary/explicit-default-differs', 'passing the defaults explicitly changes the boundary',
                        dict(wit, explicit=None if v is None else float(v)))
                    for fl, name in ((np.bool_, 'np.bool_'), (int, '0/1')):
                        v = f(rho, dims, k, use_ppt=fl(ppt), use_boson=fl(boson))
                        cmp(same(kw0, v), 'symext_boundary/flag-type-changes-answer', f'flags given as {name} change the boundary',
                            dict(wit, flag_type=name, got=None if v is None else float(v)))
                    for dv, name in ((list(dims), 'list'), (np.array(dims), 'ndarray')):
                        v = f(rho, dv, np.int64(k), use_ppt=ppt, use_boson=boson)
                        cmp(same(kw0, v), 'symext_boundary/dim-or-kext-type-changes-answer', f'dim as {name} and kext as np.int64 change the boundary',
                            dict(wit, dim_type=name, got=None if v is None else float(v)))
                    v = f(rho, dims, k, use_ppt=ppt, use_boson=boson, return_info=True)
                    ok = None if (v is None or kw0 is None) else (isinstance(v, tuple) and len(v) == 3 and same(kw0, v[0]))
                    cmp(ok, 'symext_boundary/return_info-changes-beta', 'return_info=True must return (beta, vecA, vecN) with the same beta', wit)
                    v = f(rho_far, dims, k, use_ppt=ppt, use_boson=boson)
                    cmp(same(kw0, v), 'symext_boundary/depends-on-length-of-rho',
                        'the boundary along a ray must not depend on whether the ray is given by a density matrix or by an indefinite Hermitian '
                        'unit-trace matrix further out on the same ray', dict(wit, far=None if v is None else float(v)))
                    # batched x this flag combination, positional
                    mats = np.stack([rho, rand_pure_entangled(rng, dA, dB)])
                    vb = f(mats, dims, k, ppt, boson)
                    vs = f(mats[1], dims, k, use_ppt=ppt, use_boson=boson)
                    ok = None if (vb is None or vs is None or kw0 is None) else (np.shape(vb) == (2,) and same(vb[0], kw0, 2 * TOL_ORDER)
                                                                               and same(vb[1], vs, 2 * TOL_ORDER))
                    cmp(ok, 'symext_boundary/batched!=single', 'batched positional call differs from the per-item keyword calls (2e-4)',
                        dict(wit, batched=None if vb is None else [float(t) for t in np.reshape(vb, -1)]))
            # ---- is_ABk_symmetric_ext on states well inside / between / well outside the two boundaries
            b_ppt, b_plain = base.get((True, False)), base.get((False, False))
            if b_ppt is not None and b_plain is not None:
                b_ppt, b_plain = float(b_ppt), float(b_plain)
                probes = {'inside-both': 0.7 * b_ppt}
                if b_plain - b_ppt > 8e-2:
                    probes['between(kext-only)'] = 0.5 * (b_ppt + b_plain)
                if bdm - b_plain > 8e-2:
                    probes['outside-both'] = 0.5 * (b_plain + bdm)
                states = {n: R.herm(R.ray_point(rho, b)) for n, b in probes.items()}
                g = lambda *a, **kw: drv.sdp(lambda: E.is_ABk_symmetric_ext(*a, **kw))
                for ppt in (False, True):
                    for boson in (False, True):
                        if cpu_left(ctx) < 0:
                            ctx.inconclusive('budget-exhausted')
                            break
                        expect = {'inside-both': True, 'between(kext-only)': (not ppt), 'outside-both': False}
                        kwres = {}
                        for n, st in states.items():
                            r0 = g(st, dims, k, use_ppt=ppt, use_boson=boson)
                            kwres[n] = r0
                            wit = {'dims': dims, 'k': k, 'use_ppt': ppt, 'use_boson': boson, 'state': n, 'keyword_call': None if r0 is None else bool(r0)}
                            # in dB=2 and for these directions bosonic == symmetric (measured), so the expectation does not depend on use_boson
                            cmp(None if r0 is None else bool(r0) == expect[n], 'is_symext/disagrees-with-own-boundaries',
                                'is_ABk_symmetric_ext disagrees with the k-extension boundaries reported for the same options (margin >= 4e-2)', wit)
                            for label, call in (('positional', lambda: g(st, dims, k, ppt, boson)),
                                                ('all-positional', lambda: g(st, dims, k, ppt, boson, False, False)),
                                                ('explicit-defaults', lambda: g(st, dims, k, use_ppt=ppt, use_boson=boson, use_tqdm=False, return_info=False)),
                                                ('np.bool_', lambda: g(st, dims, k, use_ppt=np.bool_(ppt), use_boson=np.bool_(boson))),
                                                ('0/1', lambda: g(st, dims, k, use_ppt=int(ppt), use_boson=int(boson))),
                                                ('list-dim,np.int64-kext', lambda: g(st, list(dims), np.int64(k), use_ppt=ppt, use_boson=boson)),
                                                ('ndarray-dim', lambda: g(st, np.array(dims), k, use_ppt=ppt, use_boson=boson))):
                                if not full_variants and label != 'positional':
                                    continue
                                v = call()
                                key = {'positional': 'is_symext/positional-call-differs-from-keyword-call',
                                       'all-positional': 'is_symext/positional-call-differs-from-keyword-call',
                                       'explicit-defaults': 'is_symext/explicit-default-differs'}.get(label, 'is_symext/argument-type-changes-answer')
                                cmp(None if (v is None or r0 is None) else (np.ndim(v) == 0 and bool(v) == bool(r0)), key,
                                    f'is_ABk_symmetric_ext called as "{label}" differs from the keyword call', dict(wit, variant=label))
                            if full_variants:
                                v = g(st, dims, k, use_ppt=ppt, use_boson=boson, return_info=True)
                                ok = None if (v is None or r0 is None) else (isinstance(v, tuple) and len(v) == 2 and bool(v[0]) == bool(r0))
                                cmp(ok, 'is_symext/return_info-changes-answer', 'return_info=True must return (bool, info) with the same bool', wit)
                        names = list(states)
                        vb = g(np.stack([states[n] for n in names]), dims, k, ppt, boson)
                        if vb is not None and all(kwres[n] is not None for n in names):
                            cmp(np.shape(vb) == (len(names),) and [bool(t) for t in vb] == [bool(kwres[n]) for n in names], 'is_symext/batched!=single',
                                'batched positional is_ABk_symmetric_ext differs from the per-item keyword calls',
                                {'dims': dims, 'k': k, 'use_ppt': ppt, 'use_boson': boson, 'states': names, 'batched': [bool(t) for t in np.reshape(vb, -1)]})
            ctx.case('api-symext', dims, k, R.direction_digest_source(rho), nontrivial=True,
                     sample={'kind': 'api-surface', 'dims': dims, 'k': k, 'direction_digest': digest(R.direction_digest_source(rho)),
                             'beta_by_(use_ppt,use_boson)': {f'{int(p)},{int(b)}': (None if v is None else round(float(v), 7)) for (p, b), v in base.items()}})

    # ---- eigenvalue-based functions: exact agreement
    for (dA, dB) in plan['dims']:
        dims = (dA, dB)
        d = dA * dB
        ctx.set_case({'op': 'api-eig', 'dims': dims})
        ctx.workload('corner')
        with ctx.guard('api-eig'):
            mats = np.stack([rand_dm(rng, d), rand_pure_entangled(rng, dA, dB), rand_herm_direction(rng, d), R.max_entangled(dA, dB)])
            norms = np.array([R.bloch_norm(m) for m in mats])
            eq = lambda a, b: bool(np.shape(a[0]) == np.shape(b[0]) and np.allclose(a[0], b[0], rtol=1e-12, atol=0) and np.allclose(a[1], b[1], rtol=1e-12, atol=0))
            for x, nx, tag in ((mats[0], norms[0], 'single'), (mats, norms, 'batched'), (mats.reshape(2, 2, d, d), norms.reshape(2, 2), 'batched(2,2)')):
                r0 = E.get_density_matrix_boundary(x, dm_norm=nx)
                ctx.check(eq(r0, E.get_density_matrix_boundary(x, nx)), 'dm_boundary/positional-call-differs-from-keyword-call',
                          'get_density_matrix_boundary(dm, dm_norm) positional differs from keyword', {'dims': dims, 'input': tag}, point='api-surface')
                ctx.check(eq(E.get_density_matrix_boundary(x), E.get_density_matrix_boundary(x, dm_norm=None)) and eq(E.get_density_matrix_boundary(x), r0),
                          'dm_boundary/explicit-default-differs', 'dm_norm=None / dm_norm=own Gell-Mann norm / default differ', {'dims': dims, 'input': tag},
                          point='api-surface')
                if tag == 'single':
                    for nv, name in ((float(nx), 'float'), (np.float64(nx), 'np.float64'), (np.array(nx), '0-d array'), (np.array([nx]), '(1,) array')):
                        ctx.check(eq(r0, E.get_density_matrix_boundary(x, dm_norm=nv)), 'dm_boundary/dm_norm-type-changes-answer',
                                  f'dm_norm given as {name} changes the boundary', {'dims': dims, 'type': name}, point='api-surface')
                for within in (True, False):
                    p0 = E.get_ppt_boundary(x, dims, dm_norm=nx, within_dm=within)
                    wit = {'dims': dims, 'input': tag, 'within_dm': within}
                    ctx.check(eq(p0, E.get_ppt_boundary(x, dims, nx, within)), 'ppt_boundary/positional-call-differs-from-keyword-call',
                              'get_ppt_boundary(dm, dim, dm_norm, within_dm) positional differs from keyword', wit, point='api-surface')
                    ctx.check(eq(p0, E.get_ppt_boundary(x, dims, dm_norm=None, within_dm=within)), 'ppt_boundary/explicit-default-differs',
                              'dm_norm=None differs from dm_norm=own Gell-Mann norm', wit, point='api-surface')
                    if within:
                        ctx.check(eq(p0, E.get_ppt_boundary(x, dims, dm_norm=nx)), 'ppt_boundary/explicit-default-differs',
                                  'within_dm=True differs from the default', wit, point='api-surface')
                    for wv, name in ((np.bool_(within), 'np.bool_'), (int(within), '0/1')):
                        ctx.check(eq(p0, E.get_ppt_boundary(x, dims, dm_norm=nx, within_dm=wv)), 'ppt_boundary/flag-type-changes-answer',
                                  f'within_dm given as {name} changes the boundary', dict(wit, type=name), point='api-surface')
                    for dv, name in ((list(dims), 'list'), (np.array(dims), 'ndarray')):
                        ctx.check(eq(p0, E.get_ppt_boundary(x, dv, dm_norm=nx, within_dm=within)), 'ppt_boundary/dim-type-changes-answer',
                                  f'dim given as {name} changes the boundary', dict(wit, type=name), point='api-surface')
            rho = mats[0]
            bu = float(E.get_density_matrix_boundary(rho)[1])
            meq = lambda a, b: bool(np.shape(a) == np.shape(b) and np.abs(np.asarray(a) - np.asarray(b)).max() <= 1e-14)
            for beta in (0.5 * bu, -0.3 * bu, 0.0, bu):
                r0 = E.hf_interpolate_dm(rho, beta=beta)
                ctx.check(meq(r0, E.hf_interpolate_dm(rho, None, beta)) and meq(r0, E.hf_interpolate_dm(rho, None, beta, None)),
                          'interpolate/positional-call-differs-from-keyword-call', 'hf_interpolate_dm(rho, alpha, beta, dm_norm) positional differs from keyword',
                          {'dims': dims, 'beta': beta}, point='api-surface')
                ctx.check(meq(r0, E.hf_interpolate_dm(rho, alpha=None, beta=beta, dm_norm=None)) and meq(r0, E.hf_interpolate_dm(rho, beta=np.float64(beta)))
                          and np.abs(np.asarray(E.hf_interpolate_dm(rho, beta=beta, dm_norm=norms[0])) - r0).max() <= 1e-12,
                          'interpolate/explicit-default-differs', 'explicit defaults / numpy scalar beta / dm_norm=own norm change the interpolated state',
                          {'dims': dims, 'beta': beta}, point='api-surface')
            for alpha in (0.0, 1.0, 0.37):
                r0 = E.hf_interpolate_dm(rho, alpha=alpha)
                ctx.check(meq(r0, E.hf_interpolate_dm(rho, alpha)), 'interpolate/positional-call-differs-from-keyword-call',
                          'hf_interpolate_dm(rho, alpha) positional differs from keyword', {'dims': dims, 'alpha': alpha}, point='api-surface')
            ctx.case('api-eig', dims, np.round(mats, 7) + 0.0, nontrivial=True)

    # ---- inner models: constructors and CHABoundaryBagging.solve
    ctx.set_case({'op': 'api-models'})
    ctx.workload('corner')
    with ctx.guard('api-models'):
        for (dA, dB, k) in plan['models']:
            theta = None
            dms = []
            for mk in (lambda: E.PureBosonicExt(dimA=dA, dimB=dB, kext=k, distance_kind='gellmann'), lambda: E.PureBosonicExt(dA, dB, k, 'gellmann'),
                       lambda: E.PureBosonicExt(dA, dB, np.int64(k), distance_kind='GELLMANN')):
                model = mk()
                n = len(numqi.optimize.get_model_flat_parameter(model))
                theta = rng.normal(size=n) if theta is None else theta
                if len(theta) != n:
                    dms.append(None)
                    continue
                numqi.optimize.set_model_flat_parameter(model, theta)
                model.set_dm_target(np.eye(dA * dB) / (dA * dB))
                with torch.no_grad():
                    model()
                dms.append(mon.last_state)
            ctx.check(all(x is not None and np.abs(x - dms[0]).max() <= 1e-12 for x in dms), 'pureb/positional-constructor-differs-from-keyword',
                      'PureBosonicExt(dimA, dimB, kext, distance_kind) built positionally / with numpy int gives a different state for the same parameters',
                      {'dims': (dA, dB), 'k': k}, point='api-surface')
            dms = []
            theta = None
            for mk in (lambda: E.AutodiffCHAREE(dim=(dA, dB), num_state=None, distance_kind='gellmann'), lambda: E.AutodiffCHAREE((dA, dB), None, 'gellmann'),
                       lambda: E.AutodiffCHAREE([dA, dB], 2 * dA * dB, distance_kind='gellmann')):
                model = mk()
                n = len(numqi.optimize.get_model_flat_parameter(model))
                theta = rng.normal(size=n) if theta is None else theta
                if len(theta) != n:
                    dms.append(None)
                    continue
                numqi.optimize.set_model_flat_parameter(model, theta)
                model.set_dm_target(np.eye(dA * dB) / (dA * dB))
                with torch.no_grad():
                    model()
                dms.append(mon.last_state)
            ctx.check(all(x is not None and np.abs(x - dms[0]).max() <= 1e-12 for x in dms), 'cha-model/positional-constructor-differs-from-keyword',
                      'AutodiffCHAREE(dim, num_state, distance_kind) built positionally / with the default num_state explicit gives a different state',
                      {'dims': (dA, dB)}, point='api-surface')
        rho = rand_dm(rng, 4)
        seed = int(rng.integers(0, 2**31))

        def cha(call):
            try:
                with warnings.catch_warnings():
                    warnings.simplefilter('ignore')
                    return call()
            except drv.SolverError:
                return None
            except (RuntimeError, AssertionError) as e:
                if 'initial state' in str(e) or 'cvxpy solve failed' in str(e):
                    return None
                raise
        r0 = cha(lambda: E.CHABoundaryBagging(dim=(2, 2), num_state=None).solve(rho, maxiter=2, return_info=False, seed=seed))
        variants = {
            'positional': lambda: E.CHABoundaryBagging((2, 2), None).solve(rho, 2, 1, 0.97, 1e-7, 10, False, False, seed),
            'explicit-defaults': lambda: E.CHABoundaryBagging((2, 2), 3 * 16).solve(rho, maxiter=2, norm2_init=1, decay_rate=0.97, threshold=1e-7, num_init_retry=10,
                                                                                   use_tqdm=False, return_info=False, seed=seed),
            'return_info': lambda: E.CHABoundaryBagging([2, 2]).solve(rho, maxiter=np.int64(2), return_info=True, seed=np.int64(seed)),
        }
        for label, call in variants.items():
            v = cha(call)
            if label == 'return_info' and v is not None:
                v = v[0] if (isinstance(v, tuple) and len(v) == 2) else float('nan')
            key = {'positional': 'cha/positional-call-differs-from-keyword-call', 'explicit-defaults': 'cha/explicit-default-differs'}.get(label, 'cha/return_info-changes-beta')
            cmp(same(r0, v), key, f'CHABoundaryBagging.solve called as "{label}" with the same seed differs from the keyword call',
                {'seed': seed, 'keyword_call': r0, 'variant': label, 'got': v})


def run_tiny(ctx, numqi, mon, shard):
    """numerical regime: the same ray given by a density matrix at distance t = 1e-6 .. 1e-10 from the maximally mixed state and at
    distance 0.1. The direction of the short one is only known to eps/t, so the boundaries must agree to COND_C*eps/t (measured on
    the unchanged tree: <= 1.3 eps/t); comparisons whose tolerance would exceed 1e-3 are inconclusive."""
    E = numqi.entangle
    rng = ctx.rng
    drv = Driver(ctx, numqi, mon)
    ts = [1e-6, 1e-7, 1e-8, 1e-10]
    worst = {}
    for it, (dA, dB) in enumerate(DIMS + [(3, 2)]):
        dims = (dA, dB)
        d = dA * dB
        kind, seedrho = draw_direction(rng, dA, dB, [0, 4, 3, 6, 8][it])
        u, _ = R.unit_direction(seedrho)
        big = R.herm(np.eye(d) / d + 0.1 * u)
        ctx.set_case({'op': 'tiny-distance', 'dims': dims, 'direction': kind})
        ctx.workload('corner')
        with ctx.guard('tiny'):
            b0 = E.get_density_matrix_boundary(big)
            p0 = E.get_ppt_boundary(big, dims)
            smalls = [R.herm(np.eye(d) / d + t * u) for t in ts]
            batch = np.stack(smalls + [big])
            bb = E.get_density_matrix_boundary(batch)
            pb = E.get_ppt_boundary(batch, dims)
            for j, (t, sm) in enumerate(zip(ts, smalls)):
                tol = max(1e-9, COND_C * EPS / t)
                bs = E.get_density_matrix_boundary(sm)
                ps = E.get_ppt_boundary(sm, dims)
                for name, got, ref in (('dm_boundary', bs, b0), ('dm_boundary', (bb[0][j], bb[1][j]), b0), ('ppt_boundary', ps, p0), ('ppt_boundary', (pb[0][j], pb[1][j]), p0)):
                    rel = max(abs(got[0] - ref[0]) / abs(ref[0]), abs(got[1] - ref[1]) / abs(ref[1]))
                    worst[f't={t:g}'] = max(worst.get(f't={t:g}', 0.0), float(rel) / (EPS / t))
                    ctx.check(rel <= tol, f'{name}/depends-on-length-of-rho',
                              f'{name}: the same ray given at distance t from the maximally mixed state and at distance 0.1 gets different boundaries '
                              '(beyond the accuracy eps/t to which the short one defines the direction)',
                              {'dims': dims, 't': t, 'rel_diff': float(rel), 'tol': tol, 'got': [float(got[0]), float(got[1])], 'expected': [float(ref[0]), float(ref[1])]},
                              point='tiny-distance')
                E.hf_interpolate_dm(sm, beta=0.5 * float(b0[1]))
                E.hf_interpolate_dm(sm, beta=float(p0[0]))
                ctx.case('tiny-distance', dims, t, R.direction_digest_source(big), nontrivial=True)
            if dims == (2, 2):
                k0 = drv.boundary(big, dims, 2, True, False)
                k1 = drv.boundary(smalls[0], dims, 2, True, False)
                if k0 is not None and k1 is not None:
                    ctx.check(abs(float(k0) - float(k1)) <= 2 * TOL_ORDER, 'symext_boundary/depends-on-length-of-rho',
                              'k-extension boundary of the same ray given at distance 1e-6 and 0.1 differ by more than 2e-4',
                              {'dims': dims, 'beta(0.1)': float(k0), 'beta(1e-6)': float(k1)}, point='tiny-distance')
    ctx.extra['tiny_distance_worst_rel_diff_in_units_of_eps/t'] = worst


def run_numrange(ctx, numqi, mon, shard):
    """less prominent entry points: get_ABk_extension_numerical_range / get_ppt_numerical_range with a complete operator basis
    describe the same ray as the boundary functions; every flag combination, keyword and positional (docstring order), single and
    batched directions. The contracts log them into the per-direction event log (k=1 equalities, <= PPT, <= DM, == boundary function)."""
    E = numqi.entangle
    rng = ctx.rng
    drv = Driver(ctx, numqi, mon)
    for it, (dA, dB, kmax) in enumerate(shard['numrange']):
        dims = (dA, dB)
        d = dA * dB
        rho = R.herm(0.85 * rand_pure_entangled(rng, dA, dB) + 0.15 * rand_dm(rng, d))
        if it % 2 == 0:
            ops = R.gm_basis(d) / 2
            vec = R.bloch(rho)
        else:  # the library's own basis, as its users would call it
            ops = numqi.gellmann.all_gellmann_matrix(d, with_I=False) / 2
            vec = np.einsum('iab,ba->i', ops, rho).real
        direction = vec / np.linalg.norm(vec)
        ctx.set_case({'op': 'numerical-range', 'dims': dims, 'kmax': kmax, 'basis': 'reference' if it % 2 == 0 else 'numqi'})
        ctx.workload('realistic')
        with ctx.guard('numrange'):
            E.get_density_matrix_boundary(rho)
            pu = float(E.get_ppt_boundary(rho, dims)[1])
            for fac in (0.9, 1.1, 0.999999, 1.000001):
                E.is_ppt(R.herm(R.ray_point(rho, fac * pu)), dims)
                E.is_ppt(R.herm(R.ray_point(rho, fac * pu)), list(dims), -1e-7)
            v = drv.sdp(lambda: E.get_ppt_numerical_range(ops, direction, dims, use_tqdm=False))
            v2 = drv.sdp(lambda: E.get_ppt_numerical_range(ops, direction, dims, False, False))
            if v is not None and v2 is not None:
                ctx.check(abs(float(v) - float(v2)) <= TOL_ORDER, 'ppt_numerical_range/positional-call-differs-from-keyword-call',
                          'get_ppt_numerical_range(op_list, direction, dim, return_info, use_tqdm) positional differs from keyword',
                          {'dims': dims, 'keyword': float(v), 'positional': float(v2), 'beta_ppt': pu}, point='api-surface')
            betas = {}
            for k in range(1, kmax + 1):
                for ppt in (False, True):
                    for boson in (False, True):
                        if cpu_left(ctx) < 0:
                            ctx.inconclusive('budget-exhausted')
                            break
                        f = lambda *a, **kw: drv.sdp(lambda: E.get_ABk_extension_numerical_range(*a, **kw))
                        a = f(ops, direction, dims, k, use_ppt=ppt, use_boson=boson, use_tqdm=False)
                        b = f(ops, direction, dims, k, ppt, boson, use_tqdm=False)
                        c = drv.boundary(rho, dims, k, ppt, boson)
                        betas[f'k={k},ppt={int(ppt)},boson={int(boson)}'] = [None if t is None else round(float(t), 6) for t in (a, c)]
                        wit = {'dims': dims, 'k': k, 'use_ppt': ppt, 'use_boson': boson, 'numerical_range(keyword)': a, 'numerical_range(positional)': b,
                               'symext_boundary': c, 'beta_ppt': pu}
                        if a is not None and b is not None:
                            ctx.check(abs(float(a) - float(b)) <= TOL_ORDER, 'numerical_range/positional-call-differs-from-keyword-call',
                                      'get_ABk_extension_numerical_range(op_list, direction, dim, kext, use_ppt, use_boson) positional differs from keyword',
                                      wit, point='api-surface')
            # the naive (explicit permutation constraints) membership test must agree with the irrep-based boundary, k=2
            b2 = drv.boundary(rho, dims, 2, False, False) if kmax >= 2 else None
            if b2 is not None and np.isfinite(b2) and d <= 6:
                b2 = float(b2)
                bdm = R.dm_boundary(rho)[1]
                for label, beta, expect in (('inside', 0.9 * b2, True), ('outside', b2 + 3e-2, False)):
                    if beta >= bdm - 1e-6:
                        continue
                    st = R.herm(R.ray_point(rho, beta))
                    for kind_idx in ('2d', '1d'):
                        r = drv.sdp(lambda: E.symext.is_ABk_symmetric_ext_naive(st, dims, 2, index_kind=kind_idx))
                        if r is None:
                            continue
                        ok = isinstance(r, tuple) and len(r) == 2 and bool(r[0]) == expect
                        if ok and expect:
                            ext = np.asarray(r[1])
                            red = R.reduce_ABk_to_AB(ext, dA, dB, 2) if ext.shape == (dA * dB * dB, dA * dB * dB) else None
                            ok = red is not None and np.abs(red - st).max() <= 1e-4 and R.min_eig(ext) >= -1e-4
                        ctx.check(ok, 'is_symext_naive/disagrees-with-symext-boundary',
                                  'is_ABk_symmetric_ext_naive (k=2) disagrees with the irrep-based 2-extension boundary on a state 10% inside / 3e-2 outside, '
                                  'or its returned extension does not reduce to the state', {'dims': dims, 'state': label, 'index_kind': kind_idx, 'beta_2ext': b2},
                                  point='is_symext_naive')
            # batched directions x one flag combination
            dirs = np.stack([direction, -direction])
            for (ppt, boson) in ((True, False), (False, True)):
                vb = drv.sdp(lambda: E.get_ABk_extension_numerical_range(ops, dirs, dims, min(2, kmax), use_ppt=ppt, use_boson=boson, use_tqdm=False))
                vs = drv.sdp(lambda: E.get_ABk_extension_numerical_range(ops, -direction, dims, min(2, kmax), use_ppt=ppt, use_boson=boson, use_tqdm=False))
                if vb is not None and vs is not None:
                    ctx.check(np.shape(vb) == (2,) and abs(float(vb[1]) - float(vs)) <= 2 * TOL_ORDER, 'numerical_range/batched!=single',
                              'batched directions differ from the per-direction call (2e-4)', {'dims': dims, 'ppt': ppt, 'boson': boson}, point='api-surface')
            ctx.case('numerical-range', dims, kmax, R.direction_digest_source(rho), nontrivial=True,
                     sample={'kind': 'numerical-range', 'dims': dims, 'beta_ppt': pu, '[numerical_range, symext_boundary]': betas} if it == 0 else None)


def run(ctx, shard):
    import numqi
    import time
    ctx.extra['_cpu0'] = time.process_time()
    mon = Mon(ctx)
    install(ctx, numqi, mon)
    name = shard['name']
    try:
        if name.startswith('thresholds'):
            run_thresholds(ctx, numqi, mon, shard)
            if shard.get('certk'):
                run_certk(ctx, numqi, mon, shard)
        elif name.startswith('nest-'):
            run_nest(ctx, numqi, mon, shard)
        elif name.startswith('pureb'):
            run_pureb(ctx, numqi, mon, shard)
        elif name.startswith('cha'):
            run_cha(ctx, numqi, mon, shard)
        elif name.startswith('certk'):
            run_certk(ctx, numqi, mon, shard)
        elif name.startswith('named') or name.startswith('api') or name.startswith('numrange'):
            pass
        else:
            raise ValueError(name)
        if shard.get('named'):
            run_named(ctx, numqi, mon, shard)
        if shard.get('api'):
            run_api(ctx, numqi, mon, shard)
        if shard.get('tiny'):
            run_tiny(ctx, numqi, mon, shard)
        if shard.get('numrange'):
            run_numrange(ctx, numqi, mon, shard)
    finally:
        with ctx.quiet():
            check_nesting(ctx, mon)
        ctx.extra['cpu_s'] = round(time.process_time() - ctx.extra.pop('_cpu0'), 1)
