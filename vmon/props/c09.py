"""C09 - Sp(2n,F2) indexing (mixed-radix tuple <-> symplectic matrix) is a bijection.

Monitors: contracts on get_number, from_int_tuple, to_int_tuple, inverse, find_transvection, transvection and
rand_SpF2, all evaluated with the integer reference arithmetic in vmon/ref/spf2.py (own Lambda matrix, int64).
Every contract snapshots its arguments (argument-mutation and aliasing checks).
Workloads: histories on one object / one process (shard `histories`), complete tuple domains n=1,2 (quick) and n=3 (thorough, 16 shards), all ordered pairs of non-zero vectors
n<=3 (quick) / n=4 (thorough), random tuples and reference-generated symplectic matrices up to n=10, corner tuples,
rand_SpF2 / rand_Clifford_group as realistic producers, the repository's spf2 tests under the monitors (thorough).
Regimes / less prominent entry points (shard `histories`, function _regimes): tuples whose entries straddle 2^31, 2^32, 2^53, 2^63,
2^64 (n=16..40, python ints), dense vector pairs of weight >= 256 (n=128..200: the uint8 dot product of get_inner_product wraps),
N-d x and a batch with one zero row for transvection, read-only inputs, and relational checks of every other public function of the
anchored files that consumes the machinery: get_inner_product, int_to_bitarray, bitarray_to_int, schmidt_orthogonalization,
rand_Clifford_group, and the enumerating consumers numqi.gate._pauli.get_pauli_subset_equivalent / get_pauli_subset_stabilizer
(orbit-stabilizer: |orbit| * |stabilizer| == group order iff the tuple indexing is a bijection onto the group).
"""
import itertools
import math
import os
import numpy as np

from vmon.ref import spf2 as rs

RULE = ('tuple cases: (n, mixed-radix tuple t); every tuple of the complete domain is driven through '
        'from_int_tuple -> to_int_tuple -> inverse with the contracts on; the case digest is the IMAGE matrix (tag img-exh in '
        'the exh-*/n3-slice shards, img-rnd elsewhere, pair / pair-rnd for vector pairs), so the merged distinct count minus the '
        'distinct_case_digests_this_shard of the pairs*, random, histories and repo-tests shards (see extra) equals the number of distinct images of the '
        'exhaustive domains: 6+720 in quick (plus the n=3 slices), 6+720+1451520 in thorough iff the map is injective across '
        'shards too; independently every shard asserts to_int_tuple(from_int_tuple(t))==t, which implies injectivity on the '
        'whole domain without cross-shard state, and within a shard the set of image bytes must have the size of the shard\'s '
        'slice; surjectivity = all images symplectic + injective + count == 2^(n^2) prod(4^i-1) (for n<=2 additionally the '
        'image set is compared with the brute-force list of all symplectic binary matrices). Every tuple case is '
        'non-trivial (a distinct group element). Pair cases: (v0,v1) ordered pairs of non-zero vectors, non-trivial when '
        'v0 != v1, distinct by digest of the pair. Random cases: tuples drawn uniformly per coordinate / products of random '
        'transvections built by the reference, n<=10. History cases (shard histories, ONE process): every contract snapshots its '
        'array/list arguments at call time, judges against the snapshot and reports <fn>/mutates-argument; the same matrix '
        'object queried repeatedly, results edited in place by the caller and the call repeated, refilled work buffers '
        '(matrix, vectors, tuple-list), get_number/from_int_tuple in descending-n order with a repeat at the end, '
        'numpy-integer / list / ndarray tuple entries, Fortran / strided / transposed / negative-stride matrices and int64 copies. API-form cases: every vector pair is applied in '
        'both documented forms transvection(v0,h0,h1) and transvection(transvection(v0,h0),h1), plus 0 / 3 transvections and 2-D x; the '
        'transvection contract judges every call form (value, 0/1 result of the input integer type, no aliasing); get_number / '
        'rand_SpF2 / from_int_tuple / to_int_tuple / inverse / find_transvection positionally and by keyword, explicit defaults, '
        'numpy-integer n; the parameter order of the shipped API is pinned (SIGNATURES). Regime cases (shard histories): corner tuples for '
        'n in (16,27,32,33,40) with one entry at 2^k-1, 2^k, 2^k+1 for k in (31,32,53,63,64) where admissible, dense vector pairs n=128..200, '
        'N-d x / one degenerate row in a batch / read-only inputs; entry-point cases: get_inner_product, int_to_bitarray, bitarray_to_int, '
        'schmidt_orthogonalization, rand_Clifford_group against the reference, Pauli-subset orbit and stabilizer sizes against the group order')
EXHAUSTIVE = {'quick': True, 'thorough': True}
EXHAUSTIVE_DOMAINS = {
    'quick': ['all tuples n=1 (6), n=2 (720)', 'all 16 / 65536 binary matrices n=1,2 (brute-force group list)',
              'all ordered pairs of non-zero vectors n=1,2,3 (9, 225, 3969)',
              'n=3: about 24 of the 2016 cosets (a3,b3), each with all 720 inner tuples (a slice, not the complete n=3 domain)'],
    'thorough': ['all tuples n=1 (6), n=2 (720), n=3 (1451520 in 16 shards)',
                 'all 16 / 65536 binary matrices n=1,2 (brute-force group list)',
                 'all ordered pairs of non-zero vectors n=1,2,3,4 (9, 225, 3969, 65025)'],
}
ASSUMPTIONS = ['symplectic form Lambda=[[0,I],[I,0]], matrices act on row vectors (rows of S are the images), as documented '
               'in numqi/group/spf2.py and used by its tests',
               'the mixed-radix domain is prod(range(base_i)) with base = (4^1-1, 2^1, ..., 4^n-1, 2^(2n-1)); tuples outside '
               'it are inadmissible and never generated']
DECIDING = ['numqi.group.spf2.get_number', 'numqi.group.spf2.from_int_tuple', 'numqi.group.spf2.to_int_tuple',
            'numqi.group.spf2.inverse', 'numqi.group.spf2.find_transvection', 'numqi.group.spf2.transvection',
            'numqi.random._spf2.rand_SpF2', 'workload/tuple-roundtrip', 'workload/image-count', 'workload/vector-pair',
            'workload/vector-pair-nested', 'transvection/form/1d-x/0-h', 'transvection/form/1d-x/1-h', 'transvection/form/1d-x/2-h',
            'transvection/form/1d-x/3-h', 'transvection/form/2d-x/1-h', 'transvection/form/2d-x/2-h', 'transvection/form/2d-x/3-h', 'workload/api-forms',
            'workload/history', 'workload/regimes', 'workload/entry-points']
TECHNIQUE = ('contracts on the real spf2 functions (symplecticity, two-sided inverse, transvection value, tuple range, '
             'from(to(S))==S) + exhaustive tuple/vector-pair enumeration with injectivity/count checks against an own '
             'integer reference and a brute-force list of Sp(2,F2), Sp(4,F2)')
LEVEL_TEXT = 'runtime monitoring; finite domains n<=2 (quick) / n<=3 (thorough) enumerated completely, n<=10 sampled'
LEVEL_NOTE = 'n>=4 tuple domains (4.7e10 elements and up) are only sampled'

NPARTS_N3 = 16

# parameter order of the shipped API (docstring "Parameters:" sections), pinned as the specification for positional calls
SIGNATURES = {
    'get_number': ['n', 'kind'], 'from_int_tuple': ['int_tuple'], 'to_int_tuple': ['mat'], 'inverse': ['mat'],
    'find_transvection': ['v0', 'v1'], 'transvection': ['x', '*h_list'], 'rand_SpF2': ['n', 'return_kind', 'seed'],
}


def shards(tier, seed):
    ret = []
    if tier == 'thorough':
        ret += [{'name': f'exh-n3-{i:02d}', 'part': i, 'nparts': NPARTS_N3, 'timeout_s': 3600} for i in range(NPARTS_N3)]
    ret += [{'name': 'exh-n1n2'}, {'name': 'pairs'}, {'name': 'random'}, {'name': 'histories'}]
    if tier == 'quick':
        ret += [{'name': f'n3-slice-{i}', 'slice': i, 'ncosets': 6} for i in range(4)]
    if tier == 'thorough':
        ret += [{'name': f'pairs-n4-{i}', 'part': i, 'nparts': 3} for i in range(3)]
        ret += [{'name': 'repo-tests'}]
    return ret


def _tup(t):
    return [int(x) for x in t]


class _ArrSnap:
    """value snapshot of an ndarray at call time, kept as bytes (cheap for the small arrays of this module)"""
    __slots__ = ('data', 'shape', 'dtype')

    def __init__(self, a):
        self.data = a.tobytes()
        self.shape = a.shape
        self.dtype = a.dtype

    def same(self, cur):
        return cur.__class__ is np.ndarray and cur.shape == self.shape and cur.dtype == self.dtype and cur.tobytes() == self.data

    def array(self):
        return np.frombuffer(self.data, dtype=self.dtype).reshape(self.shape).copy()


def _snap(a):
    """snapshot of an argument at call time (arrays as bytes, lists copied)"""
    if isinstance(a, np.ndarray):
        return _ArrSnap(a)
    if isinstance(a, list):
        return list(a)
    return a


def _unchanged(cur, snp):
    if isinstance(snp, _ArrSnap):
        return snp.same(cur)
    if isinstance(snp, list):
        return isinstance(cur, list) and len(cur) == len(snp) and all(type(a) is type(b) and a == b for a, b in zip(cur, snp))
    return True


def _at_call_time(cur, snp):
    """the argument's contents at call time: the argument itself when it was not modified, else rebuilt from the snapshot"""
    if isinstance(snp, _ArrSnap):
        return cur if snp.same(cur) else snp.array()
    if isinstance(snp, list):
        return snp
    return cur


def install(ctx, numqi):
    import inspect
    sp = numqi.group.spf2
    state = {'to_depth': 0}
    for fname, expected in SIGNATURES.items():
        f = getattr(numqi.random._spf2 if fname == 'rand_SpF2' else sp, fname)
        got = [('*' + q.name) if q.kind is q.VAR_POSITIONAL else q.name for q in inspect.signature(f).parameters.values()]
        ctx.check(got == expected, f'{fname}/signature-changed', f'parameter order of {fname} differs from the documented one (positional callers break)',
                  {'got': got, 'documented': expected})

    def args_unmodified(fn, c, pairs):
        """(3) a monitored function must not modify its array / list arguments: pairs = [(name, current, snapshot)];
        one monitor evaluation per call"""
        bad = None
        for nm, cur, snp in pairs:
            if isinstance(snp, (_ArrSnap, list)) and not _unchanged(cur, snp):
                bad = (nm, cur, snp)
                break
        if bad is None:
            ctx.evaluations += 1
            return True
        else:
            ctx.check(False, f'{fn}/mutates-argument', f'{fn} modified its argument {bad[0]} in place',
                      {'argument': bad[0], 'before': bad[2].array() if isinstance(bad[2], _ArrSnap) else bad[2], 'after': bad[1]})
            return False

    # ---------------- get_number
    def post_get_number(c):
        if c.exc is not None:
            return
        n = int(c.arg(0, 'n'))
        kind = str(c.arg(1, 'kind', 'base')).lower()
        r = c.result
        if kind == 'base':
            ctx.check(isinstance(r, tuple) and tuple(int(x) for x in r) == rs.bases(n), 'get_number/base',
                      'mixed-radix bases differ from (4^i-1, 2^(2i-1))', {'n': n, 'got': list(r) if isinstance(r, tuple) else repr(r),
                                                                           'expected': list(rs.bases(n))})
        elif kind == 'order':
            ctx.check(int(r) == rs.order(n), 'get_number/order', 'order differs from 2^(n^2) prod (4^i-1)',
                      {'n': n, 'got': int(r), 'expected': rs.order(n)})
        elif kind == 'coset':
            ctx.check(tuple(int(x) for x in r) == rs.cosets(n), 'get_number/coset', 'coset sizes differ from (4^i-1) 2^(2i-1)',
                      {'n': n, 'got': list(r), 'expected': list(rs.cosets(n))})

    ctx.attach(sp, 'get_number', post=post_get_number)

    # ---------------- from_int_tuple
    def pre_from(c):
        return _snap(c.arg(0, 'int_tuple'))

    def post_from(c):
        t_now = c.arg(0, 'int_tuple')
        same = args_unmodified('from_int_tuple', c, [('int_tuple', t_now, c.snap)])
        t = t_now if same else _at_call_time(t_now, c.snap)   # judged against the call-time contents
        try:
            n = len(t) // 2
            admissible = len(t) % 2 == 0 and n >= 1 and rs.in_range(tuple(t), n)
        except TypeError:
            admissible = False
        if not admissible:
            ctx.hit('from_int_tuple/inadmissible-argument')
            return
        if c.exc is not None:
            return  # surfaces through ctx.guard in the workload as <key>/raises/<Type>
        S = c.result
        ok = isinstance(S, np.ndarray) and S.dtype == np.uint8 and rs.is_binary_matrix(S, n)
        ctx.check(ok, 'from_int_tuple/shape-dtype', 'from_int_tuple must return a (2n,2n) uint8 0/1 matrix',
                  lambda: {'tuple': _tup(t), 'shape': np.shape(S), 'dtype': str(getattr(S, 'dtype', None))})
        if ok:
            ctx.check(rs.is_symplectic(S), 'from_int_tuple/not-symplectic', 'image does not preserve the symplectic form',
                      lambda: {'tuple': _tup(t), 'S': S})

    ctx.attach(sp, 'from_int_tuple', pre=pre_from, post=post_from)

    # ---------------- to_int_tuple
    def pre_to(c):
        d = state['to_depth']
        state['to_depth'] += 1
        return {'depth': d, 'mat': _snap(c.arg(0, 'mat'))}

    def post_to(c):
        state['to_depth'] -= 1
        depth = c.snap['depth'] if c.snap is not None else 0
        mat_now = c.arg(0, 'mat')
        snp = c.snap['mat'] if c.snap is not None else None
        same = args_unmodified('to_int_tuple', c, [('mat', mat_now, snp)])
        mat = mat_now if same else _at_call_time(mat_now, snp)   # judged against the call-time contents
        if not (isinstance(mat, np.ndarray) and mat.ndim == 2 and mat.shape[0] == mat.shape[1] and mat.shape[0] % 2 == 0
                and mat.shape[0] >= 2 and rs.is_binary_matrix(mat, mat.shape[0] // 2) and rs.is_symplectic(mat)):
            # a nested call receiving a non-symplectic block means the outer reduction went wrong; the outer call's
            # own postcondition (from(to(S))==S / range) reports it. Not admissible input for this contract.
            ctx.hit('to_int_tuple/inadmissible-argument' if depth == 0 else 'to_int_tuple/nested-non-symplectic')
            return
        if c.exc is not None:
            return
        n = mat.shape[0] // 2
        r = c.result
        ok = isinstance(r, tuple) and len(r) == 2 * n and rs.in_range(r, n)
        ctx.check(ok, 'to_int_tuple/out-of-range', 'tuple is not inside the mixed-radix range prod(range(base_i))',
                  lambda: {'S': mat, 'got': repr(r)[:200], 'bases': list(rs.bases(n))})
        if ok and depth == 0:
            back = ctx.orig(sp.from_int_tuple)(r)
            ctx.check(isinstance(back, np.ndarray) and back.shape == mat.shape and np.array_equal(back, mat),
                      'to_int_tuple/not-right-inverse', 'from_int_tuple(to_int_tuple(S)) != S for a symplectic S',
                      lambda: {'S': mat, 'tuple': _tup(r), 'back': back})

    ctx.attach(sp, 'to_int_tuple', pre=pre_to, post=post_to)

    # ---------------- inverse
    def pre_inverse(c):
        return _snap(c.arg(0, 'mat'))

    def post_inverse(c):
        mat_now = c.arg(0, 'mat')
        same = args_unmodified('inverse', c, [('mat', mat_now, c.snap)])
        mat = mat_now if same else _at_call_time(mat_now, c.snap)
        if c.exc is not None:
            return
        if not (isinstance(mat, np.ndarray) and mat.ndim == 2 and mat.shape[0] == mat.shape[1] and mat.shape[0] % 2 == 0
                and mat.shape[0] >= 2 and rs.is_symplectic(mat)):
            ctx.hit('inverse/inadmissible-argument')
            return
        R = np.asarray(c.result)
        eye = np.eye(mat.shape[0], dtype=np.int64)
        ok = R.shape == mat.shape and bool(np.all((R == 0) | (R == 1)))
        ctx.check(ok and np.array_equal(rs.matmul2(mat, R), eye) and np.array_equal(rs.matmul2(R, mat), eye),
                  'inverse/not-two-sided', 'inverse(S) S = S inverse(S) = I fails for a symplectic S', lambda: {'S': mat, 'got': R})
        if isinstance(c.result, np.ndarray) and isinstance(mat_now, np.ndarray):
            ctx.check(not np.may_share_memory(c.result, mat_now), 'inverse/result-aliases-argument',
                      'inverse returns memory of its argument (editing one edits the other)', {'shape': list(mat.shape)})

    ctx.attach(sp, 'inverse', pre=pre_inverse, post=post_inverse)

    # ---------------- find_transvection
    def pre_find(c):
        return (_snap(c.arg(0, 'v0')), _snap(c.arg(1, 'v1')))

    def post_find(c):
        v0_now, v1_now = c.arg(0, 'v0'), c.arg(1, 'v1')
        s0, s1 = c.snap if c.snap is not None else (None, None)
        same = args_unmodified('find_transvection', c, [('v0', v0_now, s0), ('v1', v1_now, s1)])
        v0, v1 = (v0_now, v1_now) if same else (_at_call_time(v0_now, s0), _at_call_time(v1_now, s1))
        if not (isinstance(v0, np.ndarray) and isinstance(v1, np.ndarray) and v0.ndim == 1 and v0.shape == v1.shape
                and v0.size % 2 == 0 and v0.size >= 2 and v0.any() and v1.any()
                and bool(np.all((v0 == 0) | (v0 == 1))) and bool(np.all((v1 == 0) | (v1 == 1)))):
            ctx.hit('find_transvection/inadmissible-argument')
            return
        if c.exc is not None:
            return
        H = c.result
        ok = isinstance(H, np.ndarray) and H.shape == (2, v0.size) and bool(np.all((H == 0) | (H == 1)))
        ctx.check(ok, 'find_transvection/shape', 'find_transvection must return a (2,2n) 0/1 array',
                  lambda: {'v0': v0, 'v1': v1, 'got': repr(H)[:200]})
        if ok:
            img = rs.transvect(v0, H[0], H[1])
            ctx.check(np.array_equal(img, v1.astype(np.int64)), 'find_transvection/does-not-map',
                      'the two transvections returned do not map v0 to v1 (reference transvection)',
                      lambda: {'v0': v0, 'v1': v1, 'h0': H[0], 'h1': H[1], 'image': img})
            ctx.check(H is not v0_now and H is not v1_now and H.base is None, 'find_transvection/result-aliases-argument',
                      'find_transvection returns (a view of) another array instead of a fresh one', {'n': v0.size // 2})

    ctx.attach(sp, 'find_transvection', pre=pre_find, post=post_find)

    # ---------------- transvection
    def _tv_args(c):
        """x may be given by keyword (then every positional argument is a transvection)"""
        return ([c.kwargs['x']] if 'x' in c.kwargs else []) + list(c.args)

    def pre_transvection(c):
        a = _tv_args(c)
        return [_snap(t) for t in a] if a else None

    def post_transvection(c):
        """judges EVERY call form: 0, 1, 2, 3... transvections, 1-D, 2-D and N-D x (documented: ndim>=1)"""
        allargs = _tv_args(c)
        if not allargs or c.snap is None:
            return
        x_now = allargs[0]
        same = args_unmodified('transvection', c, [('x' if i == 0 else f'h[{i - 1}]', a, b) for i, (a, b) in enumerate(zip(allargs, c.snap))])
        if same:
            x, hs = x_now, allargs[1:]
        else:   # judged against the call-time contents
            x = _at_call_time(x_now, c.snap[0])
            hs = [_at_call_time(a, b) for a, b in zip(allargs[1:], c.snap[1:])]
        if c.exc is not None:
            return
        if not (isinstance(x, np.ndarray) and x.ndim >= 1 and x.dtype.kind in 'ui'
                and all(isinstance(h, np.ndarray) and h.ndim == 1 and h.size == x.shape[-1] and h.dtype.kind in 'ui' for h in hs)
                and x.shape[-1] % 2 == 0 and int(x.max(initial=0)) <= 1 and all(int(h.max(initial=0)) <= 1 for h in hs)):
            ctx.hit('transvection/unchecked-argument')
            return
        ctx.hit(f'transvection/form/{x.ndim}d-x/{min(len(hs), 3)}{"+" if len(hs) > 3 else ""}-h')
        ref = rs.transvect(x, *hs)
        r = c.result
        ok = isinstance(r, np.ndarray) and r.shape == ref.shape
        ctx.check(ok and np.array_equal(r, ref), 'transvection/value',
                  'transvection(x,*h) differs from x + <x,h> h applied successively (reference)',
                  lambda: {'x': x, 'h': [h for h in hs], 'got': r, 'expected': ref})
        if ok:
            # an F2 vector stays an F2 vector of the input's integer type (uint8 in, uint8 0/1 out) in every call form
            same_kind = r.dtype == np.result_type(x.dtype, *[h.dtype for h in hs])
            ctx.check(same_kind and int(r.max(initial=0)) <= 1 and (r.dtype.kind == 'u' or int(r.min(initial=0)) >= 0), 'transvection/result-not-binary',
                      'transvection result is not a 0/1 array of the integer type of its inputs', lambda: {'x': x, 'h': [h for h in hs], 'got': r, 'dtype': str(r.dtype)})
            if len(hs):
                ctx.check(not any(r is a for a in allargs) and r.base is None,
                          'transvection/result-aliases-argument', 'transvection(x,h,...) returns (a view of) another array instead of a fresh one',
                          {'x_shape': list(x.shape), 'n_h': len(hs)})

    ctx.attach(sp, 'transvection', pre=pre_transvection, post=post_transvection)

    # ---------------- rand_SpF2
    def post_rand(c):
        if c.exc is not None:
            return
        n = int(c.arg(0, 'n'))
        kind = str(c.arg(1, 'return_kind', 'matrix')).lower()
        r = c.result
        t = S = None
        if kind == 'matrix':
            S = r
        elif kind == 'int_tuple':
            t = r
        else:
            ok = isinstance(r, tuple) and len(r) == 2
            ctx.check(ok, 'rand_SpF2/return-kind', "return_kind='int_tuple-matrix' must return (tuple, matrix)", {'got': repr(r)[:200]})
            if not ok:
                return
            t, S = r
        if t is not None:
            ctx.check(isinstance(t, tuple) and rs.in_range(t, n), 'rand_SpF2/tuple-out-of-range',
                      'rand_SpF2 tuple lies outside the mixed-radix range', {'n': n, 'got': repr(t)[:200], 'bases': list(rs.bases(n))})
        if S is not None:
            ok = isinstance(S, np.ndarray) and rs.is_binary_matrix(S, n)
            ctx.check(ok and rs.is_symplectic(S), 'rand_SpF2/not-symplectic', 'rand_SpF2 matrix is not a symplectic (2n,2n) 0/1 matrix',
                      lambda: {'n': n, 'got': S})
            if ok and t is not None and rs.in_range(t, n):
                ctx.check(np.array_equal(ctx.orig(sp.from_int_tuple)(t), S), 'rand_SpF2/tuple-matrix-mismatch',
                          'the returned matrix is not from_int_tuple(returned tuple)', lambda: {'n': n, 'tuple': _tup(t), 'S': S})

    ctx.attach(numqi.random._spf2, 'rand_SpF2', post=post_rand)


def run(ctx, shard):
    import numqi
    install(ctx, numqi)
    sp = numqi.group.spf2
    name = shard['name']
    rng = ctx.rng
    worst = {'tuples': 0, 'pairs': 0}

    exhaustive_shard = name.startswith(('exh-', 'n3-slice'))
    img_tag = 'img-exh' if exhaustive_shard else 'img-rnd'

    def tuple_case(n, t, images=None, sample=False, with_inverse=True):
        """t -> S -> t, inverse(S); returns S (or None)"""
        t = tuple(int(x) for x in t)
        ctx.set_case({'op': 'tuple', 'n': n, 'tuple': list(t)})
        out = [None]
        with ctx.guard('tuple'):
            S = sp.from_int_tuple(t)
            good = isinstance(S, np.ndarray) and S.shape == (2 * n, 2 * n) and S.dtype == np.uint8
            if not good:
                ctx.case('tuple-bad-image', n, t)
                return None  # the contract on from_int_tuple has reported it
            ctx.case(img_tag, n, S, nontrivial=True, sample={'n': n, 'tuple': list(t), 'S': S} if sample else None)
            if images is not None:
                images.add(S.tobytes())
            back = sp.to_int_tuple(S)   # the same object is used again below (inverse): histories on one matrix
            ctx.check(isinstance(back, tuple) and tuple(int(x) for x in back) == t, 'roundtrip/to(from(t))!=t',
                      'to_int_tuple(from_int_tuple(t)) != t', lambda: {'n': n, 'tuple': list(t), 'back': repr(back)[:200], 'S': S},
                      point='workload/tuple-roundtrip')
            if with_inverse:
                sp.inverse(S)
            worst['tuples'] += 1
            out[0] = S
        return out[0]

    def pair_case(v0, v1, sample=False):
        ctx.set_case({'op': 'pair', 'v0': v0, 'v1': v1})
        nontriv = not np.array_equal(v0, v1)
        ctx.case('pair' if name.startswith('pairs') else 'pair-rnd', v0, v1, nontrivial=nontriv, sample={'v0': v0, 'v1': v1} if sample else None)
        with ctx.guard('pair'):
            H = sp.find_transvection(v0.copy(), v1.copy())
            if isinstance(H, np.ndarray) and H.shape == (2, v0.size):
                # documented form 1: v1 = transvection(v0, h0, h1)
                img = sp.transvection(v0.copy(), H[0], H[1])
                ctx.check(np.array_equal(np.asarray(img), v1), 'pair/transvection(v0,*find(v0,v1))!=v1',
                          'numqi.transvection applied with the returned pair does not give v1',
                          lambda: {'v0': v0, 'v1': v1, 'h0': H[0], 'h1': H[1], 'image': img}, point='workload/vector-pair')
                # documented form 2: v1 = transvection(transvection(v0, h0), h1)  (two single-transvection calls)
                mid = sp.transvection(v0.copy(), H[0])
                img2 = sp.transvection(mid, H[1]) if isinstance(mid, np.ndarray) and mid.shape == v0.shape else None
                ctx.check(isinstance(img2, np.ndarray) and img2.shape == v1.shape and np.array_equal(img2, v1), 'pair/nested-form!=v1',
                          'transvection(transvection(v0,h0),h1) does not give v1 (the joint form is judged separately)',
                          lambda: {'v0': v0, 'v1': v1, 'h0': H[0], 'h1': H[1], 'middle': mid, 'image': img2}, point='workload/vector-pair-nested')
                # other call forms: none, three (h1 twice = identity on the middle vector), 2-D x with one / two transvections
                z = sp.transvection(v0.copy())
                ctx.check(isinstance(z, np.ndarray) and np.array_equal(z, v0), 'transvection/no-transvection-changes-x', 'transvection(x) != x', {'x': v0})
                t3 = sp.transvection(v0.copy(), H[0], H[1], H[1])
                ctx.check(isinstance(t3, np.ndarray) and isinstance(mid, np.ndarray) and np.array_equal(t3, mid), 'transvection/three!=one',
                          'transvection(v,h0,h1,h1) != transvection(v,h0) (a transvection is an involution)', lambda: {'v': v0, 'h0': H[0], 'h1': H[1]})
                X = np.stack([v0, v1])
                r1 = sp.transvection(X, H[0])
                ctx.check(isinstance(r1, np.ndarray) and isinstance(mid, np.ndarray) and r1.shape == X.shape and np.array_equal(r1[0], mid),
                          'transvection/batched!=single', '2-D x with one transvection: row 0 differs from the 1-D call', lambda: {'v': v0, 'h': H[0]})
                r2 = sp.transvection(X, H[0], H[1])
                ctx.check(isinstance(r2, np.ndarray) and r2.shape == X.shape and np.array_equal(r2[0], v1), 'transvection/batched!=single',
                          '2-D x with two transvections: row 0 is not v1', lambda: {'v0': v0, 'v1': v1})
                if worst['pairs'] % 7 == 0:   # keyword form of find_transvection
                    Hk = sp.find_transvection(v1=v1.copy(), v0=v0.copy())
                    ctx.check(isinstance(Hk, np.ndarray) and np.array_equal(Hk, H), 'find_transvection/positional-call-differs-from-keyword-call',
                              'find_transvection(v0, v1) != find_transvection(v0=v0, v1=v1)', {'v0': v0, 'v1': v1})
            worst['pairs'] += 1

    def count_check(n, images, ntuples, full):
        ctx.set_case({'op': 'count', 'n': n})
        ctx.check(len(images) == ntuples, 'bijection/images-not-distinct', 'two different tuples have the same image matrix',
                  {'n': n, 'tuples': ntuples, 'distinct_images': len(images)}, point='workload/image-count')
        if full:
            ctx.check(ntuples == rs.order(n), 'bijection/count!=order',
                      'number of tuples (product of the bases) differs from the group order 2^(n^2) prod (4^i-1)',
                      {'n': n, 'tuples': ntuples, 'order': rs.order(n)})

    def all_pairs(n, part=0, nparts=1):
        vs = list(rs.nonzero_vectors(n))
        k = 0
        for i, v0 in enumerate(vs):
            if i % nparts != part:
                continue
            for v1 in vs:
                pair_case(v0, v1, sample=(k % 1999 == 5 and n >= 2))
                k += 1
            # batched transvection: all vectors at once through the pair found for (v0, first other vector)
            with ctx.guard('pair-batched'):
                H = sp.find_transvection(v0.copy(), vs[(i + 1) % len(vs)].copy())
                sp.transvection(np.stack(vs), H[0], H[1])
        ctx.extra[f'pairs_n{n}'] = k

    if name == 'exh-n1n2':
        ctx.workload('exhaustive')
        for n in (1, 2):
            with ctx.guard('get_number'):
                base = sp.get_number(n, kind='base')
                order = sp.get_number(n, kind='order')
                sp.get_number(n, kind='coset')
            if not (isinstance(base, tuple) and len(base) == 2 * n and all(isinstance(b, int) and b > 0 for b in base)):
                continue  # reported by the get_number contract
            ctx.check(math.prod(base) == order, 'get_number/prod(base)!=order', 'product of the bases is not the reported order',
                      {'n': n, 'base': list(base), 'order': int(order)})
            images = set()
            ntuples = 0
            # the domain driven is the library's own mixed-radix domain (so that surjectivity is about what the library
            # can index); the reference bases are compared in the get_number contract
            for t in itertools.product(*[range(b) for b in base]):
                S = tuple_case(n, t, images, sample=(ntuples % 181 == 7))
                ntuples += 1
                if S is not None:   # the same tuple as list / ndarray / numpy integers / by keyword, matrix by keyword
                    with ctx.guard('tuple-forms'):
                        forms = {'list': list(t), 'ndarray': np.array(t, dtype=np.int64), 'np.int64-entries': tuple(np.int64(x) for x in t),
                                 'np.uint16-entries': tuple(np.uint16(x) for x in t)}
                        for fn_, v in forms.items():
                            ctx.check(np.array_equal(sp.from_int_tuple(v), S), 'from_int_tuple/int-type-dependent',
                                      'list / ndarray / numpy-integer tuple entries give a different matrix than python ints', {'variant': fn_, 'tuple': list(t)})
                        ctx.check(np.array_equal(sp.from_int_tuple(int_tuple=t), S), 'from_int_tuple/positional-call-differs-from-keyword-call',
                                  'from_int_tuple(int_tuple=t) != from_int_tuple(t)', {'tuple': list(t)})
                        ctx.check(sp.to_int_tuple(mat=S) == t, 'to_int_tuple/positional-call-differs-from-keyword-call', 'to_int_tuple(mat=S) != to_int_tuple(S)',
                                  {'tuple': list(t)})
                        ctx.check(np.array_equal(sp.inverse(mat=S), sp.inverse(S)), 'inverse/positional-call-differs-from-keyword-call',
                                  'inverse(mat=S) != inverse(S)', {'tuple': list(t)})
            count_check(n, images, ntuples, full=True)
            brute = rs.brute_force_group(n)
            ctx.extra[f'brute_force_group_n{n}'] = len(brute)
            ctx.extra[f'tuples_n{n}'] = ntuples
            ctx.extra[f'distinct_images_n{n}'] = len(images)
            ctx.check(images == brute, 'bijection/image-set!=brute-force-Sp',
                      'the set of images differs from the set of all symplectic binary matrices found by brute force',
                      {'n': n, 'images': len(images), 'brute': len(brute), 'missing': len(brute - images), 'extra': len(images - brute)})
            # closure on the complete group (n=1 all pairs, n=2 a slice): product symplectic, indexable, inverse
            mats = [np.frombuffer(b, dtype=np.uint8).reshape(2 * n, 2 * n) for b in sorted(images)]
            sel = mats if n == 1 else [mats[i] for i in rng.choice(len(mats), size=min(40, len(mats)), replace=False)]
            for A in sel:
                for B in sel:
                    C = rs.matmul2(A, B).astype(np.uint8)
                    ctx.set_case({'op': 'product', 'n': n})
                    with ctx.guard('product'):
                        tt = sp.to_int_tuple(C)
                        ctx.check(C.tobytes() in images, 'bijection/product-not-an-image', 'product of two images is not an image',
                                  lambda: {'A': A, 'B': B})
                        sp.inverse(C)
    elif name == 'pairs':
        ctx.workload('exhaustive')
        for n in (1, 2, 3):
            all_pairs(n)
    elif name.startswith('pairs-n4'):
        ctx.workload('exhaustive')
        all_pairs(4, shard['part'], shard['nparts'])
    elif name.startswith('exh-n3') or name.startswith('n3-slice'):
        ctx.workload('exhaustive')
        n = 3
        with ctx.guard('get_number'):
            base = sp.get_number(n, kind='base')
        if not (isinstance(base, tuple) and len(base) == 6 and all(isinstance(b, int) and b > 0 for b in base)):
            return
        inner = list(itertools.product(*[range(b) for b in base[:4]]))
        outer = list(itertools.product(range(base[4]), range(base[5])))
        if 'part' in shard:
            part, nparts = shard['part'], shard['nparts']
            mine = [ab for j, ab in enumerate(outer) if j % nparts == part]
        else:
            # quick tier: a few complete cosets (all 720 inner tuples each): the two extreme ones + seeded choices
            part = -1
            fixed = [outer[0], outer[-1], outer[len(outer) // 2], outer[base[5] - 1]]
            mine = [fixed[shard['slice'] % len(fixed)]]
            mine += [outer[int(j)] for j in rng.choice(len(outer), size=shard['ncosets'] - 1, replace=False)]
            mine = sorted(set(mine))
            ctx.extra['cosets_driven'] = [list(ab) for ab in mine]
        images = set()
        ntuples = 0
        for (a3, b3) in mine:
            for t4 in inner:
                tuple_case(n, t4 + (a3, b3), images, sample=(part <= 0 and ntuples % 30011 == 11), with_inverse=(ntuples % 4 == 0))
                ntuples += 1
        count_check(n, images, ntuples, full=False)
        ctx.extra['tuples_n3_this_shard'] = ntuples
        ctx.extra['distinct_images_n3_this_shard'] = len(images)
        ctx.extra['domain_n3'] = {'outer_cosets': len(outer), 'inner': len(inner), 'total': len(outer) * len(inner),
                                  'reference_order': rs.order(3)}
        if part == 0:
            ctx.check(len(outer) * len(inner) == rs.order(3), 'bijection/count!=order',
                      'number of tuples (product of the bases) differs from the group order', {'n': 3, 'tuples': len(outer) * len(inner)})
    elif name == 'random':
        quick = ctx.tier == 'quick'
        # corner tuples
        ctx.workload('corner')
        for n in range(1, 11):
            base = rs.bases(n)
            with ctx.guard('get_number'):
                for kind in ('base', 'order', 'coset'):
                    sp.get_number(n, kind=kind)
                sp.get_number(n)
            corners = [tuple(0 for _ in base), tuple(b - 1 for b in base), tuple(b // 2 for b in base)]
            for i in range(len(base)):
                corners.append(tuple((b - 1 if j == i else 0) for j, b in enumerate(base)))
                corners.append(tuple((0 if j == i else b - 1) for j, b in enumerate(base)))
            for t in corners:
                tuple_case(n, t)
        for n in (12, 16, 20, 32):
            with ctx.guard('get_number'):
                # 'order' only up to n=16: a wrong closed form can produce integers with 2^n bits (seen with a seeded change,
                # 2^32 bits = a hang inside big-int multiplication); the contract has already judged n<=16 by then
                for kind in (('base', 'order', 'coset') if n <= 16 else ('base', 'coset')):
                    sp.get_number(n, kind=kind)
        # random tuples, uniformly per coordinate (python ints: bases exceed 2^63 only for n>=32)
        ctx.workload('random')
        N = 60 if quick else 600
        for n in range(1, 11):
            base = rs.bases(n)
            for it in range(N if n >= 3 else min(N, 30)):
                t = tuple(int(rng.integers(0, b)) for b in base)
                S = tuple_case(n, t, sample=(it == 0 and n in (3, 6, 10)))
                if S is None or it % 3:
                    continue
                # group structure on library-produced elements: product / transpose of symplectic matrices are symplectic
                # (reference arithmetic), must be indexable and come back; the closed-form inverse must invert them
                t2 = tuple(int(rng.integers(0, b)) for b in base)
                ctx.set_case({'op': 'product', 'n': n, 't': list(t), 't2': list(t2)})
                with ctx.guard('product'):
                    S2 = sp.from_int_tuple(t2)
                    if isinstance(S2, np.ndarray) and S2.shape == S.shape:
                        for C in (rs.matmul2(S, S2).astype(np.uint8), np.ascontiguousarray(S.T)):
                            ctx.case('img-rnd', n, C)
                            sp.to_int_tuple(C)
                            Ci = sp.inverse(C)
                            sp.to_int_tuple(np.ascontiguousarray(Ci))
        # matrices built by the reference (products of random transvections) -> tuple -> matrix
        M = 40 if quick else 400
        for n in range(1, 11):
            for it in range(M):
                S = rs.rand_symplectic(rng, n)
                ctx.set_case({'op': 'ref-matrix', 'n': n, 'S': S})
                ctx.case('img-rnd', n, S, sample={'op': 'ref-matrix', 'n': n, 'S': S} if (it == 0 and n == 4) else None)
                with ctx.guard('ref-matrix'):
                    t = sp.to_int_tuple(S.copy())
                    if isinstance(t, tuple) and rs.in_range(t, n):
                        S1 = sp.from_int_tuple(t)
                        ctx.check(isinstance(S1, np.ndarray) and np.array_equal(S1, S), 'roundtrip/from(to(S))!=S',
                                  'from_int_tuple(to_int_tuple(S)) != S for a reference-built symplectic S',
                                  lambda: {'n': n, 'S': S, 'tuple': _tup(t)})
                    sp.inverse(S)
        # random vector pairs at larger n (both branches of Lemma 2 need a pair with/without a common support qubit)
        for n in (4, 5, 6, 8, 10, 16):
            for it in range(150 if quick else 1500):
                w = int(rng.integers(1, 4))
                v0 = np.zeros(2 * n, dtype=np.uint8)
                v1 = np.zeros(2 * n, dtype=np.uint8)
                if it % 2:
                    v0 = rng.integers(0, 2, size=2 * n).astype(np.uint8)
                    v1 = rng.integers(0, 2, size=2 * n).astype(np.uint8)
                else:  # sparse supports: frequently disjoint (the "no common non-zero pair" branch)
                    for v in (v0, v1):
                        for q in rng.choice(n, size=min(w, n), replace=False):
                            xz = int(rng.integers(1, 4))
                            v[q], v[q + n] = xz & 1, xz >> 1
                if v0.any() and v1.any():
                    pair_case(v0, v1)
        # realistic producers
        ctx.workload('realistic')
        for it in range(150 if quick else 1500):
            n = int(rng.integers(1, 9))
            kind = ['matrix', 'int_tuple', 'int_tuple-matrix'][it % 3]
            seed = int(rng.integers(2**31))
            ctx.set_case({'op': 'rand_SpF2', 'n': n, 'kind': kind, 'seed': seed})
            with ctx.guard('rand_SpF2'):
                r = numqi.random.rand_SpF2(n, return_kind=kind, seed=seed)
                if kind == 'int_tuple-matrix' and isinstance(r, tuple) and len(r) == 2 and isinstance(r[1], np.ndarray):
                    ctx.case('img-rnd', n, r[1])
                    back = sp.to_int_tuple(r[1])
                    ctx.check(back == r[0], 'roundtrip/to(from(t))!=t', 'to_int_tuple(rand_SpF2 matrix) != rand_SpF2 tuple',
                              lambda: {'n': n, 'tuple': _tup(r[0]), 'back': repr(back)[:200]}, point='workload/tuple-roundtrip')
                elif kind == 'matrix' and isinstance(r, np.ndarray):
                    ctx.case('img-rnd', n, r)
                    sp.inverse(r)
            if it % 10 == 0:
                with ctx.guard('rand_Clifford_group'):
                    numqi.random.rand_Clifford_group(n, seed=seed)
    elif name == 'histories':
        # call-order sensitive part first (descending n in a fresh process), then the API forms
        _histories(ctx, numqi, sp, rng, tuple_case, pair_case)
        _api_forms(ctx, numqi, sp, rng, pair_case)
        import time
        t0 = time.time()
        _regimes(ctx, numqi, sp, rng, tuple_case, pair_case)
        ctx.extra['regimes_wall_s'] = round(time.time() - t0, 2)
    elif name == 'repo-tests':
        ctx.workload('repo-tests')
        _run_repo_tests(ctx, ['tests/tests_group/test_group_spf2.py'])
    ctx.extra['tuple_cases'] = worst['tuples']
    ctx.extra['pair_cases'] = worst['pairs']
    ctx.extra['distinct_case_digests_this_shard'] = len(ctx.case_digests)


def _eq(a, b):
    """deep equality of results (arrays by shape/dtype/value, tuples/lists elementwise)"""
    if isinstance(a, np.ndarray) or isinstance(b, np.ndarray):
        return isinstance(a, np.ndarray) and isinstance(b, np.ndarray) and a.shape == b.shape and a.dtype == b.dtype and np.array_equal(a, b)
    if isinstance(a, (tuple, list)):
        return type(a) is type(b) and len(a) == len(b) and all(_eq(x, y) for x, y in zip(a, b))
    return type(a) is type(b) and a == b


def _deepcopy(a):
    if isinstance(a, np.ndarray):
        return a.copy()
    if isinstance(a, (tuple, list)):
        return type(a)(_deepcopy(x) for x in a)
    return a


def _scribble(a):
    """caller edits a returned object in place (every writeable array inside it): returns number of arrays edited"""
    k = 0
    if isinstance(a, np.ndarray):
        if a.flags.writeable and a.size:
            a[...] = 1 - a if a.dtype.kind in 'ui' else a + 1
            k += 1
    elif isinstance(a, (tuple, list)):
        for x in a:
            k += _scribble(x)
    return k


def _api_forms(ctx, numqi, sp, rng, pair_case):
    """every documented way of calling the monitored functions (positional / keyword / explicit defaults / numpy scalars /
    alternative documented forms), exact special vectors, smallest and largest quick sizes; each call is judged by its contract,
    the relational checks here compare the forms with each other"""
    ctx.workload('corner')

    def agree(cond, key, what, wit):
        ctx.check(cond, key, what, wit, point='workload/api-forms')

    # ---- get_number: positional / keyword / default / numpy integer n / case of kind
    for n in list(range(1, 11)) + [16]:
        ctx.set_case({'op': 'get_number-forms', 'n': n})
        ctx.case('api-get_number', n)
        with ctx.guard('api/get_number'):
            for kind in ('base', 'coset', 'order'):
                a = sp.get_number(n, kind)
                forms = {'kind=': sp.get_number(n, kind=kind), 'n=,kind=': sp.get_number(n=n, kind=kind), 'kind=,n=': sp.get_number(kind=kind, n=n),
                         'np.int64 n': sp.get_number(np.int64(n), kind), 'np.uint8 n': sp.get_number(np.uint8(n), kind), 'upper-case kind': sp.get_number(n, kind.upper())}
                for fn_, b in forms.items():
                    agree(type(a) is type(b) and a == b, 'get_number/positional-call-differs-from-keyword-call' if '=' in fn_ else 'get_number/int-type-dependent',
                          'get_number gives different answers for two ways of passing the same arguments', {'n': n, 'kind': kind, 'form': fn_})
            agree(sp.get_number(n) == sp.get_number(n, 'base') == sp.get_number(n=n), 'get_number/explicit-default-differs',
                  "get_number(n) != get_number(n,'base')", {'n': n})

    # ---- transvection: every call form on exact special vectors and random ones, smallest (n=1) to largest quick size (n=10)
    for n in (1, 2, 3, 6, 10):
        e1 = np.zeros(2 * n, dtype=np.uint8)
        e1[0] = 1
        ones = np.ones(2 * n, dtype=np.uint8)
        zero = np.zeros(2 * n, dtype=np.uint8)
        last = np.zeros(2 * n, dtype=np.uint8)
        last[-1] = 1
        special = [e1, ones, zero, last, np.roll(e1, n)]
        rnd = [rng.integers(0, 2, size=2 * n).astype(np.uint8) for _ in range(6)]
        vecs = special + rnd
        X = np.stack(rnd)
        for i, x in enumerate(vecs):
            for j, h in enumerate(vecs):
                ctx.set_case({'op': 'transvection-forms', 'n': n, 'x': x, 'h': h})
                ctx.case('api-transvection', x, h, nontrivial=bool(rs.sip(x, h)))
                with ctx.guard('api/transvection'):
                    r1 = sp.transvection(x.copy(), h.copy())                      # ONE transvection, 1-D
                    g = vecs[(i + j + 1) % len(vecs)]
                    r2 = sp.transvection(x.copy(), h.copy(), g.copy())            # two
                    r12 = sp.transvection(r1, g.copy()) if isinstance(r1, np.ndarray) and r1.shape == x.shape else None   # nested
                    agree(isinstance(r12, np.ndarray) and isinstance(r2, np.ndarray) and r12.shape == r2.shape and np.array_equal(r12, r2),
                          'transvection/nested-form-differs-from-joint-form', 'transvection(transvection(x,h),g) != transvection(x,h,g)',
                          lambda: {'x': x, 'h': h, 'g': g, 'nested': r12, 'joint': r2})
                    r11 = sp.transvection(r1, h.copy()) if isinstance(r1, np.ndarray) and r1.shape == x.shape else None
                    agree(isinstance(r11, np.ndarray) and np.array_equal(r11, x), 'transvection/not-an-involution',
                          'applying the same single transvection twice does not give x back', lambda: {'x': x, 'h': h, 'once': r1, 'twice': r11})
                    sp.transvection(x.copy(), h.copy(), g.copy(), h.copy())      # three
                    sp.transvection(x=x.copy())                                  # none, x by keyword
            with ctx.guard('api/transvection-2d'):
                h = vecs[i]
                b1 = sp.transvection(X.copy(), h.copy())                          # 2-D x, one transvection
                rows = [sp.transvection(r.copy(), h.copy()) for r in X]
                agree(isinstance(b1, np.ndarray) and b1.shape == X.shape and all(isinstance(r, np.ndarray) and r.shape == X[0].shape for r in rows)
                      and np.array_equal(b1, np.stack(rows)), 'transvection/batched!=single', '2-D x: rows differ from the 1-D single-transvection calls',
                      {'n': n, 'h': h})
                sp.transvection(X.copy())
                sp.transvection(X[:1].copy(), h.copy(), h.copy(), h.copy())

    # ---- vector pairs through pair_case (both documented forms) at the smallest size and on special vectors of the largest
    for n in (1, 10):
        vs = list(rs.nonzero_vectors(1)) if n == 1 else [v for v in (np.eye(2 * n, dtype=np.uint8)[0], np.ones(2 * n, dtype=np.uint8),
                                                              np.eye(2 * n, dtype=np.uint8)[-1], np.eye(2 * n, dtype=np.uint8)[n])]
        for v0 in vs:
            for v1 in vs:
                pair_case(v0.copy(), v1.copy())

    # ---- rand_SpF2: positional / keyword / explicit default / numpy integer n / case of return_kind
    ctx.workload('realistic')
    for it in range(12):
        n = [1, 2, 10][it % 3] if it < 6 else int(rng.integers(1, 9))
        seed = int(rng.integers(2**31))
        ctx.set_case({'op': 'rand_SpF2-forms', 'n': n, 'seed': seed})
        ctx.case('api-rand_SpF2', n, seed)
        with ctx.guard('api/rand_SpF2'):
            R = numqi.random.rand_SpF2
            for kind in ('matrix', 'int_tuple', 'int_tuple-matrix'):
                a = R(n, kind, seed)
                for fn_, b in {'keywords': R(n=n, return_kind=kind, seed=seed), 'mixed': R(n, seed=seed, return_kind=kind),
                               'np.int64 n': R(np.int64(n), kind, seed), 'upper-case kind': R(n, kind.upper(), seed)}.items():
                    agree(_eq(a, b), 'rand_SpF2/positional-call-differs-from-keyword-call' if fn_ in ('keywords', 'mixed') else 'rand_SpF2/int-type-dependent',
                          'rand_SpF2 with the same seed gives different results for two ways of passing the same arguments', {'n': n, 'kind': kind, 'form': fn_})
            agree(_eq(R(n, seed=seed), R(n, 'matrix', seed)), 'rand_SpF2/explicit-default-differs', "rand_SpF2(n, seed=s) != rand_SpF2(n, 'matrix', s)", {'n': n})


def _histories(ctx, numqi, sp, rng, tuple_case, pair_case):
    """(1) histories on one object / one process, (2) call order, (3) argument mutation (by the contracts),
    (4) integer types and memory layouts of in-domain inputs. Everything here runs in ONE process."""
    quick = ctx.tier == 'quick'
    R = 12 if quick else 60

    def rtuple(n):
        return tuple(int(rng.integers(0, b)) for b in rs.bases(n))

    def call_twice(fn, make_call, desc):
        """edit-the-result-then-call-again + result-aliases-earlier-call for one call with fixed arguments"""
        ctx.set_case({'op': 'edit-result-then-call-again', 'fn': fn, **desc})
        ctx.case('history', fn, desc)
        with ctx.guard(f'history/{fn}'):
            r1 = make_call()
            snap = _deepcopy(r1)
            _scribble(r1)
            r2 = make_call()
            ctx.check(_eq(r2, snap), f'{fn}/stale-after-result-edit',
                      f'{fn}: after the caller edited the first result in place, the same call returns something else (cached mutable result)',
                      lambda: {**desc, 'first': snap, 'second': r2}, point='workload/history')
            keep = _deepcopy(r2)
            return r2, keep
        return None, None

    # ---- (2) call order: descending n, kinds in another order than everywhere else, first thing in a fresh process
    ctx.workload('corner')
    first = {}
    for n in list(range(10, 0, -1)) + [3, 10, 1]:
        ctx.set_case({'op': 'get_number-order', 'n': n})
        with ctx.guard('get_number'):
            for kind in ('coset', 'order', 'base'):
                r = sp.get_number(n, kind=kind)
                if (n, kind) in first:
                    ctx.check(_eq(r, first[(n, kind)]), 'get_number/differs-between-calls', 'get_number(n,kind) changed between two calls in one process',
                              {'n': n, 'kind': kind}, point='workload/history')
                first[(n, kind)] = r
            ctx.check(sp.get_number(np.int64(n), kind='BASE') == first[(n, 'base')], 'get_number/int-type-dependent',
                      'numpy-integer n / upper-case kind gives a different answer', {'n': n})
    ctx.workload('random')
    order_ns = [10, 7, 4, 3, 2, 1, 2, 3, 5, 10, 1]
    memo = {}
    for n in order_ns:
        t = memo.setdefault(n, rtuple(n))
        S = tuple_case(n, t)
        if S is not None:
            if ('S', n) in memo:
                ctx.check(np.array_equal(S, memo[('S', n)]), 'from_int_tuple/differs-between-calls',
                          'the same tuple gives a different matrix later in the same process', {'n': n, 'tuple': list(t)}, point='workload/history')
            memo[('S', n)] = S.copy()

    # ---- (1) one matrix object queried repeatedly; results kept while further calls are made
    for it in range(R):
        for n in (1, 2, 3, 5, 8):
            t = rtuple(n) if it else tuple(b - 1 for b in rs.bases(n))
            ctx.set_case({'op': 'same-object-again', 'n': n, 'tuple': list(t)})
            ctx.case('history-same-object', n, t)
            with ctx.guard('history/same-object'):
                M = sp.from_int_tuple(t)
                if not (isinstance(M, np.ndarray) and M.shape == (2 * n, 2 * n)):
                    continue
                M0 = M.copy()
                t1 = sp.to_int_tuple(M)
                Mi = sp.inverse(M)
                Mi0 = np.array(Mi, copy=True)
                t2 = sp.to_int_tuple(M)
                H = sp.find_transvection(M[0], M[n])          # row views of the same object
                H0 = np.array(H, copy=True)
                sp.transvection(M[0], H[0], H[1])
                sp.transvection(M, H[0], H[1])
                M2 = sp.from_int_tuple(rtuple(n))              # another call while M, Mi, H are alive
                sp.inverse(M2)
                ctx.check(t1 == t and t2 == t, 'to_int_tuple/differs-between-calls', 'to_int_tuple on the same matrix object twice gives different tuples',
                          lambda: {'tuple': list(t), 'first': repr(t1), 'second': repr(t2)}, point='workload/history')
                ctx.check(np.array_equal(M, M0), 'history/matrix-changed-by-queries', 'the matrix object changed while it was only queried',
                          lambda: {'tuple': list(t), 'before': M0, 'after': M}, point='workload/history')
                ctx.check(np.array_equal(Mi, Mi0), 'inverse/result-aliases-earlier-call', 'an earlier inverse() result changed during later calls',
                          {'n': n}, point='workload/history')
                ctx.check(np.array_equal(H, H0), 'find_transvection/result-aliases-earlier-call', 'an earlier find_transvection result changed during later calls',
                          {'n': n}, point='workload/history')

    # ---- (1) edit-the-result-then-call-again for every function returning arrays
    for it in range(R):
        n = int(rng.integers(1, 9))
        t = rtuple(n)
        S = rs.rand_symplectic(rng, n)
        v0 = rng.integers(0, 2, size=2 * n).astype(np.uint8)
        v1 = rng.integers(0, 2, size=2 * n).astype(np.uint8)
        v0[int(rng.integers(2 * n))] = 1
        v1[int(rng.integers(2 * n))] = 1
        h = rng.integers(0, 2, size=2 * n).astype(np.uint8)
        seed = int(rng.integers(2**31))
        call_twice('from_int_tuple', lambda: sp.from_int_tuple(t), {'n': n, 'tuple': list(t)})
        call_twice('inverse', lambda: sp.inverse(S), {'n': n})
        call_twice('find_transvection', lambda: sp.find_transvection(v0, v1), {'n': n})
        call_twice('transvection', lambda: sp.transvection(v0, h, v1), {'n': n, 'x': '1d'})
        call_twice('transvection', lambda: sp.transvection(S, h, v1), {'n': n, 'x': '2d'})
        call_twice('rand_SpF2', lambda: numqi.random.rand_SpF2(n, return_kind='int_tuple-matrix', seed=seed), {'n': n, 'seed': seed})
        call_twice('rand_SpF2', lambda: numqi.random.rand_SpF2(n, seed=seed), {'n': n, 'seed': seed, 'kind': 'matrix'})
        call_twice('to_int_tuple', lambda: sp.to_int_tuple(S), {'n': n})
        call_twice('get_number', lambda: sp.get_number(n, kind='base'), {'n': n})

    # ---- (1) work buffers: the same array / list object refilled with new contents between calls
    for n in (1, 2, 3, 6):
        buf = np.zeros((2 * n, 2 * n), dtype=np.uint8)
        vb0 = np.zeros(2 * n, dtype=np.uint8)
        vb1 = np.zeros(2 * n, dtype=np.uint8)
        lst = [0] * (2 * n)
        for it in range(R):
            t = rtuple(n)
            ctx.set_case({'op': 'work-buffer', 'n': n, 'tuple': list(t)})
            ctx.case('history-buffer', n, t)
            with ctx.guard('history/work-buffer'):
                lst[:] = list(t)
                S = sp.from_int_tuple(lst)
                ref = ctx.orig(sp.from_int_tuple)(tuple(t))
                ctx.check(_eq(S, ref), 'from_int_tuple/stale-after-inplace-update', 'a refilled list object gives the matrix of its earlier contents',
                          {'n': n, 'tuple': list(t)}, point='workload/history')
                if not (isinstance(S, np.ndarray) and S.shape == buf.shape):
                    continue
                buf[...] = S
                tb = sp.to_int_tuple(buf)
                ctx.check(tb == t, 'to_int_tuple/stale-after-inplace-update', 'a refilled matrix buffer gives the tuple of its earlier contents',
                          lambda: {'n': n, 'tuple': list(t), 'got': repr(tb)}, point='workload/history')
                sp.inverse(buf)          # judged by the contract against the current contents
                vb0[...] = S[int(rng.integers(2 * n))]
                vb1[...] = S[int(rng.integers(2 * n))]
                Hb = sp.find_transvection(vb0, vb1)
                sp.transvection(vb0, Hb[0], Hb[1])
                sp.transvection(buf, Hb[0], Hb[1])

    # ---- (4) integer types of tuple entries, containers, memory layouts, dtypes
    for it in range(R):
        n = int(rng.integers(1, 9))
        t = rtuple(n)
        ctx.set_case({'op': 'int-types-and-layouts', 'n': n, 'tuple': list(t)})
        ctx.case('history-layout', n, t)
        with ctx.guard('history/layout'):
            S = sp.from_int_tuple(t)
            if not (isinstance(S, np.ndarray) and S.shape == (2 * n, 2 * n)):
                continue
            variants = {'tuple-of-np.int64': tuple(np.int64(x) for x in t), 'tuple-of-np.int32': tuple(np.int32(x) for x in t),
                        'list': list(t), 'ndarray-int64': np.array(t, dtype=np.int64), 'mixed': tuple((np.int64(x) if i % 2 else x) for i, x in enumerate(t))}
            for vn, v in variants.items():
                Sv = sp.from_int_tuple(v)
                ctx.check(_eq(Sv, S), 'from_int_tuple/int-type-dependent', 'numpy-integer / list / ndarray tuple entries give a different matrix than python ints',
                          lambda: {'variant': vn, 'tuple': list(t)}, point='workload/history')
            big = np.zeros((4 * n, 4 * n), dtype=np.uint8)
            big[::2, ::2] = S
            layouts = {'fortran': np.asfortranarray(S), 'strided-view': big[::2, ::2], 'transposed-view': np.ascontiguousarray(S.T).T,
                       'negative-strides': np.ascontiguousarray(S[::-1, ::-1])[::-1, ::-1]}
            h1 = rng.integers(0, 2, size=2 * n).astype(np.uint8)
            h2 = rng.integers(0, 2, size=2 * n).astype(np.uint8)
            hbig = np.zeros(4 * n, dtype=np.uint8)
            hbig[::2] = h1
            inv0 = sp.inverse(S)
            tr0 = sp.transvection(S, h1, h2)
            for ln, V in layouts.items():
                ctx.check(sp.to_int_tuple(V) == t, 'to_int_tuple/layout-dependent', 'a non-C-contiguous copy/view of the same matrix gives another tuple',
                          {'layout': ln, 'tuple': list(t)}, point='workload/history')
                ctx.check(_eq(np.ascontiguousarray(sp.inverse(V)), inv0), 'inverse/layout-dependent', 'inverse depends on the memory layout of the matrix',
                          {'layout': ln, 'n': n}, point='workload/history')
                ctx.check(_eq(np.ascontiguousarray(sp.transvection(V, hbig[::2], h2)), tr0), 'transvection/layout-dependent',
                          'transvection depends on the memory layout of x / h', {'layout': ln, 'n': n}, point='workload/history')
            # wider integer dtype of the same values (accepted by inverse / transvection / find_transvection)
            S64 = S.astype(np.int64)
            ctx.check(np.array_equal(sp.inverse(S64), inv0), 'inverse/dtype-dependent', 'inverse of the int64 copy differs in value', {'n': n}, point='workload/history')
            ctx.check(np.array_equal(sp.transvection(S64, h1.astype(np.int64), h2.astype(np.int64)), tr0), 'transvection/dtype-dependent',
                      'transvection of int64 copies differs in value', {'n': n}, point='workload/history')
            v0, v1 = S[0], S[n]
            H = sp.find_transvection(v0, v1)
            vb = np.zeros(4 * n, dtype=np.uint8)
            vb[::2] = v0
            Hv = sp.find_transvection(vb[::2], np.ascontiguousarray(v1[::-1])[::-1])
            ctx.check(_eq(np.ascontiguousarray(Hv), H), 'find_transvection/layout-dependent', 'find_transvection depends on the memory layout of the vectors',
                      {'n': n}, point='workload/history')

    # ---- (2) repeat the first configurations at the end
    for n in order_ns[:4]:
        S = tuple_case(n, memo[n])
        if S is not None and ('S', n) in memo:
            ctx.check(np.array_equal(S, memo[('S', n)]), 'from_int_tuple/differs-between-calls',
                      'the same tuple gives a different matrix at the end of the process', {'n': n, 'tuple': list(memo[n])}, point='workload/history')


def _regimes(ctx, numqi, sp, rng, tuple_case, pair_case):
    """lesson 3: (a) integer regime (tuple entries around 2^31, 2^32, 2^53, 2^63, 2^64; vector weights >= 256 where the uint8
    arithmetic of get_inner_product wraps), (b) shape regime (N-d x, one degenerate row in a batch, largest sizes), (d) every other
    public function of the anchored files that consumes the machinery + the enumerating consumers in numqi.gate._pauli,
    (e) read-only inputs. Torch / gradients / module objects do not exist for this property."""
    quick = ctx.tier == 'quick'

    def reg(cond, key, what, wit):
        ctx.check(cond, key, what, wit, point='workload/regimes')

    def ent(cond, key, what, wit):
        ctx.check(cond, key, what, wit, point='workload/entry-points')

    # ---- (a) tuple entries straddling machine-integer boundaries (python ints; the bases exceed 2^63 from n=32 on)
    ctx.workload('corner')
    for n in (16, 27, 32, 33, 40):
        base = rs.bases(n)
        with ctx.guard('get_number'):
            for kind in ('base', 'coset'):     # ('order' of large n: see the remark in shard random)
                sp.get_number(n, kind=kind)
        tuples = [tuple(b - 1 for b in base), tuple(0 for _ in base)]
        for k in (31, 32, 53, 63, 64):
            idx = [i for i, b in enumerate(base) if b > 2**k + 1]
            # the first coordinate that can hold the value (quick: only there) and the last one; n=40 (the most expensive): 2^64 only
            for i in ([] if (n == 40 and k != 64) else sorted(set(idx[:1] + ([] if quick else idx[-1:])))):
                for v in (2**k - 1, 2**k, 2**k + 1):
                    t = [int(rng.integers(0, min(b, 2**62))) for b in base]
                    t[i] = v
                    tuples.append(tuple(t))
        for it in range(1 if quick else 20):
            tuples.append(tuple(b - 1 - int(rng.integers(0, min(b, 2**20))) for b in base))
        for t in dict.fromkeys(tuples):
            S = tuple_case(n, t)
            ctx.hit('workload/regimes')
    # ---- (a) vectors of weight >= 256: np.dot of uint8 wraps modulo 256 inside get_inner_product (parity survives; a change of
    # the accumulator type / modulus would not), all-ones and nearly all-ones vectors included
    ctx.workload('random')
    with np.errstate(over='ignore'):
        for n in (128, 150, 200):
            ones = np.ones(2 * n, dtype=np.uint8)
            a = ones.copy()
            a[0] = 0
            b = ones.copy()
            b[:2] = 0
            pairs = [(ones, a), (a, ones), (ones, b), (b, a)]
            for it in range(6 if quick else 40):
                v0 = rng.integers(0, 2, size=2 * n).astype(np.uint8)
                v1 = rng.integers(0, 2, size=2 * n).astype(np.uint8)
                if it % 2:     # heavy: about 7/8 of the entries set
                    v0 |= rng.integers(0, 2, size=2 * n).astype(np.uint8) | rng.integers(0, 2, size=2 * n).astype(np.uint8)
                pairs.append((v0, v1))
            for v0, v1 in pairs:
                if v0.any() and v1.any():
                    pair_case(v0.copy(), v1.copy())
                    ctx.set_case({'op': 'inner-product-heavy', 'n': n, 'v0': v0, 'v1': v1})
                    with ctx.guard('get_inner_product'):
                        r = sp.get_inner_product(v0, v1)
                        ent(isinstance(r, (np.integer, np.ndarray)) and np.ndim(r) == 0 and int(r) == rs.sip(v0, v1), 'get_inner_product/value',
                            'symplectic inner product differs from the sum over qubit pairs (python ints)', lambda: {'n': n, 'got': repr(r), 'expected': rs.sip(v0, v1)})

    # ---- (d) get_inner_product: 1-D / 2-D / 3-D first argument, documented result (uint8, ndim-1), alternating + symmetric + bilinear
    for n in (1, 2, 3, 5, 8, 16):
        for it in range(4 if quick else 30):
            u, v, w = (rng.integers(0, 2, size=2 * n).astype(np.uint8) for _ in range(3))
            X2 = rng.integers(0, 2, size=(int(rng.integers(1, 5)), 2 * n)).astype(np.uint8)
            X3 = rng.integers(0, 2, size=(2, 3, 2 * n)).astype(np.uint8)
            if it == 0:
                X2[0] = 0         # one degenerate (zero) row in the batch
                X3[1, 1] = 0
            ctx.set_case({'op': 'inner-product', 'n': n, 'u': u, 'v': v})
            ctx.case('entry-inner-product', n, u, v, X2, nontrivial=bool(u.any() and v.any()))
            with ctx.guard('get_inner_product'):
                r = sp.get_inner_product(u, v)
                ent(np.ndim(r) == 0 and getattr(r, 'dtype', None) == np.uint8 and int(r) == rs.sip(u, v), 'get_inner_product/value',
                    'symplectic inner product differs from the sum over qubit pairs (python ints)', lambda: {'u': u, 'v': v, 'got': repr(r)})
                ent(int(sp.get_inner_product(v, u)) == int(r) and int(sp.get_inner_product(u, u)) == 0, 'get_inner_product/not-alternating',
                    '<u,v> != <v,u> or <u,u> != 0', lambda: {'u': u, 'v': v})
                ent((int(sp.get_inner_product((u + w) % 2, v)) - int(r) - int(sp.get_inner_product(w, v))) % 2 == 0, 'get_inner_product/not-bilinear',
                    '<u+w,v> != <u,v> + <w,v>', lambda: {'u': u, 'w': w, 'v': v})
                for X in (X2, X3):
                    rb = sp.get_inner_product(X, v)
                    exp = np.array([rs.sip(x, v) for x in X.reshape(-1, 2 * n)], dtype=np.int64).reshape(X.shape[:-1])
                    ok = isinstance(rb, np.ndarray) and rb.shape == X.shape[:-1] and rb.dtype == np.uint8
                    ent(ok and np.array_equal(rb, exp), 'get_inner_product/batched-value',
                        'batched symplectic inner product (ndim>=2 first argument) differs from the per-row reference / documented uint8 result of ndim-1',
                        lambda: {'x_shape': list(X.shape), 'v': v, 'got': rb, 'expected': exp})
            # ---- (b) transvection: N-d x (documented ndim>=1) and a batch with ONE zero row / one row equal to h
            ctx.set_case({'op': 'transvection-nd', 'n': n})
            with ctx.guard('transvection-nd'):
                r3 = sp.transvection(X3.copy(), u, v)                       # value judged by the contract (reference)
                r2 = sp.transvection(X3.reshape(-1, 2 * n).copy(), u, v)
                reg(isinstance(r3, np.ndarray) and isinstance(r2, np.ndarray) and r3.shape == X3.shape and np.array_equal(r3.reshape(-1, 2 * n), r2),
                    'transvection/nd-x!=2d-x', 'a 3-D x gives other rows than the same rows as a 2-D x', lambda: {'x': X3, 'h': [u, v]})
                Xd = np.stack([w, np.zeros(2 * n, dtype=np.uint8), u, v])
                rd = sp.transvection(Xd.copy(), u, v)
                rows = [sp.transvection(x.copy(), u, v) for x in Xd]
                reg(isinstance(rd, np.ndarray) and rd.shape == Xd.shape and all(isinstance(x, np.ndarray) and x.shape == (2 * n,) for x in rows)
                    and np.array_equal(rd, np.stack(rows)), 'transvection/batched!=single',
                    'a batch containing a zero row / the transvection vector itself: rows differ from the 1-D calls', lambda: {'x': Xd, 'h': [u, v]})
                r1 = sp.transvection(Xd[:1].copy(), u, v)                  # batch size 1
                reg(isinstance(r1, np.ndarray) and r1.shape == (1, 2 * n) and isinstance(rows[0], np.ndarray) and np.array_equal(r1[0], rows[0]),
                    'transvection/batched!=single', 'batch of size 1 differs from the 1-D call', lambda: {'x': Xd[:1], 'h': [u, v]})

    # ---- (d) int_to_bitarray / bitarray_to_int (little endian), around 2^8, 2^16, 2^31, 2^32, 2^53, 2^63, 2^64
    ctx.workload('corner')
    ints = [0, 1, 2, 3, 5, 254, 255, 256, 257]
    for k in (16, 31, 32, 53, 63, 64, 80):
        ints += [2**k - 1, 2**k, 2**k + 1]
    ints += [int(rng.integers(0, 2**62)) for _ in range(6)]
    for i in ints:
        for nbit in sorted({max(i.bit_length(), 1), i.bit_length() + 1, i.bit_length() + 7, 8 * ((i.bit_length() + 7) // 8) + 8}):
            ctx.set_case({'op': 'int_to_bitarray', 'i': i, 'n': nbit})
            ctx.case('entry-bitarray', i, nbit, nontrivial=i > 0)
            with ctx.guard('int_to_bitarray'):
                bits = sp.int_to_bitarray(i, nbit)
                exp = [(i >> k) & 1 for k in range(nbit)]
                ok = isinstance(bits, np.ndarray) and bits.shape == (nbit,) and bits.dtype == np.uint8
                ent(ok and bits.tolist() == exp, 'int_to_bitarray/value', 'bit k of int_to_bitarray(i,n) is not (i>>k)&1 (little endian, uint8, length n)',
                    lambda: {'i': i, 'n': nbit, 'got': bits})
                if ok:
                    back = sp.bitarray_to_int(bits)
                    ent(isinstance(back, int) and back == sum(int(b) << k for k, b in enumerate(bits.tolist())), 'bitarray_to_int/value',
                        'bitarray_to_int(b) != sum b_k 2^k', lambda: {'i': i, 'n': nbit, 'got': repr(back)})
                    pad = np.zeros(2 * nbit, dtype=np.uint8)
                    pad[::2] = bits
                    ent(sp.bitarray_to_int(pad[::2]) == back, 'bitarray_to_int/layout-dependent', 'a strided view of the same bits gives another integer',
                        {'i': i, 'n': nbit})
                if i < 2**63:
                    ent(_eq(sp.int_to_bitarray(np.int64(i), nbit), bits), 'int_to_bitarray/int-type-dependent', 'numpy-integer i gives other bits', {'i': i, 'n': nbit})

    # ---- (d) schmidt_orthogonalization: a shuffled symplectic basis must come back as a symplectic basis [v0s..., v1s...]
    ctx.workload('random')
    for n in (1, 2, 3, 4, 6, 8):
        for it in range(3 if quick else 20):
            S = rs.rand_symplectic(rng, n)
            rows = [S[int(i)].copy() for i in rng.permutation(2 * n)]
            keep = [x.copy() for x in rows]
            ctx.set_case({'op': 'schmidt', 'n': n, 'rows': np.stack(rows)})
            ctx.case('entry-schmidt', n, np.stack(rows))
            with ctx.guard('schmidt_orthogonalization'):
                out = sp.schmidt_orthogonalization(rows)
                ok = isinstance(out, list) and len(out) == 2 * n and all(isinstance(x, np.ndarray) and x.shape == (2 * n,) and x.dtype == np.uint8 for x in out)
                M = np.stack(out) if ok else None
                ent(ok and rs.is_binary_matrix(M, n) and rs.is_symplectic(M), 'schmidt_orthogonalization/not-a-symplectic-basis',
                    'the 2n vectors returned for a (shuffled) symplectic basis are not a symplectic basis [v0_1..v0_n, v1_1..v1_n]',
                    lambda: {'n': n, 'input_rows': np.stack(keep), 'got': M if ok else repr(out)[:200]})
                ent(len(rows) == len(keep) and all(np.array_equal(a, b) for a, b in zip(rows, keep)), 'schmidt_orthogonalization/mutates-argument',
                    'schmidt_orthogonalization modified the list / the vectors it was given', {'n': n})
                if ok and rs.is_symplectic(M):
                    sp.to_int_tuple(np.ascontiguousarray(M))      # indexable (contract: range + from(to(S))==S)

    # ---- (e) read-only inputs (a function writing into its argument would raise / differ)
    for n in (1, 2, 5):
        S = rs.rand_symplectic(rng, n)
        Sro = S.copy()
        Sro.flags.writeable = False
        h = rng.integers(0, 2, size=2 * n).astype(np.uint8)
        h[int(rng.integers(2 * n))] = 1
        hro = h.copy()
        hro.flags.writeable = False
        ctx.set_case({'op': 'read-only-inputs', 'n': n, 'S': S})
        with ctx.guard('read-only-input'):
            reg(sp.to_int_tuple(Sro) == sp.to_int_tuple(S), 'to_int_tuple/readonly-input-differs', 'a read-only copy of the matrix gives another tuple', {'n': n})
            reg(_eq(np.ascontiguousarray(sp.inverse(Sro)), np.ascontiguousarray(sp.inverse(S))), 'inverse/readonly-input-differs', 'inverse of a read-only copy differs', {'n': n})
            reg(_eq(sp.transvection(Sro, hro), sp.transvection(S, h)), 'transvection/readonly-input-differs', 'transvection of read-only copies differs', {'n': n})
            reg(_eq(sp.find_transvection(Sro[0], hro), sp.find_transvection(S[0].copy(), h)), 'find_transvection/readonly-input-differs',
                'find_transvection of read-only copies differs', {'n': n})

    # ---- (d) rand_Clifford_group: (sign vector, symplectic matrix); the matrix is produced by the contracted rand_SpF2
    ctx.workload('realistic')
    for it in range(6 if quick else 60):
        n = [1, 2, 10][it] if it < 3 else int(rng.integers(1, 9))
        seed = int(rng.integers(2**31))
        ctx.set_case({'op': 'rand_Clifford_group', 'n': n, 'seed': seed})
        ctx.case('entry-rand-clifford', n, seed)
        with ctx.guard('rand_Clifford_group'):
            r = numqi.random.rand_Clifford_group(n, seed=seed)
            ok = isinstance(r, tuple) and len(r) == 2 and all(isinstance(x, np.ndarray) for x in r)
            ent(ok and r[0].shape == (2 * n,) and r[0].dtype == np.uint8 and int(r[0].max(initial=0)) <= 1 and rs.is_binary_matrix(r[1], n) and rs.is_symplectic(r[1]),
                'rand_Clifford_group/not-(F2-vector,symplectic-matrix)', 'rand_Clifford_group must return a 0/1 vector of length 2n and a symplectic (2n,2n) matrix',
                lambda: {'n': n, 'seed': seed, 'got': repr(r)[:200]})
            if ok:
                sp.to_int_tuple(r[1])

    # ---- (d) consumers in numqi.gate._pauli that enumerate the whole group through from_int_tuple: orbit-stabilizer theorem
    gp = numqi.gate._pauli
    subsets = [(1, (1,)), (1, (1, 2)), (1, (1, 2, 3)), (1, (3,))]
    pool2 = [(1, 2), (5,), (1, 6, 11), (3, 12), (1, 2, 3), (7, 9, 14, 15)]
    pick = rng.choice(len(pool2), size=1 if quick else 4, replace=False)
    subsets += [(2, pool2[int(i)]) for i in pick]
    for nq, sub in subsets:
        ctx.set_case({'op': 'pauli-subset-orbit-stabilizer', 'num_qubit': nq, 'subset': list(sub)})
        ctx.case('entry-pauli-subset', nq, sub)
        with ctx.guard('consumer/pauli-subset'):
            orbit = gp.get_pauli_subset_equivalent(sub, nq)
            stab = gp.get_pauli_subset_stabilizer(sub, nq, print_every_N=0)
            ok = isinstance(orbit, set) and isinstance(stab, list) and len(set(stab)) == len(stab)
            ent(ok and len(orbit) * len(stab) == rs.order(nq), 'consumer/pauli-subset/orbit*stabilizer!=order',
                '|orbit of a Pauli subset| * |its stabilizer| != |Sp(2n,F2)| when both are enumerated through from_int_tuple (the indexing is not a bijection onto the group)',
                lambda: {'num_qubit': nq, 'subset': list(sub), 'orbit': len(orbit) if ok else None, 'stabilizer': len(stab) if ok else None, 'order': rs.order(nq)})
            ent(ok and tuple(sorted(sub)) in orbit and all(rs.in_range(t, nq) for t in stab), 'consumer/pauli-subset/orbit-or-stabilizer-malformed',
                'the orbit does not contain the subset itself or a stabilizer entry is not a tuple of the mixed-radix range', {'num_qubit': nq, 'subset': list(sub)})


def _run_repo_tests(ctx, files):
    """the repository's own test file(s), in this process, with the contracts attached (their verdict is not ours)."""
    from vmon import core
    root = os.path.dirname(core.numqi_src())
    if not os.path.isdir(os.path.join(root, 'tests')):
        root = '/repo'
    paths = [os.path.join(root, f) for f in files]
    paths = [p for p in paths if os.path.exists(p)]
    if not paths:
        ctx.inconclusive('repo test files not found')
        return
    import sys
    import pytest
    sys.dont_write_bytecode = True  # nothing may be written under the repository
    cwd = os.getcwd()
    try:
        os.chdir(root)
        rc = pytest.main(['-q', '-x', '-p', 'no:cacheprovider', '--no-header', '-o', 'addopts='] + paths)
    finally:
        os.chdir(cwd)
    ctx.extra['repo_tests'] = {'files': files, 'pytest_exit': int(rc)}
    ctx.case('repo-tests', files)
