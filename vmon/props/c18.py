"""C18 - catalogue constructors return the objects they name.

Monitors: a postcondition on every public constructor of numqi.state (kets: 1-D, documented length, unit norm, equal to the
textbook definition of vmon/ref/catalogue.py; matrices: documented shape, Hermitian, trace one, PSD, equal to the definition;
`return_dm=True` == projector of the ket returned without it; documented SEP/PPT ranges), on the closed forms
get_{Werner,Isotropic}_{ree,GME,eof}, get_qubit_dicke_state_GME, get_Wtype_state_GME (finite, |v|<=1e-12 on the separable
range, equal to an independent evaluation elsewhere and, for d=2, to the generic two-qubit routines), on
numqi.entangle.load_upb / upb_to_bes / get_upb_product / upb.fourier_matrix / upb.hf_is_prime (documented size, unit factors,
product vectors, pairwise orthogonal, complementary projector == reference, trace one, PSD, rank D-|UPB|, PPT across every
bipartition), on numqi.utils.get_tetrahedron_POVM (PSD elements, sum to identity, SIC overlaps, tensor structure) and on
numqi.unique_determine.get_chebshev_orthonormal (each basis unitary, projectors of the rows, resolve the identity, equal
to the cos(n t) definition).
Workloads: every constructor with every admissible size argument up to D<=64 (more in thorough), 41-point parameter grids
including both end points and the thresholds +-1e-9, python/numpy scalar types, batched closed forms, every UPB kind with
several size arguments, library drivers (is_ppt, get_ppt_boundary, the repository's fast tests in thorough).
Shard `regimes` (lesson 3): parameters that are tiny / within 1e-6..1e-12 of a special value (0, separability threshold, end points) /
far outside one period, rescaled Wtype coefficients (1e-100..1e100), product arrays with rounding noise, the largest sizes and
"square coincidence" sizes, dimension-one parties, batched closed forms with ONE degenerate item, load_upb(ignore_warning=...) and
mixed-case kinds, get_element_probing_POVM('eq9') (four orthonormal bases), independence of the factor arrays of one load.
"""
import contextlib
import copy
import importlib.util
import math
import os

import numpy as np

from vmon.ref import catalogue as rc

RULE = ('one case = one monitored constructor call identified by (constructor name, arguments): size arguments are enumerated '
        'completely within the stated bounds, real parameters run over 41-point grids with both end points, the documented '
        'thresholds and thresholds +-1e-9 (plus random interior points in thorough); a case is non-trivial when the object '
        'returned lives in dimension >= 2 (Dicke(0,0), maximally_coherent_state(1), maximally_mixed_state(1) are trivial); '
        'distinct by digest of (name, arguments)')
EXHAUSTIVE = {'quick': True, 'thorough': True}
EXHAUSTIVE_DOMAINS = {
    'quick': ['GHZ/W n=1..6, Bell 0..3, maximally_entangled d=2..8, maximally_mixed d=1..8, maximally_coherent d=1..64 (both return_dm)',
              'Dicke: every occupation tuple with 2<=dim<=8, dim^n<=64 (incl. the empty tuple per dim)',
              'Werner/Isotropic and their 3 closed forms: d=2..8 x 41-point grid + thresholds +-1e-9',
              'get_qubit_dicke_state_GME: all 0<=k<=n<=12',
              'UPB kinds: tiles pyramid feng4x4 min4x4 feng2x2x2x2, quadres 3,7, genshifts 3,5, gentiles1 4,6,8, gentiles2 (3,4),(3,5),(4,4),(4,5), x 4 flag combinations',
              'tetrahedron POVM 1..3 qubits; Chebyshev bases d=2..12 x 41 phases x 2 flags',
              'regimes shard: gentiles2 (3,6),(4,6),(5,5),(4,7), quadres 9, get_element_probing_POVM(eq9) every even dim 4..16, get_qubit_dicke_state_GME all k for n=40,60, '
              'load_upb option spellings (ignore_warning, positional flags, mixed-case kind) x 14 kind/size configurations'],
    'thorough': ['GHZ/W n=1..10, Bell 0..3, maximally_entangled d=2..16, maximally_mixed d=1..12, maximally_coherent d=1..128',
                 'Dicke: every occupation tuple with 2<=dim<=8, dim^n<=256',
                 'Werner/Isotropic and closed forms: d=2..10 x 201-point grid + thresholds +-1e-9,1e-8,1e-7,1e-6 + 100 random',
                 'get_qubit_dicke_state_GME: all 0<=k<=n<=30',
                 'UPB kinds as quick + quadres 9,15,19, genshifts 7,9, gentiles1 10,12, gentiles2 all 3<=m<=n<=7 (n>=4), 200 random sixparam',
                 'tetrahedron POVM 1..4 qubits; Chebyshev bases d=2..32 x 41 phases x 2 flags',
                 'regimes shard as quick + get_element_probing_POVM(eq9) every even dim 4..32, Werner/Isotropic near-special parameters for d=2..10'],
}
ASSUMPTIONS = [
    'conventions are those of the numqi docstrings: Werner(d,a)=(I-a*SWAP)/(d^2-d*a), a in [-1,1], SEP a<=1/d; '
    'Isotropic(d,a)=(1-a)I/d^2+a|Phi+><Phi+|, a in [-1/(d^2-1),1], SEP a<=1/(d+1); entropies in nats',
    'maximally_mixed_state(d) is documented to have shape (d^2,d^2) (two qudits)',
    'Bell(i) in the usual order Phi+,Phi-,Psi+,Psi-; Wtype coefficient order and the orientation of q in '
    'get_2qutrit_Antoine2022 are not fixed by the docstrings: either natural convention is accepted',
    'UPB sizes are those of the cited papers / the QETLAB UPB page; unextendibility is only spot-checked (inconclusive-only)',
    'size arguments documented as `int` are driven as python ints and signed numpy integers of >= 32 bits; unsigned and 8/16-bit numpy integers are outside the domain '
    '(numpy wraps them and promotes them to float16: get_Werner_GME(np.uint32(2), 0.75) == 0.0 because 1-d*d wraps, get_chebshev_orthonormal(np.uint8(4), ..) is float16-accurate)',
    'closest separable states used for the REE comparisons: Werner(d,1/d) and Isotropic(d,1/(d+1)) (known analytically)',
]
TECHNIQUE = ('runtime monitoring: postconditions on every catalogue constructor, compared with textbook definitions written '
             'independently in vmon/ref/catalogue.py, driven over all size arguments and 41-point parameter grids')
DECIDING = [
    'state.W', 'state.Wtype', 'state.GHZ', 'state.Bell', 'state.Dicke', 'state.Werner', 'state.Isotropic',
    'state.maximally_entangled_state', 'state.maximally_mixed_state', 'state.maximally_coherent_state',
    'state.get_2qutrit_Antoine2022', 'state.get_bes2x4_Horodecki1997', 'state.get_bes3x3_Horodecki1997',
    'state.get_Werner_ree', 'state.get_Werner_GME', 'state.get_Werner_eof',
    'state.get_Isotropic_ree', 'state.get_Isotropic_GME', 'state.get_Isotropic_eof',
    'state.get_qubit_dicke_state_GME', 'state.get_Wtype_state_GME',
    'entangle.load_upb', 'entangle.upb_to_bes', 'entangle.get_upb_product', 'entangle.upb.fourier_matrix',
    'utils.get_tetrahedron_POVM', 'unique_determine.get_chebshev_orthonormal',
    'maximally_coherent_state/return_dm',
    'unique_determine.get_element_probing_POVM', 'regime/numerical', 'regime/size-shape', 'regime/batch-with-degenerate-item',
    'option/ignore_warning', 'lifecycle/factors-independent',
    'argument-mutation', 'history/repeated-call', 'history/forward-reverse', 'history/upb-order', 'history/work-buffer', 'input-kinds',
]

TOL = 1e-12       # values of catalogue objects (closed-form amplitudes: a few ulp)
PSD_TOL = 1e-10   # eigenvalues >= -1e-10 (DESIGN C18)
ZERO_TOL = 1e-12  # "vanishes exactly" (DESIGN section 3)
EPS = np.finfo(np.float64).eps
MAX_REF_DIM = 1100   # references / eigen-decompositions only below this dimension (cheap enough for every call)

STATE_COVERED = ['W', 'Wtype', 'GHZ', 'Bell', 'Dicke', 'Werner', 'Isotropic', 'maximally_entangled_state', 'maximally_mixed_state',
                 'maximally_coherent_state', 'get_2qutrit_Antoine2022', 'get_bes2x4_Horodecki1997', 'get_bes3x3_Horodecki1997',
                 'get_Werner_ree', 'get_Werner_GME', 'get_Werner_eof', 'get_Isotropic_ree', 'get_Isotropic_GME', 'get_Isotropic_eof',
                 'get_qubit_dicke_state_GME', 'get_Wtype_state_GME']
NOT_COVERED = {
    'numqi.entangle.load_upb(kind="john2^8")': 'listed in the docstring but the branch is `assert False, "not implemented"`',
    'numqi.entangle.load_upb(kind="sixparam") with gamma/theta a multiple of pi/2': 'documented "[WARNING] NOT a upb" case, excluded from the claim',
    'numqi.entangle.upb.LocalUnitaryEquivalentModel / BESNumEigenModel / BESNumEigen3qubitModel': 'optimisation models, not catalogue constructors',
    'numqi.dicke.get_dicke_basis / get_dicke_klist / partial-trace helpers': 'monitored by C17',
    'numqi.unique_determine.get_element_probing_POVM(kind="eq8") / get_qutrit_projector_basis / load_pauli_ud_example':
        'lists of observables (first element identity / Pauli strings), not POVMs or orthonormal bases; outside the statement '
        '(get_element_probing_POVM(kind="eq9") IS four orthonormal bases and is monitored)',
    'REE closed forms vs a generic REE routine (get_ppt_ree, AutodiffCHAREE) for d>2': 'SDP / optimiser accuracy 1e-5..1e-4 only; '
        'compared instead with the relative entropy to the analytically known closest separable state',
    'unextendibility of the UPBs': 'no finite certificate; spot-checked by alternating minimisation, inconclusive-only',
}


def shards(tier, seed):
    ret = [{'name': 'kets'}, {'name': 'werner'}, {'name': 'isotropic'}, {'name': 'families'}, {'name': 'upb-fixed'},
           {'name': 'upb-sized'}, {'name': 'povm-bases'}, {'name': 'realistic'}, {'name': 'histories'}, {'name': 'input-kinds'}, {'name': 'regimes'}]
    if tier == 'thorough':
        ret += [{'name': 'upb-large'}, {'name': 'sixparam'}, {'name': 'generic-gme', 'budget_s': 200}, {'name': 'generic-eof', 'budget_s': 200},
                {'name': 'repo-tests', 'budget_s': 200},
                {'name': 'werner-hi'}, {'name': 'isotropic-hi'}, {'name': 'cheb-hi'}]
    return ret


def snap(o, _depth=0):
    """copy of an argument / result (arrays and nested lists of arrays copied, everything else by reference)."""
    if isinstance(o, np.ndarray):
        return np.array(o, copy=True, order='K')
    if isinstance(o, (list, tuple)) and _depth < 4 and len(o) <= 256:
        return type(o)(snap(t, _depth + 1) for t in o)
    return o


def same(a, b, tol=0.0, _depth=0):
    """equal values (arrays: same shape, kind of dtype and entries; NaN == NaN)."""
    if isinstance(a, np.ndarray) or isinstance(b, np.ndarray):
        if not (isinstance(a, np.ndarray) and isinstance(b, np.ndarray)) or a.shape != b.shape or a.dtype != b.dtype:
            return False
        if a.dtype.kind in 'fc' and tol > 0:
            with np.errstate(all='ignore'):
                return bool(np.all((np.abs(a - b) <= tol) | (np.isnan(a) & np.isnan(b))))
        return bool(np.array_equal(a, b, equal_nan=a.dtype.kind in 'fc'))
    if isinstance(a, (list, tuple)) and isinstance(b, (list, tuple)) and _depth < 4:
        return len(a) == len(b) and all(same(x, y, tol, _depth + 1) for x, y in zip(a, b))
    try:
        if isinstance(a, (float, np.floating)) and isinstance(b, (float, np.floating)):
            return bool(a == b or (a != a and b != b) or abs(a - b) <= tol)
        return bool(a == b)
    except Exception:
        return a is b


def arrays_of(o, _depth=0):
    if isinstance(o, np.ndarray):
        return [o]
    if isinstance(o, (list, tuple)) and _depth < 4:
        return [x for t in o for x in arrays_of(t, _depth + 1)]
    return []


def scribble(o):
    """overwrite every writable array reachable from o in place (what a caller may legitimately do with its own result)."""
    n = 0
    for a in arrays_of(o):
        if a.flags.writeable and a.size:
            a[...] = 7.5 if a.dtype.kind in 'fc' else 7
            n += 1
    return n


def _isint(x):
    return isinstance(x, (int, np.integer)) and not isinstance(x, bool)


def _scalar(x):
    """python float of a scalar-like result, or None."""
    try:
        a = np.asarray(x)
        if a.size != 1:
            return None
        return float(a.reshape(-1)[0].real)
    except Exception:
        return None


class Mon:
    """all postconditions; `ctx.extra` collects the worst errors seen."""

    def __init__(self, ctx, numqi):
        self.ctx = ctx
        self.numqi = numqi
        self.worst = {}
        self.conv = {}
        ctx.extra['worst_error'] = self.worst
        ctx.extra['conventions_observed'] = self.conv
        self._lowprec = False

    # ---------------------------------------------------------------- helpers
    def w(self, key, val):
        if self._lowprec:  # float32 parameters: judged with the float32 tolerance, kept out of the float64 worst-error table
            return
        val = float(val)
        if not (val <= self.worst.get(key, -1.0)):
            self.worst[key] = val

    @staticmethod
    def ptol(x):
        """tolerance follows the precision of the *input* (DESIGN section 3): float32/float16 parameters give float32 results."""
        t = getattr(x, 'dtype', None)
        if t is not None and t.kind in 'fc' and np.finfo(t).eps > 1e-10:
            return 100 * float(np.finfo(t).eps)
        return TOL

    def ket(self, name, x, length, ref=None, wit=None, tol=TOL):
        ctx = self.ctx
        x = np.asarray(x)
        self._lowprec = tol > TOL
        if not ctx.check(x.ndim == 1 and x.shape == (length,), f'{name}/shape', f'{name}: result must be a 1-D ket of the documented length',
                         {'args': wit, 'shape': list(x.shape), 'expected': [length]}):
            return False
        if not ctx.check(np.all(np.isfinite(x)), f'{name}/not-finite', f'{name}: non-finite amplitude', {'args': wit}):
            return False
        nrm = float(np.linalg.norm(x))
        self.w(f'{name}/norm', abs(nrm - 1))
        ctx.check(abs(nrm - 1) <= tol, f'{name}/norm', f'{name}: the ket is not normalised', {'args': wit, 'norm': nrm})
        if ref is not None:
            self.w(f'{name}/definition', np.abs(x - ref).max())
            ctx.close(x, ref, tol, f'{name}/definition', f'{name}: differs from the textbook definition', {'args': wit})
        return True

    def dm(self, name, m, D, ref=None, wit=None, tol=TOL):
        ctx = self.ctx
        m = np.asarray(m)
        self._lowprec = tol > TOL
        if not ctx.check(m.ndim == 2 and m.shape == (D, D), f'{name}/shape', f'{name}: result must be a matrix of the documented shape',
                         {'args': wit, 'shape': list(m.shape), 'expected': [D, D]}):
            return False
        if not ctx.check(np.all(np.isfinite(m)), f'{name}/not-finite', f'{name}: non-finite entry', {'args': wit}):
            return False
        he = rc.hermitian_error(m)
        tr = complex(np.trace(m))
        self.w(f'{name}/hermitian', he)
        self.w(f'{name}/trace', abs(tr - 1))
        ctx.check(he <= tol, f'{name}/hermitian', f'{name}: not Hermitian', {'args': wit, 'err': he})
        ctx.check(abs(tr - 1) <= tol, f'{name}/trace', f'{name}: trace is not one', {'args': wit, 'trace': [tr.real, tr.imag]})
        if D <= MAX_REF_DIM:
            lo = rc.min_eig(m)
            self.w(f'{name}/min-eig-below-zero', max(0.0, -lo))
            ctx.check(lo >= -max(PSD_TOL, tol), f'{name}/psd', f'{name}: not positive semidefinite', {'args': wit, 'min_eig': lo})
        else:
            ctx.inconclusive('psd-skipped-large-dimension')
        if ref is not None:
            self.w(f'{name}/definition', np.abs(m - ref).max())
            ctx.close(m, ref, tol, f'{name}/definition', f'{name}: differs from the textbook definition', {'args': wit})
        return True

    def ppt_min(self, m, dims):
        return min(rc.min_eig(rc.partial_transpose(m, dims, s)) for s in rc.bipartitions(len(dims)))

    # ---------------------------------------------------------------- kets of numqi.state
    def post_W(self, c):
        if c.exc is not None:
            return
        n = c.arg(0, 'n')
        if _isint(n) and 1 <= n <= 16:
            self.ket('W', c.result, 2**int(n), rc.w_state(int(n)) if n <= 12 else None, {'n': int(n)})

    def post_GHZ(self, c):
        if c.exc is not None:
            return
        n = c.arg(0, 'n', 2)
        if _isint(n) and 1 <= n <= 16:
            self.ket('GHZ', c.result, 2**int(n), rc.ghz(int(n)) if n <= 12 else None, {'n': int(n)})

    def post_Bell(self, c):
        if c.exc is not None:
            return
        i = int(c.arg(0, 'i', 0))
        if self.ket('Bell', c.result, 4, rc.BELL[i], {'i': i}):
            x = np.asarray(c.result).reshape(2, 2)
            red = x @ x.conj().T
            self.ctx.check(np.abs(red - np.eye(2) / 2).max() <= TOL, 'Bell/not-maximally-entangled', 'Bell(i): reduced state is not I/2', {'i': i})

    def post_Wtype(self, c):
        if c.exc is not None:
            return
        coeff = np.asarray(c.arg(0, 'coeff'))
        if coeff.ndim != 1 or coeff.shape[0] < 1 or coeff.shape[0] > 16 or not np.all(np.isfinite(coeff)) or np.linalg.norm(coeff) < 1e-150:
            return
        n = coeff.shape[0]
        wit = {'coeff': coeff}
        tol = self.ptol(coeff)
        if not self.ket('Wtype', c.result, 2**n, None, wit, tol=tol):
            return
        x = np.asarray(c.result)
        wt1 = np.zeros(2**n, dtype=bool)
        wt1[[2**j for j in range(n)]] = True
        self.ctx.check(np.abs(x[~wt1]).max() == 0 if (~wt1).any() else True, 'Wtype/support',
                       'Wtype: amplitude outside the weight-one basis states', wit)
        e_le = np.abs(x - rc.wtype(coeff, True)).max()
        e_be = np.abs(x - rc.wtype(coeff, False)).max()
        self.w('Wtype/definition', min(e_le, e_be))
        self.ctx.check(min(e_le, e_be) <= tol, 'Wtype/definition', 'Wtype: amplitudes are not the normalised coefficients (in either qubit order)',
                       {'coeff': coeff, 'got': x, 'err_little_endian': e_le, 'err_big_endian': e_be})
        if abs(e_le - e_be) > 1e-6:
            o = 'coeff[j] on basis index 2^j' if e_le < e_be else 'coeff[j] on basis index 2^(n-1-j)'
            prev = self.conv.setdefault('Wtype', o)
            self.ctx.check(prev == o, 'Wtype/order-not-consistent', 'Wtype: coefficient order changes between calls', {'now': o, 'before': prev})

    def post_Dicke(self, c):
        if c.exc is not None:
            return
        try:
            klist = tuple(int(k) for k in c.args)
        except Exception:
            return
        if c.kwargs or len(klist) < 2 or any(k < 0 for k in klist):
            return
        dim, n = len(klist), sum(klist)
        D = dim**n
        if D > 2**16:
            return
        ref = rc.dicke(klist) if D <= 4096 else None
        if self.ket('Dicke', c.result, D, ref, {'klist': list(klist)}) and ref is None:
            self.ctx.inconclusive('Dicke/definition-skipped-large')

    def post_max_entangled(self, c):
        if c.exc is not None:
            return
        d = c.arg(0, 'd')
        if _isint(d) and 2 <= d <= 64:
            d = int(d)
            if self.ket('maximally_entangled_state', c.result, d * d, rc.max_entangled(d), {'d': d}):
                x = np.asarray(c.result).reshape(d, d)
                self.ctx.check(np.abs(x @ x.conj().T - np.eye(d) / d).max() <= TOL, 'maximally_entangled_state/reduced-not-mixed',
                               'maximally_entangled_state: reduced state is not I/d', {'d': d})

    def post_max_mixed(self, c):
        if c.exc is not None:
            return
        d = c.arg(0, 'd')
        if _isint(d) and 1 <= d <= 32:
            d = int(d)
            self.dm('maximally_mixed_state', c.result, d * d, rc.max_mixed(d), {'d': d})

    def post_max_coherent(self, c):
        if c.exc is not None:
            return
        d = c.arg(0, 'd')
        rdm = bool(c.arg(1, 'return_dm', False))
        if not (_isint(d) and 1 <= d <= 1024):
            return
        d = int(d)
        name = 'maximally_coherent_state'
        if not rdm:
            self.ket(name, c.result, d, rc.max_coherent(d), {'d': d})
            return
        self.ctx.hit('maximally_coherent_state/return_dm')
        ok = self.dm(name, c.result, d, rc.projector(rc.max_coherent(d)), {'d': d, 'return_dm': True})
        ket = np.asarray(self.ctx.orig(c.func)(d))  # the ket returned without the option (quiet re-invocation)
        if ok and ket.shape == (d,):
            self.ctx.close(np.asarray(c.result), rc.projector(ket), 1e-14, f'return_dm/not-projector-of-ket/{name}',
                           f'{name}(d, return_dm=True) is not the projector of the ket returned without the option', {'d': d})
            m = np.asarray(c.result)
            self.ctx.check(np.abs(m @ m - m).max() <= TOL, f'return_dm/not-idempotent/{name}', f'{name}(return_dm=True) is not a rank-one projector', {'d': d})

    # ---------------------------------------------------------------- parametrised density matrices
    def post_Werner(self, c):
        if c.exc is not None:
            return
        d, a = c.arg(0, 'd'), _scalar(c.arg(1, 'alpha'))
        if not (_isint(d) and 2 <= d <= 32) or a is None or not (-1 <= a <= 1):
            return
        d = int(d)
        wit = {'d': d, 'alpha': a}
        if not self.dm('Werner', c.result, d * d, rc.werner(d, a), wit, tol=self.ptol(c.arg(1, 'alpha'))):
            return
        pt = rc.min_eig(rc.partial_transpose(np.asarray(c.result), (d, d), (1,)))
        if a <= 1 / d:
            self.ctx.check(pt >= -PSD_TOL, 'Werner/sep-range-not-ppt', 'Werner: not PPT inside the documented separable range alpha<=1/d', {**wit, 'min_eig_pt': pt})
        elif a >= 1 / d + 1e-6:
            self.ctx.check(pt < 0, 'Werner/ent-range-ppt', 'Werner: PPT outside the documented separable range', {**wit, 'min_eig_pt': pt})

    def post_Isotropic(self, c):
        if c.exc is not None:
            return
        d, a = c.arg(0, 'd'), _scalar(c.arg(1, 'alpha'))
        if not (_isint(d) and 2 <= d <= 32) or a is None or not (-1 / (d**2 - 1) <= a <= 1):
            return
        d = int(d)
        wit = {'d': d, 'alpha': a}
        if not self.dm('Isotropic', c.result, d * d, rc.isotropic(d, a), wit, tol=self.ptol(c.arg(1, 'alpha'))):
            return
        pt = rc.min_eig(rc.partial_transpose(np.asarray(c.result), (d, d), (1,)))
        if a <= 1 / (d + 1):
            self.ctx.check(pt >= -PSD_TOL, 'Isotropic/sep-range-not-ppt', 'Isotropic: not PPT inside the documented separable range alpha<=1/(d+1)',
                           {**wit, 'min_eig_pt': pt})
        elif a >= 1 / (d + 1) + 1e-6:
            self.ctx.check(pt < 0, 'Isotropic/ent-range-ppt', 'Isotropic: PPT outside the documented separable range', {**wit, 'min_eig_pt': pt})

    def post_Antoine(self, c):
        if c.exc is not None:
            return
        q = _scalar(c.arg(0, 'q'))
        if q is None or not (-2.5 <= q <= 2.5):
            return
        wit = {'q': q}
        name = 'get_2qutrit_Antoine2022'
        if not self.dm(name, c.result, 9, None, wit):
            return
        m = np.asarray(c.result)
        e_p = np.abs(m - rc.antoine2022(q, +1)).max()
        e_m = np.abs(m - rc.antoine2022(q, -1)).max()
        self.w(f'{name}/definition', min(e_p, e_m))
        self.ctx.check(min(e_p, e_m) <= TOL, f'{name}/definition', f'{name}: is not 2/7 Phi3 + (2.5+-q)/7 sigma+ + (2.5-+q)/7 sigma-',
                       {**wit, 'err_plus': e_p, 'err_minus': e_m})
        if abs(e_p - e_m) > 1e-6:
            o = '2.5+q on |i,i+1>' if e_p < e_m else '2.5+q on |i,i-1>'
            prev = self.conv.setdefault(name, o)
            self.ctx.check(prev == o, f'{name}/orientation-not-consistent', f'{name}: orientation of q changes between calls', {'now': o, 'before': prev})
        pt = rc.min_eig(rc.partial_transpose(m, (3, 3), (1,)))
        if abs(q) <= 1.5:
            self.ctx.check(pt >= -PSD_TOL, f'{name}/ppt-range-not-ppt', f'{name}: not PPT for |q|<=1.5 (documented PPT range)', {**wit, 'min_eig_pt': pt})
        elif abs(q) >= 1.5 + 1e-6:
            self.ctx.check(pt < 0, f'{name}/npt-range-ppt', f'{name}: PPT for |q|>1.5 (documented NPT range)', {**wit, 'min_eig_pt': pt})

    def _horodecki(self, c, name, pname, D, dims, ref):
        if c.exc is not None:
            return
        p = _scalar(c.arg(0, pname))
        if p is None or not (0 <= p <= 1):
            return
        wit = {pname: p}
        if not self.dm(name, c.result, D, ref(p), wit, tol=self.ptol(c.arg(0, pname))):
            return
        pt = rc.min_eig(rc.partial_transpose(np.asarray(c.result), dims, (1,)))
        self.w(f'{name}/min-eig-pt-below-zero', max(0.0, -pt))
        self.ctx.check(pt >= -max(PSD_TOL, self.ptol(c.arg(0, pname))), f'{name}/not-ppt', f'{name}: not PPT inside the documented range [0,1]', {**wit, 'min_eig_pt': pt})

    def post_bes2x4(self, c):
        self._horodecki(c, 'get_bes2x4_Horodecki1997', 'b', 8, (2, 4), rc.horodecki_2x4)

    def post_bes3x3(self, c):
        self._horodecki(c, 'get_bes3x3_Horodecki1997', 'a', 9, (3, 3), rc.horodecki_3x3)

    # ---------------------------------------------------------------- closed forms
    def _closed(self, c, name, family, vectorised):
        """common part: returns list of (alpha, value) pairs with finite values, or None."""
        if c.exc is not None:
            return None
        d = c.args[0] if c.args else c.kwargs.get('d', c.kwargs.get('dim'))  # first parameter is named d or dim
        alpha = c.arg(1, 'alpha')
        if not (_isint(d) and 2 <= d <= 32):
            return None
        d = int(d)
        al = np.asarray(alpha)
        if al.dtype.kind not in 'iuf':
            return None
        if al.dtype.kind == 'f' and np.finfo(al.dtype).eps > 1e-10:
            self.ctx.inconclusive('closed-form/low-precision-parameter')
            return None
        res = np.asarray(c.result)
        ctx = self.ctx
        if not ctx.check(res.shape == al.shape, f'{name}/shape', f'{name}: result shape differs from the shape of alpha',
                         {'d': d, 'alpha_shape': list(al.shape), 'result_shape': list(res.shape)}):
            return None
        lo = -1.0 if family == 'Werner' else -1 / (d**2 - 1)
        out = []
        for a, v in zip(al.reshape(-1).tolist(), res.reshape(-1).tolist()):
            a = float(a)
            if not (lo <= a <= 1):
                continue
            v = complex(v)
            wit = {'d': d, 'alpha': a, 'value': [v.real, v.imag]}
            if not ctx.check(math.isfinite(v.real) and v.imag == 0, f'{name}/not-finite', f'{name}: value is NaN/Inf', wit):
                continue
            thr = 1 / d if family == 'Werner' else 1 / (d + 1)
            if a <= thr:
                self.w(f'{name}/abs-on-separable-range', abs(v.real))
                ctx.check(abs(v.real) <= ZERO_TOL, f'{name}/nonzero-on-separable-range', f'{name}: does not vanish on the documented separable range', wit)
            else:
                ctx.check(v.real >= -ZERO_TOL, f'{name}/negative', f'{name}: negative entanglement value', wit)
            out.append((d, a, v.real, thr))
        return out

    def _cmp(self, name, sub, v, ref, tol, wit):
        err = abs(v - ref)
        self.w(f'{name}/{sub}', err)
        self.ctx.check(math.isfinite(ref) and err <= tol, f'{name}/{sub}', f'{name}: disagrees with {sub}', lambda: {**wit, 'reference': ref, 'err': err, 'tol': tol})

    def _two_qubit(self, name, family, kind, d, a, v):
        """d=2: the generic two-qubit routines (numqi's, quiet) and the reference Wootters concurrence."""
        if d != 2:
            return
        wit = {'d': d, 'alpha': a, 'value': v}
        ref_rho = rc.werner(2, a) if family == 'Werner' else rc.isotropic(2, a)
        C = rc.concurrence_2qubit(ref_rho)
        ref = rc.eof_from_concurrence(C) if kind == 'eof' else rc.gme_from_concurrence(C)
        # conditioning (DESIGN section 3): the concurrence comes from square roots of eigenvalues that may vanish, so it carries
        # an error up to ~sqrt(eps); dEOF/dC is bounded, dGME/dC = C/(2 sqrt(1-C^2)) blows up at C=1
        dC = 5e-8
        if kind == 'eof':
            tol = 1e-10 + 2 * dC
        else:
            tol = 1e-10 + dC * C / (2 * max(math.sqrt(max(0.0, 1 - C * C)), 1e-300))
            if tol > 1e-6:
                self.ctx.inconclusive('two-qubit-gme-comparison-ill-conditioned-near-C=1')
                return
        self._cmp(name, 'vs-reference-concurrence-2qubit', v, ref, tol, wit)
        E = self.numqi.entangle
        f = E.get_eof_2qubit if kind == 'eof' else E.get_gme_2qubit
        try:
            g = float(self.ctx.orig(f)(ref_rho))
        except Exception as e:  # defect of the generic routine, not of this property
            self.ctx.inconclusive(f'generic-2qubit-routine-raised/{type(e).__name__}')
            return
        if not math.isfinite(g):
            self.ctx.inconclusive('generic-2qubit-routine-not-finite')
            return
        self._cmp(name, f'vs-numqi-get_{kind}_2qubit', v, g, tol, wit)

    def post_Werner_eof(self, c):
        for d, a, v, thr in self._closed(c, 'get_Werner_eof', 'Werner', True) or []:
            if a > thr:
                self._cmp('get_Werner_eof', 'reference-closed-form', v, rc.werner_eof_ref(d, a), 1e-10, {'d': d, 'alpha': a, 'value': v})
            self._two_qubit('get_Werner_eof', 'Werner', 'eof', d, a, v)

    def post_Werner_GME(self, c):
        for d, a, v, thr in self._closed(c, 'get_Werner_GME', 'Werner', True) or []:
            if a > thr:
                f = rc.werner_f(d, a)
                tol = 1e-12 + 10 * EPS / max(math.sqrt(max(0.0, 1 - f * f)), math.sqrt(EPS))
                self._cmp('get_Werner_GME', 'reference-closed-form', v, rc.werner_gme_ref(d, a), tol, {'d': d, 'alpha': a, 'value': v})
            self._two_qubit('get_Werner_GME', 'Werner', 'gme', d, a, v)

    def _ree(self, name, d, a, v, rho, sigma, ref):
        wit = {'d': d, 'alpha': a, 'value': v}
        self._cmp(name, 'reference-closed-form', v, ref, 1e-9, wit)
        self._cmp(name, 'vs-reference-relative-entropy-to-closest-separable', v, rc.relative_entropy(rho, sigma), 1e-9, wit)
        try:
            g = float(self.ctx.orig(self.numqi.utils.get_relative_entropy)(rho, sigma))
        except Exception as e:
            self.ctx.inconclusive(f'get_relative_entropy-raised/{type(e).__name__}')
            return
        self._cmp(name, 'vs-numqi-get_relative_entropy', v, g, 1e-9, wit)

    def post_Werner_ree(self, c):
        for d, a, v, thr in self._closed(c, 'get_Werner_ree', 'Werner', False) or []:
            if a > thr:
                self._ree('get_Werner_ree', d, a, v, rc.werner(d, a), rc.werner(d, 1 / d), rc.werner_ree_ref(d, a))

    def post_Isotropic_eof(self, c):
        for d, a, v, thr in self._closed(c, 'get_Isotropic_eof', 'Isotropic', True) or []:
            if a > thr:
                self._cmp('get_Isotropic_eof', 'reference-closed-form', v, rc.isotropic_eof_ref(d, a), 1e-10, {'d': d, 'alpha': a, 'value': v})
            self._two_qubit('get_Isotropic_eof', 'Isotropic', 'eof', d, a, v)

    def post_Isotropic_GME(self, c):
        for d, a, v, thr in self._closed(c, 'get_Isotropic_GME', 'Isotropic', True) or []:
            if a > thr:
                F = rc.isotropic_F(d, a)
                tol = 1e-12 + 10 * EPS * d / max(math.sqrt(max(0.0, 1 - F)), math.sqrt(EPS))
                self._cmp('get_Isotropic_GME', 'reference-closed-form', v, rc.isotropic_gme_ref(d, a), tol, {'d': d, 'alpha': a, 'value': v})
            self._two_qubit('get_Isotropic_GME', 'Isotropic', 'gme', d, a, v)

    def post_Isotropic_ree(self, c):
        for d, a, v, thr in self._closed(c, 'get_Isotropic_ree', 'Isotropic', False) or []:
            if a > thr:
                self._ree('get_Isotropic_ree', d, a, v, rc.isotropic(d, a), rc.isotropic(d, 1 / (d + 1)), rc.isotropic_ree_ref(d, a))

    def post_dicke_GME(self, c):
        if c.exc is not None:
            return
        n, k = c.arg(0, 'n'), c.arg(1, 'k')
        if not (_isint(n) and _isint(k) and 1 <= n <= 60 and 0 <= k <= n):
            return
        n, k = int(n), int(k)
        name = 'get_qubit_dicke_state_GME'
        v = _scalar(c.result)
        wit = {'n': n, 'k': k, 'value': v}
        if not self.ctx.check(v is not None and math.isfinite(v), f'{name}/not-finite', f'{name}: not a finite scalar', wit):
            return
        self.ctx.check(-ZERO_TOL <= v <= 1, f'{name}/range', f'{name}: outside [0,1]', wit)
        if k in (0, n):
            self.ctx.check(abs(v) <= ZERO_TOL, f'{name}/nonzero-on-product-state', f'{name}: a product state (k=0 or k=n) must have GME 0', wit)
        self._cmp(name, 'reference-symmetric-maximisation', v, rc.qubit_dicke_gme_ref(n, k), 1e-9, wit)
        if n <= 5:
            ov = rc.max_product_overlap(rc.dicke((n - k, k)), (2,) * n, np.random.default_rng(1234 + 64 * n + k), restarts=4, iters=300)
            self.ctx.check(1 - v >= ov - 1e-8, f'{name}/product-state-with-larger-overlap', f'{name}: a product state with larger overlap than 1-GME exists',
                           {**wit, 'overlap_found': ov})
            self._cmp(name, 'reference-general-product-maximisation', v, 1 - ov, 1e-6, wit)

    def post_Wtype_GME(self, c):
        if c.exc is not None:
            return
        abc = [_scalar(c.arg(i, nm)) for i, nm in enumerate('abc')]
        if any(t is None for t in abc) or abs(sum(t * t for t in abc) - 1) >= 1e-10:
            return
        name = 'get_Wtype_state_GME'
        v = _scalar(c.result)
        wit = {'a': abc[0], 'b': abc[1], 'c': abc[2], 'value': v}
        if not self.ctx.check(v is not None and math.isfinite(v), f'{name}/not-finite', f'{name}: not a finite scalar', wit):
            return
        self.ctx.check(-ZERO_TOL <= v <= 1, f'{name}/range', f'{name}: outside [0,1]', wit)
        ref = rc.wtype_gme_ref(*abc)
        if max(abs(t) for t in abc) < 1 - 1e-9:  # second, independent search over all product states (lower bound of the overlap)
            psi = np.zeros(8)
            psi[4], psi[2], psi[1] = abc
            ov = rc.max_product_overlap(psi, (2, 2, 2), np.random.default_rng(4321), restarts=3, iters=200)
            self.ctx.check(1 - v >= ov - 1e-9, f'{name}/explicit-product-state-with-larger-overlap', f'{name}: an explicit product state has larger overlap than 1-GME', {**wit, 'overlap_found': ov})
        self.ctx.check(v <= ref + 1e-7, f'{name}/product-state-with-larger-overlap', f'{name}: a product state closer than claimed exists', {**wit, 'reference': ref})
        self._cmp(name, 'reference-product-maximisation', v, ref, 1e-7, wit)

    # ---------------------------------------------------------------- UPB
    @staticmethod
    def sixparam_degenerate(para):
        t = np.asarray(para, dtype=np.float64)[[0, 1, 3, 4]]
        return bool(np.any(np.abs(np.cos(t)) < 1e-10) or np.any(np.abs(np.sin(t)) < 1e-10))

    @staticmethod
    def product_defect(v, dims):
        """largest second singular value over all single-party cuts (0 for a product vector)."""
        t = np.asarray(v).reshape(dims)
        worst = 0.0
        for p in range(len(dims)):
            s = np.linalg.svd(np.moveaxis(t, p, 0).reshape(dims[p], -1), compute_uv=False)
            if len(s) > 1:
                worst = max(worst, float(s[1]))
        return worst

    def upb_structure(self, label, kind, V, dims, factors=None, bes=None, wit=None):
        """V: (N, D) member vectors. All structural clauses of the statement."""
        ctx = self.ctx
        N, D = V.shape
        if factors is not None:
            fn = max(float(np.abs(np.linalg.norm(np.asarray(f), axis=1) - 1).max()) for f in factors)
            self.w('upb/factor-norm', fn)
            ctx.check(fn <= TOL, f'upb/factor-not-unit/{kind}', f'{label}: a factor of a UPB member is not a unit vector', {**wit, 'err': fn})
        if D <= MAX_REF_DIM and N <= 400:
            pd = max(self.product_defect(v, dims) for v in V)
            self.w('upb/product-defect', pd)
            ctx.check(pd <= 1e-10, f'upb/not-product/{kind}', f'{label}: a member is not a product vector', {**wit, 'second_singular_value': pd})
        G = V.conj() @ V.T
        dn = float(np.abs(np.diag(G) - 1).max())
        og = float(np.abs(G - np.diag(np.diag(G))).max()) if N > 1 else 0.0
        self.w('upb/norm', dn)
        self.w('upb/orthogonality', og)
        ctx.check(dn <= TOL, f'upb/not-normalised/{kind}', f'{label}: a member is not a unit vector', {**wit, 'err': dn})
        ok = ctx.check(og <= TOL, f'upb/not-orthogonal/{kind}', f'{label}: members are not pairwise orthogonal',
                       lambda: {**wit, 'max_overlap': og, 'pair': [int(t) for t in np.unravel_index(np.argmax(np.abs(G - np.diag(np.diag(G)))), G.shape)]})
        if D > MAX_REF_DIM:
            ctx.inconclusive('upb/bes-checks-skipped-large-dimension')
            return
        ref = rc.bes_from_vectors(V)
        if bes is not None:
            bes = np.asarray(bes)
            if ctx.check(bes.shape == (D, D), f'upb/bes-shape/{kind}', f'{label}: BES has the wrong shape', {**wit, 'shape': list(bes.shape)}):
                self.w('upb/bes-definition', np.abs(bes - ref).max())
                ctx.close(bes, ref, TOL, f'upb/bes-definition/{kind}', f'{label}: BES is not (I - sum |v><v|)/trace', wit)
                tr = complex(np.trace(bes))
                ctx.check(abs(tr - 1) <= TOL, f'upb/bes-trace/{kind}', f'{label}: BES trace is not one', {**wit, 'trace': [tr.real, tr.imag]})
                ctx.check(rc.hermitian_error(bes) <= TOL, f'upb/bes-not-hermitian/{kind}', f'{label}: BES not Hermitian', wit)
        rho = bes if (bes is not None and bes.shape == (D, D) and np.all(np.isfinite(bes))) else ref
        ev = np.linalg.eigvalsh((rho + rho.conj().T) / 2)
        self.w('upb/bes-min-eig-below-zero', max(0.0, -float(ev[0])))
        ctx.check(ev[0] >= -PSD_TOL, f'upb/bes-not-psd/{kind}', f'{label}: complementary projector is not PSD', {**wit, 'min_eig': float(ev[0])})
        rank = int((ev > 1e-8).sum())
        ctx.check(rank == D - N, f'upb/bes-rank/{kind}', f'{label}: complementary projector does not have rank D-|UPB|', {**wit, 'rank': rank, 'D': D, 'N': N})
        if ok and len(dims) >= 2:
            if len(dims) <= 9:
                pm = self.ppt_min(rho, dims)
                self.w('upb/bes-min-eig-pt-below-zero', max(0.0, -pm))
                ctx.check(pm >= -PSD_TOL, f'upb/bes-not-ppt/{kind}', f'{label}: complementary projector is not PPT across some bipartition', {**wit, 'min_eig_pt': pm})
            else:
                ctx.inconclusive('upb/ppt-skipped-too-many-parties')

    def post_load_upb(self, c):
        if c.exc is not None:
            return
        kind = str(c.arg(0, 'kind')).lower()
        args = c.arg(1, 'args')
        rp, rb = bool(c.arg(2, 'return_product', False)), bool(c.arg(3, 'return_bes', False))
        ctx = self.ctx
        if kind == 'sixparam':
            if args is None:
                expected = (5, (3, 3))
            else:
                if self.sixparam_degenerate(args):
                    ctx.inconclusive('sixparam/documented-not-a-upb-parameters')
                    return
                expected = (5, (3, 3))
        else:
            try:
                expected = rc.upb_expected_size(kind, args)
            except Exception:
                return
        N, dims = expected
        D = int(np.prod(dims))
        wit = {'kind': kind, 'args': args, 'return_product': rp, 'return_bes': rb}
        res = c.result
        bes = None
        if rb:
            if not ctx.check(isinstance(res, tuple) and len(res) == 2, f'upb/return-structure/{kind}', 'load_upb(return_bes=True) must return (upb, bes)', wit):
                return
            res, bes = res
        label = f'load_upb({kind})'
        if rp:
            V = np.asarray(res)
            if not ctx.check(V.ndim == 2 and V.shape == (N, D), f'upb/size/{kind}', f'{label}: product array does not have the documented shape (N, D)',
                             {**wit, 'shape': list(V.shape), 'expected': [N, D]}):
                return
            factors = None
        else:
            ok = isinstance(res, (list, tuple)) and len(res) == len(dims) and all(np.asarray(f).shape == (N, d) for f, d in zip(res, dims))
            if not ctx.check(ok, f'upb/size/{kind}', f'{label}: factors do not have the documented shapes (N, dim_i)',
                             lambda: {**wit, 'shapes': [list(np.shape(f)) for f in res] if isinstance(res, (list, tuple)) else repr(type(res)), 'expected_N': N, 'dims': list(dims)}):
                return
            factors = [np.asarray(f) for f in res]
            V = rc.kron_rows(factors)
        if not ctx.check(np.all(np.isfinite(V)), f'upb/not-finite/{kind}', f'{label}: non-finite entries', wit):
            return
        self.upb_structure(label, kind, V.astype(np.complex128), dims, factors, bes, wit)
        if kind in ('tiles', 'pyramid'):
            tb = rc.tiles_upb() if kind == 'tiles' else rc.pyramid_upb()
            P = sum(rc.projector(v) for v in V)
            Pr = sum(rc.projector(v) for v in tb)
            self.ctx.close(P, Pr, TOL, f'upb/definition/{kind}', f'{label}: span differs from the UPB of Bennett et al. 1999', wit)

    def post_upb_to_bes(self, c):
        if c.exc is not None:
            return
        upb = c.arg(0, 'upb')
        ctx = self.ctx
        try:
            if isinstance(upb, np.ndarray):
                factors, V = None, upb
                dims = None
            else:
                factors = [np.asarray(f) for f in upb]
                V = rc.kron_rows(factors)
                dims = tuple(f.shape[1] for f in factors)
            if V.ndim != 2 or not np.all(np.isfinite(V)):
                return
        except Exception:
            return
        N, D = V.shape
        if D > MAX_REF_DIM:
            ctx.inconclusive('upb_to_bes/skipped-large-dimension')
            return
        tol = max([self.ptol(f) for f in (factors if factors is not None else [V])])
        self._lowprec = tol > TOL
        V = V.astype(np.complex128)
        wit = {'N': N, 'D': D, 'dims': list(dims) if dims else None, 'input': 'array' if factors is None else 'factors'}
        res = np.asarray(c.result)
        if not ctx.check(res.shape == (D, D), 'upb_to_bes/shape', 'upb_to_bes: result is not (D, D)', {**wit, 'shape': list(res.shape)}):
            return
        self.w('upb_to_bes/definition', np.abs(res - rc.bes_from_vectors(V)).max())
        ctx.close(res, rc.bes_from_vectors(V), tol, 'upb_to_bes/definition', 'upb_to_bes: result is not (I - sum |v><v|)/trace', wit)
        G = V.conj() @ V.T
        if np.abs(G - np.eye(N)).max() <= 1e-10 and tol == TOL:  # precondition of the structural clauses: an orthonormal set
            tr = complex(np.trace(res))
            ctx.check(abs(tr - 1) <= TOL, 'upb_to_bes/trace', 'upb_to_bes: trace is not one', {**wit, 'trace': [tr.real, tr.imag]})
            ev = np.linalg.eigvalsh((res + res.conj().T) / 2)
            ctx.check(ev[0] >= -PSD_TOL, 'upb_to_bes/not-psd', 'upb_to_bes: result is not PSD', {**wit, 'min_eig': float(ev[0])})
            ctx.check(int((ev > 1e-8).sum()) == D - N, 'upb_to_bes/rank', 'upb_to_bes: rank is not D-N', {**wit, 'rank': int((ev > 1e-8).sum())})
            if dims is not None and 2 <= len(dims) <= 9 and max(self.product_defect(v, dims) for v in V) <= 1e-10:
                pm = self.ppt_min(res, dims)
                ctx.check(pm >= -PSD_TOL, 'upb_to_bes/not-ppt', 'upb_to_bes: result is not PPT across some bipartition', {**wit, 'min_eig_pt': pm})

    def post_get_upb_product(self, c):
        if c.exc is not None:
            return
        try:
            factors = [np.asarray(f) for f in c.arg(0, 'upb')]
            if not all(f.ndim == 2 and f.shape[0] == factors[0].shape[0] for f in factors):
                return
            D = int(np.prod([f.shape[1] for f in factors]))
        except Exception:
            return
        if D * factors[0].shape[0] > 4e6:
            self.ctx.inconclusive('get_upb_product/skipped-large')
            return
        tol = max(1e-14, max(self.ptol(f) for f in factors) if max(self.ptol(f) for f in factors) > TOL else 0.0)
        self._lowprec = tol > TOL
        ref = rc.kron_rows(factors)
        self.w('get_upb_product/definition', np.abs(np.asarray(c.result) - ref).max() if np.shape(c.result) == ref.shape else np.inf)
        self.ctx.close(c.result, ref, tol, 'get_upb_product/definition', 'get_upb_product: row k is not the Kronecker product of the k-th factors',
                       {'shapes': [list(f.shape) for f in factors]})

    def post_fourier(self, c):
        if c.exc is not None:
            return
        dim = c.arg(0, 'dim')
        if not (_isint(dim) and 1 <= dim <= 256):
            return
        dim = int(dim)
        F = np.asarray(c.result)
        wit = {'dim': dim}
        if not self.ctx.check(F.shape == (dim, dim), 'fourier_matrix/shape', 'fourier_matrix: wrong shape', wit):
            return
        tol = 1e-13 * dim  # w**(j*k) by repeated powers: error grows with the exponent
        self.w('fourier_matrix/definition', np.abs(F - rc.fourier(dim)).max())
        self.ctx.close(F, rc.fourier(dim), tol, 'fourier_matrix/definition', 'fourier_matrix: not exp(2 pi i jk/d)/sqrt(d)', wit)
        self.ctx.check(np.abs(F @ F.conj().T - np.eye(dim)).max() <= tol * dim, 'fourier_matrix/not-unitary', 'fourier_matrix: not unitary', wit)

    def post_is_prime(self, c):
        if c.exc is not None:
            return
        n = c.arg(0, 'n')
        if _isint(n) and -10 <= n <= 10**6:
            self.ctx.check(bool(c.result) == rc.is_prime(int(n)), 'hf_is_prime/value', 'upb.hf_is_prime: wrong primality answer', {'n': int(n), 'got': bool(c.result)})

    # ---------------------------------------------------------------- POVM / bases
    def post_tetrahedron(self, c):
        if c.exc is not None:
            return
        nq = c.arg(0, 'num_qubit', 1)
        if not (_isint(nq) and 1 <= nq <= 5):
            return
        nq = int(nq)
        ctx = self.ctx
        name = 'get_tetrahedron_POVM'
        P = np.asarray(c.result)
        wit = {'num_qubit': nq}
        if not ctx.check(P.shape == (4**nq, 2**nq, 2**nq), f'{name}/shape', f'{name}: shape is not (4^n, 2^n, 2^n)', {**wit, 'shape': list(P.shape)}):
            return
        if not ctx.check(np.all(np.isfinite(P)), f'{name}/not-finite', f'{name}: non-finite entries', wit):
            return
        m = 2**nq
        he = float(np.abs(P - P.conj().transpose(0, 2, 1)).max())
        ctx.check(he <= TOL, f'{name}/element-not-hermitian', f'{name}: an element is not Hermitian', {**wit, 'err': he})
        lo = float(np.linalg.eigvalsh((P + P.conj().transpose(0, 2, 1)) / 2)[:, 0].min())
        self.w(f'{name}/min-eig-below-zero', max(0.0, -lo))
        ctx.check(lo >= -PSD_TOL, f'{name}/element-not-psd', f'{name}: an element is not PSD', {**wit, 'min_eig': lo})
        se = float(np.abs(P.sum(0) - np.eye(m)).max())
        self.w(f'{name}/sum-to-identity', se)
        ctx.check(se <= 1e-12 * m, f'{name}/not-resolving-identity', f'{name}: elements do not sum to the identity', {**wit, 'err': se})
        # SIC structure: tr(E_i E_j) = prod over qubits of (1/4 if equal digit else 1/12)
        gram = np.einsum('iab,jba->ij', P, P).real
        one = np.full((4, 4), 1 / 12) + np.eye(4) * (1 / 4 - 1 / 12)
        ref = np.array([[1.0]])
        for _ in range(nq):
            ref = np.kron(ref, one)
        ge = float(np.abs(gram - ref).max())
        self.w(f'{name}/sic-overlaps', ge)
        ctx.check(ge <= TOL, f'{name}/not-tetrahedron', f'{name}: Hilbert-Schmidt overlaps are not those of (tensor products of) a SIC tetrahedron', {**wit, 'err': ge})
        tr = np.einsum('iaa->i', P)
        ctx.check(np.abs(tr - 2.0**(-nq)).max() <= TOL, f'{name}/element-trace', f'{name}: elements do not have trace 2^-n', wit)
        if nq >= 2:  # relational: element (i1..in) is the Kronecker product of the one-qubit elements
            P1 = np.asarray(ctx.orig(c.func)(1))
            if P1.shape == (4, 2, 2):
                ref = P1
                for _ in range(nq - 1):
                    ref = np.einsum('iab,jcd->ijacbd', ref, P1).reshape(ref.shape[0] * 4, ref.shape[1] * 2, ref.shape[2] * 2)
                ctx.close(P, ref, TOL, f'{name}/not-tensor-product', f'{name}: n-qubit elements are not Kronecker products of the one-qubit elements', wit)

    def post_chebyshev(self, c):
        if c.exc is not None:
            return
        d = c.arg(0, 'dim_qudit')
        alpha = _scalar(c.arg(1, 'alpha'))
        wcb, rb = bool(c.arg(2, 'with_computational_basis', False)), bool(c.arg(3, 'return_basis', False))
        if not (_isint(d) and 2 <= d <= 64) or alpha is None or not math.isfinite(alpha):
            return
        d = int(d)
        ctx = self.ctx
        name = 'get_chebshev_orthonormal'
        wit = {'dim_qudit': d, 'alpha': alpha, 'with_computational_basis': wcb, 'return_basis': rb}
        res = c.result
        basis = None
        if rb:
            if not ctx.check(isinstance(res, tuple) and len(res) == 2, f'{name}/return-structure', f'{name}(return_basis=True) must return (projectors, bases)', wit):
                return
            res, basis = res
        nb = 5 if wcb else 4
        P = np.asarray(res)
        if not ctx.check(P.shape == (nb * d, d, d), f'{name}/shape', f'{name}: projector array does not have the documented shape', {**wit, 'shape': list(P.shape)}):
            return
        if not ctx.check(np.all(np.isfinite(P)), f'{name}/not-finite', f'{name}: non-finite entries', wit):
            return
        ref = rc.chebyshev_bases(d, alpha, wcb)
        tol = 1e-13 * d
        refP = np.concatenate([np.einsum('ka,kb->kab', B, B.conj()) for B in ref])
        self.w(f'{name}/definition', np.abs(P - refP).max())
        ctx.close(P, refP, tol, f'{name}/definition', f'{name}: projectors differ from |b_k><b_k| of the Chebyshev bases (zeros of T_d, T_(d-1))', wit)
        for b in range(nb):
            blk = P[b * d:(b + 1) * d]
            se = float(np.abs(blk.sum(0) - np.eye(d)).max())
            self.w(f'{name}/sum-to-identity', se)
            ctx.check(se <= tol * d, f'{name}/basis-not-resolving-identity', f'{name}: the projectors of one basis do not sum to the identity', {**wit, 'basis': b, 'err': se})
            lo = float(np.linalg.eigvalsh((blk + blk.conj().transpose(0, 2, 1)) / 2)[:, 0].min())
            ctx.check(lo >= -PSD_TOL, f'{name}/element-not-psd', f'{name}: a projector is not PSD', {**wit, 'basis': b, 'min_eig': lo})
            ide = float(np.abs(np.einsum('kab,kbc->kac', blk, blk) - blk).max())
            ctx.check(ide <= tol * d, f'{name}/element-not-projector', f'{name}: an element is not a rank-one projector', {**wit, 'basis': b, 'err': ide})
        if basis is not None:
            if not ctx.check(isinstance(basis, (list, tuple)) and len(basis) == nb and all(np.asarray(B).shape == (d, d) for B in basis),
                             f'{name}/basis-shape', f'{name}: basis list does not consist of {nb} (d,d) arrays', wit):
                return
            for b, (B, R) in enumerate(zip(basis, ref)):
                B = np.asarray(B)
                ue = float(np.abs(B @ B.conj().T - np.eye(d)).max())
                self.w(f'{name}/unitarity', ue)
                ctx.check(ue <= tol * d, f'{name}/basis-not-unitary', f'{name}: a returned basis is not unitary', {**wit, 'basis': b, 'err': ue})
                ctx.close(B, R, tol, f'{name}/basis-definition', f'{name}: a returned basis differs from the Chebyshev definition', {**wit, 'basis': b})

    def post_element_probing(self, c):
        """kind='eq9' only: four orthonormal measurement bases (kind='eq8' is a list of observables, outside the statement)."""
        if c.exc is not None:
            return
        kind, d = c.arg(0, 'kind'), c.arg(1, 'dim')
        if kind != 'eq9' or not (_isint(d) and 4 <= d <= 64 and d % 2 == 0):
            return
        d = int(d)
        ctx = self.ctx
        name = 'get_element_probing_POVM/eq9'
        wit = {'kind': 'eq9', 'dim': d}
        P = np.asarray(c.result)
        if not ctx.check(P.shape == (4 * d, d, d), f'{name}/shape', f'{name}: projector array is not (4 dim, dim, dim)', {**wit, 'shape': list(P.shape)}):
            return
        if not ctx.check(np.all(np.isfinite(P)), f'{name}/not-finite', f'{name}: non-finite entries', wit):
            return
        ref = rc.element_probing_eq9_bases(d)
        for b in range(4):
            blk = P[b * d:(b + 1) * d]
            se = float(np.abs(blk.sum(0) - np.eye(d)).max())
            self.w(f'{name}/sum-to-identity', se)
            ctx.check(se <= TOL, f'{name}/basis-not-resolving-identity', f'{name}: the projectors of one basis do not sum to the identity', {**wit, 'basis': b, 'err': se})
            he = float(np.abs(blk - blk.conj().transpose(0, 2, 1)).max())
            ctx.check(he <= TOL, f'{name}/element-not-hermitian', f'{name}: an element is not Hermitian', {**wit, 'basis': b, 'err': he})
            lo = float(np.linalg.eigvalsh((blk + blk.conj().transpose(0, 2, 1)) / 2)[:, 0].min())
            ctx.check(lo >= -PSD_TOL, f'{name}/element-not-psd', f'{name}: a projector is not PSD', {**wit, 'basis': b, 'min_eig': lo})
            ide = float(np.abs(np.einsum('kab,kbc->kac', blk, blk) - blk).max())
            tre = float(np.abs(np.einsum('kaa->k', blk) - 1).max())
            ctx.check(ide <= TOL and tre <= TOL, f'{name}/element-not-projector', f'{name}: an element is not a rank-one projector', {**wit, 'basis': b, 'err': max(ide, tre)})
            # definition, up to the order of the vectors inside a basis (the order is not documented)
            R = np.einsum('ka,kb->kab', ref[b], ref[b].conj()).reshape(d, -1)
            dist = np.abs(blk.reshape(d, 1, -1) - R[np.newaxis]).max(axis=2)
            match = dist.argmin(axis=1)
            de = float(dist.min(axis=1).max())
            self.w(f'{name}/definition', de)
            ctx.check(de <= TOL and len(set(match.tolist())) == d, f'{name}/definition', f'{name}: a basis is not the one of eq. (9) of Baldwin-Deutsch-Kalev',
                      {**wit, 'basis': b, 'err': de})


def install(ctx, numqi):
    mon = Mon(ctx, numqi)
    S = numqi.state._internal
    table = [
        (S, 'W', mon.post_W, 'state.W'), (S, 'Wtype', mon.post_Wtype, 'state.Wtype'), (S, 'GHZ', mon.post_GHZ, 'state.GHZ'),
        (S, 'Bell', mon.post_Bell, 'state.Bell'), (numqi.dicke, 'Dicke', mon.post_Dicke, 'state.Dicke'),
        (S, 'Werner', mon.post_Werner, 'state.Werner'), (S, 'Isotropic', mon.post_Isotropic, 'state.Isotropic'),
        (S, 'maximally_entangled_state', mon.post_max_entangled, 'state.maximally_entangled_state'),
        (S, 'maximally_mixed_state', mon.post_max_mixed, 'state.maximally_mixed_state'),
        (S, 'maximally_coherent_state', mon.post_max_coherent, 'state.maximally_coherent_state'),
        (S, 'get_2qutrit_Antoine2022', mon.post_Antoine, 'state.get_2qutrit_Antoine2022'),
        (S, 'get_bes2x4_Horodecki1997', mon.post_bes2x4, 'state.get_bes2x4_Horodecki1997'),
        (S, 'get_bes3x3_Horodecki1997', mon.post_bes3x3, 'state.get_bes3x3_Horodecki1997'),
        (S, 'get_Werner_ree', mon.post_Werner_ree, 'state.get_Werner_ree'), (S, 'get_Werner_GME', mon.post_Werner_GME, 'state.get_Werner_GME'),
        (S, 'get_Werner_eof', mon.post_Werner_eof, 'state.get_Werner_eof'),
        (S, 'get_Isotropic_ree', mon.post_Isotropic_ree, 'state.get_Isotropic_ree'), (S, 'get_Isotropic_GME', mon.post_Isotropic_GME, 'state.get_Isotropic_GME'),
        (S, 'get_Isotropic_eof', mon.post_Isotropic_eof, 'state.get_Isotropic_eof'),
        (S, 'get_qubit_dicke_state_GME', mon.post_dicke_GME, 'state.get_qubit_dicke_state_GME'),
        (S, 'get_Wtype_state_GME', mon.post_Wtype_GME, 'state.get_Wtype_state_GME'),
        (numqi.entangle.upb, 'load_upb', mon.post_load_upb, 'entangle.load_upb'),
        (numqi.entangle.upb, 'upb_to_bes', mon.post_upb_to_bes, 'entangle.upb_to_bes'),
        (numqi.entangle.upb, 'get_upb_product', mon.post_get_upb_product, 'entangle.get_upb_product'),
        (numqi.entangle.upb, 'fourier_matrix', mon.post_fourier, 'entangle.upb.fourier_matrix'),
        (numqi.entangle.upb, 'hf_is_prime', mon.post_is_prime, 'entangle.upb.hf_is_prime'),
        (numqi.utils, 'get_tetrahedron_POVM', mon.post_tetrahedron, 'utils.get_tetrahedron_POVM'),
        (numqi.unique_determine._internal, 'get_chebshev_orthonormal', mon.post_chebyshev, 'unique_determine.get_chebshev_orthonormal'),
        (numqi.unique_determine._internal, 'get_element_probing_POVM', mon.post_element_probing, 'unique_determine.get_element_probing_POVM'),
    ]
    def pre(c):
        return [snap(a) for a in c.args], {k: snap(v) for k, v in c.kwargs.items()}

    def fresh(post, short):
        def run_post(c):
            mon._lowprec = False
            if c.snap is not None:
                sargs, skw = c.snap
                changed = [i for i, (a, b) in enumerate(zip(c.args, sargs)) if not same(a, b)] + [k for k in skw if not same(c.kwargs[k], skw[k])]
                ctx.check(not changed, f'{short}/mutates-argument', f'{short}: an argument passed in was modified in place', {'arguments': changed},
                          point='argument-mutation')
                # the contract is judged against the arguments as they were at call time
                c.args, c.kwargs = tuple(sargs), skw
            post(c)
        return run_post

    for owner, name, post, point in table:
        ctx.attach(owner, name, post=fresh(post, name), pre=pre, point=point)
    # coverage statement: every public callable of numqi.state must have a monitor
    public = sorted(n for n in dir(numqi.state) if not n.startswith('_') and callable(getattr(numqi.state, n)))
    unknown = [n for n in public if n not in STATE_COVERED]
    ctx.extra['numqi.state public callables'] = public
    ctx.extra['constructors_covered'] = [p for _, _, _, p in table]
    ctx.extra['constructors_not_covered'] = dict(NOT_COVERED, **{f'numqi.state.{n}': 'new public name without a monitor' for n in unknown})
    if unknown:
        ctx.inconclusive('numqi.state-public-name-without-monitor', len(unknown))
    return mon


# =================================================================================================== workloads
def grid41(lo, hi, extra=(), n=41):
    """n-point grid with both end points + the given interior thresholds and thresholds +-1e-9 (clipped to the range)."""
    pts = list(np.linspace(lo, hi, n))
    pts[0], pts[-1] = lo, hi  # exactly the documented end points
    for t in extra:
        for dlt in (0.0, -1e-9, 1e-9):
            if lo <= t + dlt <= hi:
                pts.append(t + dlt)
    return [float(x) for x in pts]


class Driver:
    def __init__(self, ctx, numqi, mon):
        self.ctx, self.numqi, self.mon = ctx, numqi, mon
        self.n_sampled = 0

    def call(self, name, f, *args, nontrivial=True, cls=None, **kwargs):
        ctx = self.ctx
        desc = {'constructor': name, 'args': list(args), 'kwargs': kwargs}
        ctx.set_case(desc)
        self.n_sampled += 1
        ctx.case(name, list(args), kwargs, nontrivial=nontrivial, sample=desc if (self.n_sampled % 97 == 1) else None)
        ret = None
        with ctx.guard(name):
            ret = f(*args, **kwargs)
        return ret


def run_kets(ctx, numqi, drv):
    S = numqi.state
    T = ctx.tier == 'thorough'
    rng = ctx.rng
    ctx.workload('exhaustive')
    for n in range(1, (10 if T else 6) + 1):
        drv.call('GHZ', S.GHZ, n)
        drv.call('W', S.W, n)
        drv.call('GHZ', S.GHZ, np.int64(n))
        drv.call('W', S.W, np.int64(n))
    drv.call('GHZ', S.GHZ)  # default n=2
    drv.call('GHZ', S.GHZ, n=3)
    for i in range(4):
        drv.call('Bell', S.Bell, i)
        drv.call('Bell', S.Bell, np.int64(i))
    drv.call('Bell', S.Bell)
    with ctx.guard('Bell-basis'):
        B = np.stack([S.Bell(i) for i in range(4)])
        ctx.check(np.abs(B @ B.T - np.eye(4)).max() <= TOL, 'Bell/not-a-basis', 'the four Bell states are not an orthonormal basis', {'gram': B @ B.T})
    for d in range(2, (16 if T else 8) + 1):
        drv.call('maximally_entangled_state', S.maximally_entangled_state, d)
    for d in range(1, (12 if T else 8) + 1):
        drv.call('maximally_mixed_state', S.maximally_mixed_state, d, nontrivial=d > 1)
    for d in range(1, (128 if T else 64) + 1):
        drv.call('maximally_coherent_state', S.maximally_coherent_state, d, nontrivial=d > 1)
        drv.call('maximally_coherent_state', S.maximally_coherent_state, d, True, nontrivial=d > 1)
        if d <= 8:
            drv.call('maximally_coherent_state', S.maximally_coherent_state, d, return_dm=True, nontrivial=d > 1)
            drv.call('maximally_coherent_state', S.maximally_coherent_state, d=d, return_dm=False, nontrivial=d > 1)
    # Dicke: every occupation tuple within the dimension bound
    Dmax = 256 if T else 64
    ndicke = 0
    for dim in range(2, 9):
        n = 0
        while dim**n <= Dmax:
            for kl in _compositions(n, dim):
                drv.call('Dicke', S.Dicke, *kl, nontrivial=n > 0)
                ndicke += 1
            n += 1
    ctx.extra['dicke_tuples'] = ndicke
    drv.call('Dicke', numqi.dicke.Dicke, 2, 2)
    drv.call('Dicke', S.Dicke, np.int64(1), np.int64(2))
    # Wtype: corner + random coefficient vectors (real, complex, integer, unnormalised, with zeros)
    ctx.workload('corner')
    for coeff in [np.array([1.0]), np.array([1.0, 0.0]), np.array([0.0, 0.0, 2.0]), np.array([1, 1, 1]), np.array([3, 4]),
                  np.array([1.0, 2.0, 3.0, 4.0]), np.array([1e-8, 1.0]), np.array([1e8, -1e8, 5.0]), np.array([1j, 1.0, -1.0]),
                  np.ones(6), np.arange(1, 7) * 1.0, np.array([0.6, -0.8], dtype=np.float32)]:
        drv.call('Wtype', S.Wtype, coeff)
    ctx.workload('random')
    for it in range(400 if T else 60):
        n = int(rng.integers(1, 7))
        coeff = rng.normal(size=n) * 10.0**rng.integers(-3, 4)
        if it % 3 == 0:
            coeff = coeff + 1j * rng.normal(size=n)
        if it % 5 == 0 and n > 1:
            coeff[int(rng.integers(n))] = 0
        if np.linalg.norm(coeff) > 0:
            drv.call('Wtype', S.Wtype, coeff)
    with ctx.guard('Wtype-vs-W'):
        for n in range(1, 7):
            ctx.close(S.Wtype(np.ones(n)), rc.w_state(n), TOL, 'Wtype/uniform-is-not-W', 'Wtype(ones(n)) is not the W state', {'n': n})
    # closed forms on kets
    ctx.workload('exhaustive')
    for n in range(1, (30 if T else 12) + 1):
        for k in range(n + 1):
            drv.call('get_qubit_dicke_state_GME', S.get_qubit_dicke_state_GME, n, k)
    ctx.workload('corner')
    s2, s3 = math.sqrt(0.5), math.sqrt(1 / 3)
    corner = [(s3, s3, s3), (1.0, 0.0, 0.0), (0.0, 1.0, 0.0), (0.0, 0.0, 1.0), (s2, s2, 0.0), (s2, 0.0, s2), (0.0, s2, s2), (0.6, 0.8, 0.0),
              (-s3, s3, -s3), (0.5, 0.5, s2), (s2, 0.5, 0.5), (0.5, s2, 0.5)]  # the last three: r_i = 0 exactly (right-angle boundary)
    for dlt in (1e-9, -1e-9, 1e-6, -1e-6):
        for perm in ((0, 1, 2), (2, 0, 1), (1, 2, 0)):
            v = np.array([0.5, 0.5, s2 + dlt])
            v = (v / np.linalg.norm(v))[list(perm)]
            corner.append(tuple(float(t) for t in v))
    for abc in corner:
        drv.call('get_Wtype_state_GME', S.get_Wtype_state_GME, *abc)
    ctx.workload('exhaustive')
    m = 8 if T else 5  # grid on the positive octant (41+ points in quick)
    for i in range(m + 1):
        for j in range(m + 1 - i):
            v = np.sqrt(np.array([i, j, m - i - j]) / m)
            drv.call('get_Wtype_state_GME', S.get_Wtype_state_GME, float(v[0]), float(v[1]), float(v[2]))
    ctx.workload('random')
    for it in range(300 if T else 40):
        v = rng.normal(size=3)
        v /= np.linalg.norm(v)
        drv.call('get_Wtype_state_GME', S.get_Wtype_state_GME, float(v[0]), float(v[1]), float(v[2]))


def _compositions(n, parts):
    if parts == 1:
        yield (n,)
        return
    for a in range(n + 1):
        for rest in _compositions(n - a, parts - 1):
            yield (a,) + rest


def run_family(ctx, numqi, drv, family, dlist, npts, nrandom, extra_dlt=()):
    """Werner / Isotropic with their three closed forms."""
    S = numqi.state
    rng = ctx.rng
    ctor = getattr(S, family)
    ree, gme, eof = (getattr(S, f'get_{family}_{k}') for k in ('ree', 'GME', 'eof'))
    for d in dlist:
        if family == 'Werner':
            lo, thr = -1.0, 1 / d
            extra = [thr, 0.0]
        else:
            lo, thr = -1 / (d**2 - 1), 1 / (d + 1)
            extra = [thr, 0.0, 4 * (d - 1) / d**2 * (d * d / (d * d - 1)) - 1 / (d * d - 1)]  # + the knee of the EOF formula F=4(d-1)/d^2
        ctx.workload('exhaustive')
        pts = grid41(lo, 1.0, extra, npts)
        for dl in extra_dlt:
            pts += [thr + dl, thr - dl]
        for a in pts:
            drv.call(family, ctor, d, a)
            drv.call(f'get_{family}_ree', ree, d, a)
            drv.call(f'get_{family}_GME', gme, d, a)
            drv.call(f'get_{family}_eof', eof, d, a)
        # batched closed forms (documented float | np.ndarray) and other scalar types
        ctx.workload('corner')
        arr = np.array(pts)
        drv.call(f'get_{family}_GME', gme, d, arr)
        drv.call(f'get_{family}_eof', eof, d, arr)
        drv.call(f'get_{family}_eof', eof, d, arr.reshape(-1, 1)[:40].reshape(4, 10))
        drv.call(f'get_{family}_GME', gme, d, arr[:40].reshape(2, 20))
        drv.call(family, ctor, d, np.float32(0.75))
        for a in (1, 0, np.float64(thr), np.int64(1)):
            drv.call(family, ctor, d, a)
            drv.call(f'get_{family}_eof', eof, d, a)
            drv.call(f'get_{family}_GME', gme, d, a)
            drv.call(f'get_{family}_ree', ree, d, a)
        drv.call(family, ctor, d=d, alpha=0.3)
        drv.call(family, ctor, np.int64(d), 0.9)
        if family == 'Werner':
            drv.call(family, ctor, d, -1)
        ctx.workload('random')
        for _ in range(nrandom):
            a = float(rng.uniform(lo, 1))
            drv.call(family, ctor, d, a)
            drv.call(f'get_{family}_ree', ree, d, a)
            drv.call(f'get_{family}_GME', gme, d, a)
            drv.call(f'get_{family}_eof', eof, d, a)


def run_families(ctx, numqi, drv):
    S = numqi.state
    T = ctx.tier == 'thorough'
    rng = ctx.rng
    ctx.workload('exhaustive')
    n = 201 if T else 41
    for q in grid41(-2.5, 2.5, (-1.5, -0.5, 0.0, 0.5, 1.5), n):
        drv.call('get_2qutrit_Antoine2022', S.get_2qutrit_Antoine2022, q)
    for p in grid41(0.0, 1.0, (), n) + [1e-9, 1 - 1e-9, 1e-12, 1e-300, 1 - 1e-16]:
        drv.call('get_bes2x4_Horodecki1997', S.get_bes2x4_Horodecki1997, p)
        drv.call('get_bes3x3_Horodecki1997', S.get_bes3x3_Horodecki1997, p)
    ctx.workload('corner')
    for v in (0, 1, np.float64(0.5), np.float32(0.25), np.int64(1)):
        drv.call('get_bes2x4_Horodecki1997', S.get_bes2x4_Horodecki1997, v)
        drv.call('get_bes3x3_Horodecki1997', S.get_bes3x3_Horodecki1997, v)
        drv.call('get_2qutrit_Antoine2022', S.get_2qutrit_Antoine2022, v)
    drv.call('get_bes2x4_Horodecki1997', S.get_bes2x4_Horodecki1997, b=0.3)
    drv.call('get_bes3x3_Horodecki1997', S.get_bes3x3_Horodecki1997, a=0.3)
    drv.call('get_2qutrit_Antoine2022', S.get_2qutrit_Antoine2022, q=-2)
    ctx.workload('random')
    for _ in range(500 if T else 50):
        drv.call('get_2qutrit_Antoine2022', S.get_2qutrit_Antoine2022, float(rng.uniform(-2.5, 2.5)))
        drv.call('get_bes2x4_Horodecki1997', S.get_bes2x4_Horodecki1997, float(rng.uniform(0, 1)))
        drv.call('get_bes3x3_Horodecki1997', S.get_bes3x3_Horodecki1997, float(rng.uniform(0, 1)))


def upb_case(ctx, numqi, drv, kind, args, restarts):
    """all four flag combinations + the helper functions on the returned factors + the unextendibility spot-check."""
    E = numqi.entangle
    upb = drv.call('load_upb', E.load_upb, kind, args)
    drv.call('load_upb', E.load_upb, kind, args, return_product=True)
    drv.call('load_upb', E.load_upb, kind, args, return_bes=True)
    both = drv.call('load_upb', E.load_upb, kind, args, True, True)
    if kind.lower() != kind.upper():
        drv.call('load_upb', E.load_upb, kind.upper(), args=args, return_bes=True)  # documented: case insensitive
    if upb is None or not isinstance(upb, (list, tuple)):
        return
    prod = drv.call('get_upb_product', E.get_upb_product, upb)
    drv.call('upb_to_bes', E.upb_to_bes, upb)
    if isinstance(prod, np.ndarray):
        drv.call('upb_to_bes', E.upb_to_bes, prod)
    if isinstance(both, tuple) and len(both) == 2 and isinstance(prod, np.ndarray) and np.shape(both[0]) == prod.shape:
        ctx.close(both[0], prod, 1e-14, 'load_upb/return_product-differs-from-get_upb_product',
                  'load_upb(return_product=True) differs from get_upb_product(load_upb(...))', {'kind': kind, 'args': args})
    # unextendibility: inconclusive-only spot check
    try:
        facs = [np.asarray(f) for f in upb]
        val = rc.min_product_overlap_with_set(facs, ctx.rng, restarts=restarts)
    except Exception:
        ctx.harness_error('unextendible-spot-check')
        return
    rec = ctx.extra.setdefault('unextendibility_min_sum_overlap_found', {})
    if kind == 'sixparam':  # many parameter points: keep the count and the smallest value
        r = rec.setdefault('sixparam', {'points': 0, 'min': None, 'argmin': None})
        r['points'] += 1
        if r['min'] is None or val < r['min']:
            r['min'], r['argmin'] = val, [float(t) for t in np.asarray(args, dtype=float)]
    else:
        rec[f'{kind}{"" if args is None else tuple(int(t) for t in np.asarray(args).reshape(-1))}'] = val
    ctx.hit('upb/unextendibility-spot-check')
    if val < 1e-14:  # an actual extension drives the sum of squared overlaps to rounding level; large quadres UPBs reach 1e-10 honestly
        ctx.inconclusive('upb/product-vector-in-complement-found-by-spot-check')


def sixparam_args(rng, n, margin=0.05):
    out = []
    while len(out) < n:
        p = rng.uniform(0, 2 * np.pi, size=6)
        t = p[[0, 1, 3, 4]]
        if np.all(np.abs(np.cos(t)) > margin) and np.all(np.abs(np.sin(t)) > margin):
            out.append(p)
    return out


def run_upb_fixed(ctx, numqi, drv):
    E = numqi.entangle
    T = ctx.tier == 'thorough'
    ctx.workload('exhaustive')
    for kind in ('tiles', 'pyramid', 'feng4x4', 'min4x4', 'feng2x2x2x2'):
        upb_case(ctx, numqi, drv, kind, None, 50)
    ctx.workload('corner')
    # sixparam: the two documented special points (tiles, pyramid), degenerate-but-admissible phases, random
    special = [np.array([1, 1, 0, 1, 1, 0]) * 3 * np.pi / 4, np.array([1, 1, 0, 1, 1, 0]) * np.arccos((np.sqrt(5) - 1) / 2),
               np.array([1.0, 1.0, 0.0, 1.0, 1.0, 0.0]), np.array([1.0, 2.0, np.pi, 1.0, 2.0, np.pi]), np.array([0.7, 0.7, 0.7, 0.7, 0.7, 0.7]),
               np.array([1.0, 2.0, 3.0, 4.0, 5.0, 6.0]), np.array([0.3, 2.8, np.pi / 2, 3.5, 6.0, 3 * np.pi / 2]), [1.0, 2.0, 0.5, 4.0, 5.0, 0.25]]
    for p in special:
        upb_case(ctx, numqi, drv, 'sixparam', p, 50)
    # numerical regime: gamma/theta close to (but, by more than the documented 1e-10, not at) a multiple of pi/2, where the
    # normalisation constants NA/NB become tiny: the vectors must still be unit and the set orthonormal
    for eps in (1e-3, 1e-5, 1e-7, 1e-9):
        for base in (np.pi / 2, 3 * np.pi / 2):
            upb_case(ctx, numqi, drv, 'sixparam', np.array([base - eps, base - 2 * eps, 0.3, 0.7, 0.9, 1.1]), 5)
            upb_case(ctx, numqi, drv, 'sixparam', np.array([0.7, 0.9, 1.1, base + eps, base - 3 * eps, 0.3]), 5)
        upb_case(ctx, numqi, drv, 'sixparam', np.array([np.pi / 2 - eps, 3 * np.pi / 2 + eps, 2.0, np.pi / 2 + 2 * eps, np.pi / 2 + eps, 4.0]), 5)
    drv.call('load_upb', E.load_upb, 'sixparam')  # documented: random parameters when args is None
    drv.call('load_upb', E.load_upb, 'sixparam', None, return_bes=True)
    ctx.workload('random')
    for p in sixparam_args(ctx.rng, 12):
        upb_case(ctx, numqi, drv, 'sixparam', p, 20)
    # helpers
    ctx.workload('exhaustive')
    for dim in list(range(1, 42 if T else 20)) + ([64, 128] if T else [37]):
        drv.call('fourier_matrix', E.upb.fourier_matrix, dim)
    for n in range(-3, 2000 if T else 300):
        drv.call('hf_is_prime', E.upb.hf_is_prime, n)
    # get_upb_product / upb_to_bes on foreign (random orthonormal product) sets, incl. complex and 3 parties
    ctx.workload('random')
    rng = ctx.rng
    for it in range(60 if T else 12):
        dims = [int(t) for t in rng.integers(2, 5, size=int(rng.integers(2, 4)))]
        N = int(rng.integers(1, 4))
        facs = []
        for d in dims:  # first factor orthonormal rows => the product vectors are orthonormal
            a = rng.normal(size=(d, d)) + 1j * rng.normal(size=(d, d))
            q = np.linalg.qr(a)[0]
            facs.append(q[:min(N, dims[0])] if len(facs) == 0 else q[rng.integers(0, d, size=min(N, dims[0]))])
        drv.call('get_upb_product', E.get_upb_product, facs)
        drv.call('upb_to_bes', E.upb_to_bes, facs)


def run_upb_sized(ctx, numqi, drv, which):
    ctx.workload('exhaustive')
    if which == 'quick':
        cases = [('quadres', 3), ('quadres', 7), ('genshifts', 3), ('genshifts', 5), ('gentiles1', 4), ('gentiles1', 6), ('gentiles1', 8),
                 ('gentiles2', (3, 4)), ('gentiles2', (3, 5)), ('gentiles2', (4, 4)), ('gentiles2', (4, 5))]
        if ctx.tier == 'thorough':
            cases += [('quadres', 9), ('genshifts', 7), ('gentiles2', [3, 4]), ('gentiles2', np.array([4, 6])), ('quadres', np.int64(3))]
    else:
        cases = [('quadres', 15), ('quadres', 19), ('genshifts', 9), ('gentiles1', 10), ('gentiles1', 12)]
        cases += [('gentiles2', (m, n)) for m in range(3, 8) for n in range(max(m, 4), 8) if (m, n) not in [(3, 4), (3, 5), (4, 4), (4, 5)]]
    for kind, args in cases:
        upb_case(ctx, numqi, drv, kind, args, 50 if which == 'quick' else 20)


def run_povm_bases(ctx, numqi, drv, dlist):
    T = ctx.tier == 'thorough'
    ctx.workload('exhaustive')
    if dlist[0] == 2:
        for nq in range(1, (4 if T else 3) + 1):
            drv.call('get_tetrahedron_POVM', numqi.utils.get_tetrahedron_POVM, nq)
        drv.call('get_tetrahedron_POVM', numqi.utils.get_tetrahedron_POVM)
        drv.call('get_tetrahedron_POVM', numqi.utils.get_tetrahedron_POVM, num_qubit=2)
    f = numqi.unique_determine.get_chebshev_orthonormal
    alphas = grid41(0.0, 2 * np.pi, (np.pi / 2, np.pi), 41) + [-1.0, 7.0, 100.0, 1e-9]
    for d in dlist:
        for a in alphas:
            drv.call('get_chebshev_orthonormal', f, d, a, return_basis=True)
            drv.call('get_chebshev_orthonormal', f, d, a, True, True)
        drv.call('get_chebshev_orthonormal', f, d, 0.5)
        drv.call('get_chebshev_orthonormal', f, d, 0.5, with_computational_basis=True)
        drv.call('get_chebshev_orthonormal', f, dim_qudit=d, alpha=1)
    ctx.workload('random')
    for _ in range(100 if T else 20):
        drv.call('get_chebshev_orthonormal', f, int(ctx.rng.integers(dlist[0], dlist[-1] + 1)), float(ctx.rng.normal() * 10), bool(ctx.rng.integers(2)), True)


def run_realistic(ctx, numqi, drv):
    """the library's own higher-level code with the monitors on (arguments that real use produces)."""
    S, E = numqi.state, numqi.entangle
    rng = ctx.rng
    T = ctx.tier == 'thorough'
    ctx.workload('realistic')
    # (a) the PPT test of numqi agrees with the documented ranges of the catalogue states
    for d in (2, 3, 4):
        for a in np.linspace(-1, 1, 21):
            with ctx.guard('realistic/is_ppt(Werner)'):
                rho = S.Werner(d, float(a))
                got = bool(ctx.orig(E.is_ppt)(rho, (d, d)))
                if abs(a - 1 / d) > 1e-6:
                    ctx.check(got == (a <= 1 / d), 'realistic/is_ppt-vs-documented-SEP-range/Werner', 'is_ppt(Werner(d,a)) contradicts the documented range',
                              {'d': d, 'alpha': float(a), 'is_ppt': got})
        for a in np.linspace(-1 / (d * d - 1), 1, 21):
            with ctx.guard('realistic/is_ppt(Isotropic)'):
                rho = S.Isotropic(d, float(a))
                got = bool(ctx.orig(E.is_ppt)(rho, (d, d)))
                if abs(a - 1 / (d + 1)) > 1e-6:
                    ctx.check(got == (a <= 1 / (d + 1)), 'realistic/is_ppt-vs-documented-SEP-range/Isotropic', 'is_ppt(Isotropic(d,a)) contradicts the documented range',
                              {'d': d, 'alpha': float(a), 'is_ppt': got})
    # (b) boundary searches starting from catalogue states (the way the documentation uses them)
    for d in (2, 3):
        with ctx.guard('realistic/get_ppt_boundary'):
            for ctor, thr in ((S.Werner, 1 / d), (S.Isotropic, 1 / (d + 1))):
                rho = ctor(d, 1)
                beta = float(E.get_ppt_boundary(rho, (d, d))[1])  # (lower, upper): upper = along the direction of rho
                g = numqi.gellmann
                b_thr = float(g.dm_to_gellmann_norm(ctor(d, thr)))
                ctx.check(abs(beta - b_thr) <= 1e-7, 'realistic/ppt-boundary-vs-documented-threshold', 'PPT boundary along the Werner/isotropic ray is not the documented threshold state',
                          {'d': d, 'beta': float(beta), 'beta_of_threshold_state': b_thr})
    # (c) UPB -> BES pipelines as in the documentation / tests
    with ctx.guard('realistic/upb-pipeline'):
        for kind, args in [('tiles', None), ('pyramid', None), ('quadres', 3), ('gentiles1', 4), ('genshifts', 3)]:
            upb, rho = E.load_upb(kind, args, return_bes=True)
            dims = [u.shape[1] for u in upb]
            if len(dims) == 2:
                ctx.check(bool(ctx.orig(E.is_ppt)(rho, dims)), 'realistic/is_ppt(bes)', 'numqi.entangle.is_ppt rejects the BES of a UPB', {'kind': kind})
            V = E.get_upb_product(upb)
            ctx.check(np.abs(rho @ V.T).max() <= 1e-12, 'realistic/bes-not-orthogonal-to-upb', 'BES does not annihilate the UPB members', {'kind': kind})
        dm_six = E.load_upb('sixparam', np.array([1, 1, 0, 1, 1, 0]) * 3 * np.pi / 4, return_bes=True)[1]
        dm_tiles = E.load_upb('tiles', return_bes=True)[1]
        ctx.close(np.sort(np.linalg.eigvalsh(dm_six)), np.sort(np.linalg.eigvalsh(dm_tiles)), 1e-12, 'realistic/sixparam-tiles-spectrum', 'documented tiles point of sixparam: spectra differ')
    # (d) GME / entropy consumers of the kets
    with ctx.guard('realistic/ket-consumers'):
        for n in (2, 3, 4):
            psi = S.GHZ(n)
            red = numqi.utils.partial_trace(psi.reshape(-1, 1) * psi.conj(), [2] * n, [0])
            ctx.close(red, np.eye(2) / 2, 1e-12, 'realistic/GHZ-reduced-state', 'one-qubit reduction of GHZ is not I/2')
            psi = S.W(n)
            red = numqi.utils.partial_trace(psi.reshape(-1, 1) * psi.conj(), [2] * n, [0])
            ctx.close(red, np.diag([(n - 1) / n, 1 / n]), 1e-12, 'realistic/W-reduced-state', 'one-qubit reduction of W is not diag((n-1)/n, 1/n)')
            psi = S.Dicke(n - 1, 1)
            ctx.close(psi, S.W(n), 1e-12, 'realistic/Dicke(n-1,1)-is-not-W', 'Dicke(n-1,1) differs from W(n)')
        for d in (2, 3, 5):
            psi = S.maximally_entangled_state(d)
            ctx.close(S.Isotropic(d, 1), psi.reshape(-1, 1) * psi.conj(), 1e-12, 'realistic/Isotropic(1)-is-not-projector-of-maximally-entangled', 'Isotropic(d,1) != |Phi><Phi|')
            ctx.close(S.Isotropic(d, 0), S.maximally_mixed_state(d), 1e-12, 'realistic/Isotropic(0)-is-not-maximally-mixed', 'Isotropic(d,0) != maximally_mixed_state(d)')
            ctx.close(S.Werner(d, 0), S.maximally_mixed_state(d), 1e-12, 'realistic/Werner(0)-is-not-maximally-mixed', 'Werner(d,0) != maximally_mixed_state(d)')
        ctx.close(S.Bell(0), S.maximally_entangled_state(2), 1e-12, 'realistic/Bell(0)-is-not-maximally-entangled(2)', 'Bell(0) != maximally_entangled_state(2)')
        ctx.close(S.Bell(0), S.GHZ(2), 1e-12, 'realistic/Bell(0)-is-not-GHZ(2)', 'Bell(0) != GHZ(2)')
        psi = S.Bell(3)
        ctx.close(S.Werner(2, 1), psi.reshape(-1, 1) * psi.conj(), 1e-12, 'realistic/Werner(2,1)-is-not-singlet', 'Werner(2,1) != singlet projector')
        ctx.close(S.get_qubit_dicke_state_GME(3, 1), S.get_Wtype_state_GME(*([math.sqrt(1 / 3)] * 3)), 1e-12, 'realistic/GME-of-W3-two-formulas', 'Dicke(3,1) GME != Wtype GME of W')
    # (e) measurement consumers
    with ctx.guard('realistic/povm-consumers'):
        for nq in (1, 2):
            P = numqi.utils.get_tetrahedron_POVM(nq)
            rho = ctx.orig(numqi.random.rand_density_matrix)(2**nq, seed=int(rng.integers(2**31)))
            pr = np.einsum('iab,ba->i', P, rho).real
            ctx.check(abs(pr.sum() - 1) <= 1e-12 and pr.min() >= -1e-12, 'realistic/tetrahedron-probabilities', 'Born probabilities of the tetrahedron POVM are not a distribution', {'sum': float(pr.sum())})
            # informational completeness: the 4^n elements span the operator space
            ctx.check(np.linalg.matrix_rank(P.reshape(P.shape[0], -1), tol=1e-10) == 4**nq, 'realistic/tetrahedron-not-informationally-complete', 'tetrahedron POVM elements do not span the operator space', {'num_qubit': nq})
        for d in (3, 4, 5):
            P = numqi.unique_determine.get_chebshev_orthonormal(d, np.pi / d, with_computational_basis=True)
            rho = ctx.orig(numqi.random.rand_density_matrix)(d, seed=int(rng.integers(2**31)))
            pr = np.einsum('iab,ba->i', P, rho).real.reshape(5, d)
            ctx.check(np.abs(pr.sum(1) - 1).max() <= 1e-11 and pr.min() >= -1e-12, 'realistic/chebyshev-probabilities', 'Born probabilities of a Chebyshev basis are not a distribution', {'d': d})


def run_generic(ctx, numqi, drv, kind):
    """thorough: closed forms for d=3 against numqi's generic variational routines (upper bounds of the convex roof)."""
    S, E = numqi.state, numqi.entangle
    ctx.workload('realistic')
    for d, family in [(d, f) for d in (3, 2, 4) for f in ('Werner', 'Isotropic')]:
        if kind == 'gme':
            model = E.DensityMatrixGMEModel([d, d], num_ensemble=3 * d * d)
        else:
            model = E.EntanglementFormationModel(d, d, 2 * d * d)
        lo, thr = (-1.0, 1 / d) if family == 'Werner' else (-1 / (d * d - 1), 1 / (d + 1))
        ctor = getattr(S, family)
        closed = getattr(S, f'get_{family}_{"GME" if kind == "gme" else "eof"}')
        for a in [lo, thr - 0.1, thr, thr + 0.05, (thr + 1) / 2, 0.8, 0.9, 1.0] + [float(t) for t in ctx.rng.uniform(thr, 1, size=2)]:
            if ctx.time_left() < 20:
                ctx.inconclusive('generic-routine/budget-exhausted')
                continue
            ctx.set_case({'generic': kind, 'family': family, 'd': d, 'alpha': a})
            with ctx.guard(f'generic-{kind}/{family}'):
                model.set_density_matrix(ctor(d, a))
                with ctx.quiet():
                    fun = float(numqi.optimize.minimize(model, num_repeat=3, tol=1e-10, print_every_round=0, seed=int(ctx.rng.integers(2**31))).fun)
                v = float(closed(d, a))
                ctx.case(f'generic-{kind}', family, d, a)
                name = f'get_{family}_{"GME" if kind == "gme" else "eof"}'
                # the optimiser returns the value of an explicit decomposition: an upper bound of the true convex roof
                ctx.check(v <= fun + 1e-6, f'{name}/above-generic-variational-upper-bound', f'{name}: closed form exceeds the value of an explicit decomposition found by the generic routine',
                          {'d': d, 'alpha': a, 'closed': v, 'generic': fun})
                ctx.extra.setdefault('generic_vs_closed', []).append({'routine': kind, 'family': family, 'alpha': a, 'closed': v, 'generic': fun})
                if fun > v + 1e-5:
                    ctx.inconclusive('generic-routine/optimiser-not-converged')
                else:
                    ctx.check(abs(fun - v) <= 1e-5, f'{name}/vs-generic-variational-routine', f'{name}: disagrees with the generic routine', {'closed': v, 'generic': fun})


@contextlib.contextmanager
def seeded_default_rng(ctx):
    """repository tests draw from unseeded np.random.default_rng(): make that deterministic for the run."""
    orig = np.random.default_rng
    base = int(ctx.rng.integers(2**31))
    counter = [0]

    def seeded(seed=None):
        if seed is None:
            counter[0] += 1
            seed = base + counter[0]
        return orig(seed)

    np.random.default_rng = seeded
    try:
        yield
    finally:
        np.random.default_rng = orig


REPO_TESTS = [('tests/test_entangle/test_entangle_upb.py', ['test_load_upb_basic']),
              ('tests/test_entangle/test_entangle_bes.py', ['test_tiles_sixparam_equivalent', 'test_pyramid_sixparam_equivalent']),
              ('tests/test_entangle/test_entangle_misc.py', None)]  # tests/test_state.py is not run: its three tests spend 4.5 min in CHA optimisations


def run_repo_tests(ctx, numqi):
    ctx.workload('repo-tests')
    root = os.path.dirname(os.path.realpath(os.environ.get('NUMQI_SRC', '/repo/python')))
    if not os.path.exists(os.path.join(root, 'tests')):
        root = '/repo'
    ran = []
    with seeded_default_rng(ctx):
        for rel, names in REPO_TESTS:
            path = os.path.join(root, rel)
            if not os.path.exists(path):
                ctx.inconclusive('repo-test-file-missing')
                continue
            spec = importlib.util.spec_from_file_location('vmon_repo_' + os.path.basename(rel)[:-3], path)
            mod = importlib.util.module_from_spec(spec)
            try:
                spec.loader.exec_module(mod)
            except Exception:
                ctx.inconclusive('repo-test-file-not-importable')
                continue
            todo = names if names is not None else sorted(n for n in dir(mod) if n.startswith('test_') and callable(getattr(mod, n)))
            for n in todo:
                f = getattr(mod, n, None)
                if f is None:
                    continue
                if ctx.time_left() < 30:
                    ctx.inconclusive('repo-tests/budget-exhausted')
                    continue
                ctx.set_case({'op': 'repo-test', 'file': rel, 'name': n})
                try:
                    f()
                    ran.append(f'{rel}::{n}')
                except AssertionError:
                    ctx.inconclusive('repo-test-assertion-failed-under-monitoring')  # the test's own claim, not this property's
                except Exception:
                    ctx.inconclusive('repo-test-raised')
    ctx.extra['repo_tests_run'] = ran


def run(ctx, shard):
    import numqi
    mon = install(ctx, numqi)
    drv = Driver(ctx, numqi, mon)
    name = shard['name']
    T = ctx.tier == 'thorough'
    if name == 'kets':
        run_kets(ctx, numqi, drv)
    elif name == 'werner':
        run_family(ctx, numqi, drv, 'Werner', range(2, 9) if not T else range(2, 6), 201 if T else 41, 100 if T else 10, (1e-8, 1e-7, 1e-6) if T else ())
    elif name == 'werner-hi':
        run_family(ctx, numqi, drv, 'Werner', range(6, 11), 201, 100, (1e-8, 1e-7, 1e-6))
    elif name == 'isotropic':
        run_family(ctx, numqi, drv, 'Isotropic', range(2, 9) if not T else range(2, 6), 201 if T else 41, 100 if T else 10, (1e-8, 1e-7, 1e-6) if T else ())
    elif name == 'isotropic-hi':
        run_family(ctx, numqi, drv, 'Isotropic', range(6, 11), 201, 100, (1e-8, 1e-7, 1e-6))
    elif name == 'families':
        run_families(ctx, numqi, drv)
    elif name == 'upb-fixed':
        run_upb_fixed(ctx, numqi, drv)
    elif name == 'upb-sized':
        run_upb_sized(ctx, numqi, drv, 'quick')
    elif name == 'upb-large':
        run_upb_sized(ctx, numqi, drv, 'large')
    elif name == 'sixparam':
        ctx.workload('random')
        for p in sixparam_args(ctx.rng, 200, margin=0.02):
            upb_case(ctx, numqi, drv, 'sixparam', p, 10)
    elif name == 'povm-bases':
        run_povm_bases(ctx, numqi, drv, list(range(2, 17 if T else 13)))
    elif name == 'cheb-hi':
        run_povm_bases(ctx, numqi, drv, list(range(17, 33)))
    elif name == 'realistic':
        run_realistic(ctx, numqi, drv)
    elif name == 'histories':
        run_histories(ctx, numqi, drv)
    elif name == 'input-kinds':
        run_input_kinds(ctx, numqi, drv)
    elif name == 'regimes':
        run_regimes(ctx, numqi, drv)
    elif name == 'generic-gme':
        run_generic(ctx, numqi, drv, 'gme')
    elif name == 'generic-eof':
        run_generic(ctx, numqi, drv, 'eof')
    elif name == 'repo-tests':
        run_repo_tests(ctx, numqi)
    else:
        raise ValueError(name)
    ctx.extra['cases_driven'] = drv.n_sampled


# =================================================================================================== histories / call order / input kinds
def history_configs(numqi):
    """(label, function, args, kwargs) of every monitored constructor with small arguments (deterministic ones only)."""
    S, E = numqi.state, numqi.entangle
    cfg = []

    def add(label, f, *args, **kwargs):
        cfg.append((label, f, args, kwargs))

    for n in (1, 2, 3, 5):
        add('GHZ', S.GHZ, n)
        add('W', S.W, n)
    for i in range(4):
        add('Bell', S.Bell, i)
    for kl in [(1, 1), (2, 1), (2, 2), (1, 1, 1), (0, 2, 1), (3, 0)]:
        add('Dicke', S.Dicke, *kl)
    for coeff in [np.array([1.0, 2.0, 3.0]), np.array([3, 4]), np.array([1j, 1.0, -1.0, 0.5]), np.array([0.6, 0.8], dtype=np.float32)]:
        add('Wtype', S.Wtype, coeff)
    for d in (2, 3, 4):
        add('maximally_entangled_state', S.maximally_entangled_state, d)
        add('maximally_mixed_state', S.maximally_mixed_state, d)
        add('maximally_coherent_state', S.maximally_coherent_state, d)
        add('maximally_coherent_state', S.maximally_coherent_state, d, True)
        for a in (-0.3, 1 / d, 0.8, 1.0):
            add('Werner', S.Werner, d, a)
            add('get_Werner_ree', S.get_Werner_ree, d, a)
            add('get_Werner_GME', S.get_Werner_GME, d, a)
            add('get_Werner_eof', S.get_Werner_eof, d, a)
        for a in (-1 / (d * d - 1), 1 / (d + 1), 0.7, 1.0):
            add('Isotropic', S.Isotropic, d, a)
            add('get_Isotropic_ree', S.get_Isotropic_ree, d, a)
            add('get_Isotropic_GME', S.get_Isotropic_GME, d, a)
            add('get_Isotropic_eof', S.get_Isotropic_eof, d, a)
        add('get_Werner_GME', S.get_Werner_GME, d, np.linspace(-1, 1, 9))
        add('get_Werner_eof', S.get_Werner_eof, d, np.linspace(-1, 1, 9))
        add('get_Isotropic_GME', S.get_Isotropic_GME, d, np.linspace(0, 1, 9))
        add('get_Isotropic_eof', S.get_Isotropic_eof, d, np.linspace(0, 1, 9))
    for q in (-2.0, 0.0, 0.7, 2.5):
        add('get_2qutrit_Antoine2022', S.get_2qutrit_Antoine2022, q)
    for b in (0.0, 0.3, 1.0):
        add('get_bes2x4_Horodecki1997', S.get_bes2x4_Horodecki1997, b)
        add('get_bes3x3_Horodecki1997', S.get_bes3x3_Horodecki1997, b)
    for n, k in [(3, 1), (4, 2), (5, 0), (7, 3)]:
        add('get_qubit_dicke_state_GME', S.get_qubit_dicke_state_GME, n, k)
    for abc in [(math.sqrt(1 / 3),) * 3, (0.6, 0.8, 0.0), (0.5, 0.5, math.sqrt(0.5))]:
        add('get_Wtype_state_GME', S.get_Wtype_state_GME, *abc)
    for nq in (1, 2):
        add('get_tetrahedron_POVM', numqi.utils.get_tetrahedron_POVM, nq)
    for d in (2, 3, 5):
        add('get_chebshev_orthonormal', numqi.unique_determine.get_chebshev_orthonormal, d, 0.4, True, True)
        add('get_chebshev_orthonormal', numqi.unique_determine.get_chebshev_orthonormal, d, 1.1)
    for dim in (3, 5, 13):
        add('fourier_matrix', E.upb.fourier_matrix, dim)
    return cfg


def upb_configs():
    six = np.array([1.0, 2.0, 0.5, 4.0, 5.0, 0.25])
    return [('tiles', None), ('pyramid', None), ('feng4x4', None), ('min4x4', None), ('feng2x2x2x2', None), ('sixparam', six),
            ('sixparam', np.array([1, 1, 0, 1, 1, 0]) * 3 * np.pi / 4), ('quadres', 3), ('quadres', 7), ('genshifts', 3), ('genshifts', 5),
            ('gentiles1', 4), ('gentiles1', 6), ('gentiles1', 8), ('gentiles2', (3, 4)), ('gentiles2', (3, 5)), ('gentiles2', (4, 4)), ('gentiles2', (4, 5))]


class History:
    """first-call snapshots per configuration; every later call with equal arguments must reproduce them."""

    def __init__(self, ctx):
        self.ctx = ctx
        self.first = {}
        self.poisoned = {}   # key -> earlier (scribbled) result objects, kept alive on purpose

    def call(self, label, keylabel, f, args, kwargs, poison=True, scribble_args=True):
        ctx = self.ctx
        key = core_digest(keylabel, list(args), kwargs)
        a = copy.deepcopy(args)
        kw = copy.deepcopy(kwargs)
        ctx.set_case({'history': label, 'args': list(args), 'kwargs': kwargs, 'nth_call': len(self.poisoned.get(key, [])) + 1})
        ctx.case('history', label, list(args), kwargs, len(self.poisoned.get(key, [])))
        res = [None]
        with ctx.guard(label):
            res[0] = f(*a, **kw)
        r = res[0]
        if r is None:
            return None
        ctx.hit('history/repeated-call')
        wit = {'args': list(args), 'kwargs': kwargs}
        earlier = self.poisoned.get(key, [])
        if key in self.first:
            shares = any(np.shares_memory(x, y) for old in earlier for x in arrays_of(r) for y in arrays_of(old))
            eq_first = same(r, self.first[key], tol=1e-13)
            if shares or (not eq_first and any(same(r, old) for old in earlier)):
                ctx.check(False, f'{label}/result-aliases-earlier-call', f'{label}: the result of a later call with equal arguments is (a view of) the object '
                          'returned earlier, which the caller had edited in place', wit)
            else:
                ctx.check(eq_first, f'{label}/second-call-differs', f'{label}: a later call with equal arguments returns different values', wit)
        else:
            self.first[key] = snap(r)
        if poison:
            scribble(r)
            self.poisoned.setdefault(key, []).append(r)
        if scribble_args:
            scribble(a)       # a work buffer reused by the caller: must not leak into later calls made with fresh equal arguments
            scribble(kw.values() if False else list(kw.values()))
        return r


def core_digest(*objs):
    from vmon import core
    return core.digest(*objs)


def run_histories(ctx, numqi, drv):
    E = numqi.entangle
    rng = ctx.rng
    H = History(ctx)
    cfg = history_configs(numqi)
    ctx.extra['history_configurations'] = len(cfg)
    # (1)+(2): all constructors forward (each twice in a row, the first result edited in place in between), then in reverse
    # order, then in a random order, then the first configuration once more
    ctx.workload('corner')
    for label, f, args, kwargs in cfg:
        H.call(label, label, f, args, kwargs)
        H.call(label, label, f, args, kwargs)
    for label, f, args, kwargs in reversed(cfg):
        H.call(label, label, f, args, kwargs)
    for i in rng.permutation(len(cfg)):
        label, f, args, kwargs = cfg[int(i)]
        H.call(label, label, f, args, kwargs)
    label, f, args, kwargs = cfg[0]
    H.call(label, label, f, args, kwargs)
    ctx.hit('history/forward-reverse')
    # UPB kinds: same size twice in a row, then with 1..5 other configurations in between, every flag combination, forward / reverse
    U = upb_configs()
    flags = [dict(), dict(return_product=True), dict(return_bes=True), dict(return_product=True, return_bes=True)]

    def load(i, fl):
        kind, args = U[i]
        return H.call(f'load_upb/{kind}', 'load_upb', E.load_upb, (kind, args), fl)

    for i in range(len(U)):
        load(i, flags[0])
        load(i, flags[0])
    for i in reversed(range(len(U))):
        load(i, flags[2])
    for k in range(1, 6):
        for i in range(len(U)):
            others = [int(t) for t in rng.choice([j for j in range(len(U)) if j != i], size=k, replace=False)]
            # prefer the other sizes of the same kind (shared helper state is most likely there)
            sib = [j for j in range(len(U)) if j != i and U[j][0] == U[i][0]]
            others = (sib + others)[:k]
            fl = flags[(i + k) % 4]
            load(i, fl)
            for j in others:
                load(j, flags[(j + k) % 4])
            load(i, fl)
    ctx.hit('history/upb-order')
    # helpers on the factors of a load, twice, with the factor arrays edited in between (same objects: work-buffer history)
    for kind, args in U:
        with ctx.guard('history/upb-helpers'):
            upb = E.load_upb(kind, args)
            keep = snap(upb)
            p1 = E.get_upb_product(upb)
            b1 = E.upb_to_bes(upb)
            b1a = E.upb_to_bes(p1)
            sp1, sb1 = snap(p1), snap(b1)
            scribble([p1, b1, b1a])
            p2 = E.get_upb_product(upb)
            b2 = E.upb_to_bes(upb)
            ctx.check(same(p2, sp1, 1e-14), 'get_upb_product/second-call-differs', 'get_upb_product: second call on the same factors differs', {'kind': kind})
            ctx.check(same(b2, sb1, 1e-14), 'upb_to_bes/second-call-differs', 'upb_to_bes: second call on the same factors differs', {'kind': kind})
            ctx.check(same(upb, keep), 'upb-helpers/mutates-argument', 'get_upb_product / upb_to_bes modified the factors passed in', {'kind': kind})
            # same list object, new contents: the answer must follow the CURRENT contents (monitors judge against them)
            other = E.load_upb(*U[(U.index((kind, args)) + 1) % len(U)]) if False else None
            for fa in upb:
                fa[...] = fa[::-1].copy()   # permute the members: still a UPB, different product array
            p3 = E.get_upb_product(upb)
            E.upb_to_bes(upb)
            ctx.check(same(p3, sp1[::-1].copy(), 1e-14), 'get_upb_product/stale-after-inplace-update', 'get_upb_product: result does not follow an in-place update of the factors',
                      {'kind': kind})
    # work-buffer histories for array arguments of the state constructors and closed forms
    S = numqi.state
    buf = np.array([1.0, 2.0, 2.0])
    for vals in ([1.0, 2.0, 2.0], [0.0, 3.0, 4.0], [5.0, 0.0, 12.0], [1.0, 2.0, 2.0]):
        buf[:] = vals
        with ctx.guard('history/Wtype-buffer'):
            r = S.Wtype(buf)
            ctx.close(r, rc.wtype(np.array(vals), True), TOL, 'Wtype/stale-after-inplace-update', 'Wtype: result does not follow the current contents of the coefficient buffer', {'coeff': vals})
            scribble(r)
    abuf = np.linspace(-1, 1, 7)
    for shift in (0.0, 0.1, -0.2, 0.0):
        abuf[:] = np.clip(np.linspace(-1, 1, 7) + shift, -1, 1)
        for d in (2, 3):
            for nm in ('get_Werner_GME', 'get_Werner_eof'):
                with ctx.guard(f'history/{nm}-buffer'):
                    r = getattr(S, nm)(d, abuf)
                    ref = np.array([float(getattr(S, nm)(d, float(t))) for t in abuf])
                    ctx.close(r, ref, 1e-15, f'{nm}/vectorised-differs-from-scalar', f'{nm}: array call differs from element-wise scalar calls', {'d': d, 'alpha': abuf.copy()})
                    if isinstance(r, np.ndarray):
                        scribble(r)
    ctx.hit('history/work-buffer')


def run_input_kinds(ctx, numqi, drv):
    """(4): the same values presented as python / numpy ints, floats, 0-d arrays, other dtypes and memory layouts."""
    S, E = numqi.state, numqi.entangle
    ctx.workload('corner')

    def agree(label, base, variants, tol=0.0):
        """base and variants are thunks; every variant must return what the plain-python call returns."""
        b = [None]
        with ctx.guard(label):
            b[0] = base()
        for kindname, th in variants:
            ctx.set_case({'input-kind': label, 'variant': kindname})
            ctx.case('input-kind', label, kindname)
            v = [None]
            with ctx.guard(f'{label}/input-kind/{kindname}'):
                v[0] = th()
                ctx.hit('input-kinds')
                x, y = v[0], b[0]
                ok = same(snapf(x), snapf(y), tol=max(tol, 1e-15))
                ctx.check(ok, f'{label}/input-kind-dependent', f'{label}: the result depends on how an equal argument is presented ({kindname})', {'variant': kindname})

    def snapf(o):
        """values as float64/complex128 arrays (dtype of the container is not part of the claim)."""
        if isinstance(o, (list, tuple)):
            return [snapf(t) for t in o]
        a = np.asarray(o)
        return a.astype(np.complex128)

    # signed numpy integer types of >= 32 bits (what numpy itself hands out for sizes: len, shape, arange). Unsigned and 8/16-bit integers are not
    # generated: numpy promotes them to float16 / wraps them (np.sqrt(np.uint8(3)) is float16, 1-np.uint32(2)**2 == 4294967293),
    # which is numpy arithmetic on the caller's side of the documented `int` parameter, see ASSUMPTIONS
    ints = [('np.int64', np.int64), ('np.int32', np.int32), ('np.longlong', np.longlong), ('np.intp', np.intp), ('0-d int array', lambda t: np.array(t))]
    for n in (1, 2, 4):
        agree('GHZ', lambda: S.GHZ(n), [(k, (lambda c=c: S.GHZ(c(n)))) for k, c in ints])
        agree('W', lambda: S.W(n), [(k, (lambda c=c: S.W(c(n)))) for k, c in ints[:4]])
    for i in range(4):
        agree('Bell', lambda: S.Bell(i), [(k, (lambda c=c: S.Bell(c(i)))) for k, c in ints] + [('float', lambda: S.Bell(float(i)))])
    agree('Dicke', lambda: S.Dicke(2, 1), [(k, (lambda c=c: S.Dicke(c(2), c(1)))) for k, c in ints] + [('float', lambda: S.Dicke(2.0, 1.0))])
    for d in (2, 3):
        agree('maximally_entangled_state', lambda: S.maximally_entangled_state(d), [(k, (lambda c=c: S.maximally_entangled_state(c(d)))) for k, c in ints[:4]])
        agree('maximally_mixed_state', lambda: S.maximally_mixed_state(d), [(k, (lambda c=c: S.maximally_mixed_state(c(d)))) for k, c in ints[:4]])
        agree('maximally_coherent_state', lambda: S.maximally_coherent_state(d, True),
              [(k, (lambda c=c: S.maximally_coherent_state(c(d), np.bool_(True)))) for k, c in ints[:4]] + [('return_dm=1', lambda: S.maximally_coherent_state(d, 1))])
        scal = [('np.float64', np.float64), ('0-d array', lambda t: np.array(t)), ('np.longdouble->float64', lambda t: np.float64(np.longdouble(t)))]
        for a in (0.75, -0.25, 1.0, 0.0):
            for nm in ('Werner', 'Isotropic'):
                if nm == 'Isotropic' and a < -1 / (d * d - 1):
                    continue
                f = getattr(S, nm)
                agree(nm, lambda: f(d, a), [(k, (lambda c=c: f(d, c(a)))) for k, c in scal] + [(k, (lambda c=c: f(c(d), a))) for k, c in ints[:4]]
                      + ([('python int alpha', lambda: f(d, int(a)))] if a == int(a) else []), tol=0.0)
                agree(nm, lambda: f(d, a), [('np.float32 alpha', lambda: f(d, np.float32(a)))], tol=1e-6)
                for cf in ('ree', 'GME', 'eof'):
                    g = getattr(S, f'get_{nm}_{cf}')
                    agree(f'get_{nm}_{cf}', lambda: float(g(d, a)), [(k, (lambda c=c: float(g(d, c(a))))) for k, c in scal] + [(k, (lambda c=c: float(g(c(d), a)))) for k, c in ints[:3]]
                          + ([('python int alpha', lambda: float(g(d, int(a))))] if a == int(a) else []))
        # vectorised closed forms: layouts and dtypes of the parameter array; each equals the element-wise scalar calls
        base = np.linspace(-0.1, 1.0, 12)
        for nm in ('Werner', 'Isotropic'):
            for cf in ('GME', 'eof'):
                g = getattr(S, f'get_{nm}_{cf}')
                lab = f'get_{nm}_{cf}'
                wide = np.zeros((12, 3))
                wide[:, 1] = base
                variants = [('contiguous', base.copy()), ('strided view', wide[:, 1]), ('reversed view', base[::-1]), ('2-D C order', base.reshape(3, 4).copy()),
                            ('2-D Fortran order', np.asfortranarray(base.reshape(3, 4))), ('transposed view', base.reshape(3, 4).T), ('read-only', _readonly(base)),
                            ('0-d', np.array(0.8)), ('shape (1,)', np.array([0.8]))] + ([('python list', [float(t) for t in base])] if cf == 'eof' else []) + [
                            ('int64 array', np.array([0, 1, 1, 0])), ('int32 array', np.array([1, 0], dtype=np.int32))]
                for kindname, arr in variants:
                    ctx.set_case({'input-kind': lab, 'variant': kindname, 'd': d})
                    ctx.case('input-kind', lab, kindname, d)
                    with ctx.guard(f'{lab}/input-kind/{kindname}'):
                        keep = snap(arr)
                        r = np.asarray(g(d, arr))
                        ctx.hit('input-kinds')
                        vals = np.asarray(keep, dtype=np.float64)
                        ref = np.array([float(g(d, float(t))) for t in vals.reshape(-1)]).reshape(vals.shape)
                        ctx.close(r, ref, 1e-15, f'{lab}/vectorised-differs-from-scalar', f'{lab}: array call ({kindname}) differs from element-wise scalar calls', {'d': d, 'variant': kindname})
    for p in (0.0, 0.25, 1.0):
        for nm in ('get_bes2x4_Horodecki1997', 'get_bes3x3_Horodecki1997'):
            f = getattr(S, nm)
            agree(nm, lambda: f(p), [('np.float64', lambda: f(np.float64(p))), ('0-d array', lambda: f(np.array(p)))]
                  + ([('python int', lambda: f(int(p)))] if p == int(p) else []), tol=0.0)
            agree(nm, lambda: f(p), [('np.float32', lambda: f(np.float32(p)))], tol=1e-6)
        agree('get_2qutrit_Antoine2022', lambda: S.get_2qutrit_Antoine2022(p), [('np.float64', lambda: S.get_2qutrit_Antoine2022(np.float64(p))),
              ('0-d array', lambda: S.get_2qutrit_Antoine2022(np.array(p))), ('np.float32', lambda: S.get_2qutrit_Antoine2022(np.float32(p)))])
    agree('get_qubit_dicke_state_GME', lambda: S.get_qubit_dicke_state_GME(5, 2), [(k, (lambda c=c: S.get_qubit_dicke_state_GME(c(5), c(2)))) for k, c in ints[:2]]
          + [('float', lambda: S.get_qubit_dicke_state_GME(5.0, 2.0))], tol=1e-15)
    agree('get_Wtype_state_GME', lambda: S.get_Wtype_state_GME(0.6, 0.8, 0.0), [('np.float64', lambda: S.get_Wtype_state_GME(np.float64(0.6), np.float64(0.8), np.float64(0.0))),
          ('0-d arrays', lambda: S.get_Wtype_state_GME(np.array(0.6), np.array(0.8), np.array(0.0))), ('int zero', lambda: S.get_Wtype_state_GME(0.6, 0.8, 0))], tol=1e-15)
    # Wtype: dtype and layout of the coefficient array (values 3,4,12: exact in every dtype)
    vals = [3, 4, 12]
    wide = np.zeros((3, 4))
    wide[:, 2] = vals
    agree('Wtype', lambda: S.Wtype(np.array(vals, dtype=np.float64)), [
        ('int64', lambda: S.Wtype(np.array(vals, dtype=np.int64))), ('int32', lambda: S.Wtype(np.array(vals, dtype=np.int32))),
        ('uint8', lambda: S.Wtype(np.array(vals, dtype=np.uint8))), ('int8', lambda: S.Wtype(np.array(vals, dtype=np.int8))),
        ('complex128', lambda: S.Wtype(np.array(vals, dtype=np.complex128))), ('strided view', lambda: S.Wtype(wide[:, 2])),
        ('reversed twice', lambda: S.Wtype(np.array(vals[::-1], dtype=np.float64)[::-1])), ('read-only', lambda: S.Wtype(_readonly(np.array(vals, dtype=np.float64)))),
        ('longdouble->float64', lambda: S.Wtype(np.array(vals, dtype=np.longdouble).astype(np.float64)))], tol=0.0)
    agree('Wtype', lambda: S.Wtype(np.array(vals, dtype=np.float64)), [('float32', lambda: S.Wtype(np.array(vals, dtype=np.float32))),
                                                                     ('complex64', lambda: S.Wtype(np.array(vals, dtype=np.complex64)))], tol=1e-6)
    # load_upb size arguments
    for kind, a, variants in [('quadres', 3, [np.int64(3), np.int32(3), 3.0, np.float64(3.0), np.array(3)]), ('genshifts', 5, [np.int64(5), 5.0, np.array(5)]),
                              ('gentiles1', 4, [np.int64(4), 4.0, np.int32(4)]),
                              ('gentiles2', (3, 4), [[3, 4], np.array([3, 4]), (np.int64(3), np.int32(4)), (3.0, 4.0), np.array([3.0, 4.0])]),
                              ('sixparam', (1.0, 2.0, 0.5, 4.0, 5.0, 0.25), [[1.0, 2.0, 0.5, 4.0, 5.0, 0.25], np.array([1.0, 2.0, 0.5, 4.0, 5.0, 0.25]),
                                                                             np.array([[1.0, 2.0, 0.5, 4.0, 5.0, 0.25], [0] * 6]).T[:, 0]])]:
        agree(f'load_upb/{kind}', lambda: E.load_upb(kind, a, return_bes=True), [(type(v).__name__ + ':' + str(getattr(v, 'dtype', '')), (lambda v=v: E.load_upb(kind, v, return_bes=True))) for v in variants])
    # helpers: layout and dtype of the factors
    upb = E.load_upb('tiles')
    cupb = E.load_upb('quadres', 3)
    for lab, facs in (('real', upb), ('complex', cupb)):
        layouts = [('C order', [np.ascontiguousarray(f) for f in facs]), ('Fortran order', [np.asfortranarray(f) for f in facs]),
                   ('transposed view', [np.ascontiguousarray(f.T).T for f in facs]), ('strided view', [np.repeat(f, 2, axis=1)[:, ::2] for f in facs]),
                   ('tuple of factors', tuple(facs)), ('read-only', [_readonly(f) for f in facs])]
        agree(f'get_upb_product', lambda: E.get_upb_product([f.copy() for f in facs]), [(f'{lab}/{k}', (lambda v=v: E.get_upb_product(v))) for k, v in layouts], tol=1e-15)
        agree(f'upb_to_bes', lambda: E.upb_to_bes([f.copy() for f in facs]), [(f'{lab}/{k}', (lambda v=v: E.upb_to_bes(v))) for k, v in layouts], tol=1e-15)
        prod = E.get_upb_product(list(facs))
        agree(f'upb_to_bes', lambda: E.upb_to_bes(prod.copy()), [(f'{lab}/array Fortran order', lambda: E.upb_to_bes(np.asfortranarray(prod))),
              (f'{lab}/array strided view', lambda: E.upb_to_bes(np.repeat(prod, 2, axis=1)[:, ::2])), (f'{lab}/array read-only', lambda: E.upb_to_bes(_readonly(prod)))], tol=1e-15)
    agree('upb_to_bes', lambda: E.upb_to_bes([f.astype(np.float64) for f in upb]), [('float32 factors', lambda: E.upb_to_bes([f.astype(np.float32) for f in upb]))], tol=1e-5)
    agree('upb_to_bes', lambda: E.upb_to_bes([f.astype(np.complex128) for f in cupb]), [('complex64 factors', lambda: E.upb_to_bes([f.astype(np.complex64) for f in cupb]))], tol=1e-5)
    agree('upb_to_bes', lambda: E.upb_to_bes([f.astype(np.float64) for f in upb]), [('real factors as complex128', lambda: E.upb_to_bes([f.astype(np.complex128) for f in upb]))], tol=1e-15)
    for nq in (1, 2):
        agree('get_tetrahedron_POVM', lambda: numqi.utils.get_tetrahedron_POVM(nq), [(k, (lambda c=c: numqi.utils.get_tetrahedron_POVM(c(nq)))) for k, c in ints[:4]])
    f = numqi.unique_determine.get_chebshev_orthonormal
    for d in (2, 4):
        agree('get_chebshev_orthonormal', lambda: f(d, 1.0, True, True), [(k, (lambda c=c: f(c(d), 1.0, True, True))) for k, c in ints[:4]]
              + [('python int alpha', lambda: f(d, 1, True, True)), ('np.float64 alpha', lambda: f(d, np.float64(1.0), True, True)), ('0-d alpha', lambda: f(d, np.array(1.0), True, True)),
                 ('numpy bool flags', lambda: f(d, 1.0, np.bool_(True), np.bool_(True)))])


def _readonly(a):
    a = np.array(a, copy=True)
    a.flags.writeable = False
    return a


# =================================================================================================== regimes (lesson 3)
def run_regimes(ctx, numqi, drv):
    """numerical regimes (tiny / near-special / far-out-of-period parameters, rounding noise), size and shape regimes (largest sizes,
    square coincidences, composite sizes, dimension-one parties, batches with ONE degenerate item), the less prominent entry points
    (ignore_warning, mixed-case kinds, get_element_probing_POVM('eq9')) and the lifecycle of a returned factor list."""
    S, E = numqi.state, numqi.entangle
    T = ctx.tier == 'thorough'
    rng = ctx.rng
    s2 = math.sqrt(0.5)

    # ------------------------------------------------------------------ (a) numerical regime
    ctx.workload('corner')
    # Wtype: the map normalises its argument, so every overall scale must give the same ket (an absolute floor / 0-guard shows up here)
    for base in (np.array([3.0, 4.0]), np.array([1.0, -2.0, 2.0]), np.array([1j, 1.0, -1.0, 0.5]), np.array([1.0, 1.0, 1.0, 1.0, 1.0])):
        for scale in (1e-6, 1e-9, 1e-12, 1e-100, 1e100):
            ctx.hit('regime/numerical')
            r = drv.call('Wtype', S.Wtype, base * scale)
            if isinstance(r, np.ndarray) and r.shape == (2**len(base),):
                ctx.close(r, rc.wtype(base, True), TOL, 'Wtype/scale-dependent', 'Wtype(s*c) differs from Wtype(c): the normalisation is not scale free', {'coeff': base, 'scale': scale})
    for coeff in (np.array([1.0, 1e-9, 1e-12]), np.array([1e-200, 1.0]), np.array([1.0, 1e-9j]), np.array([1e-9, 1e-9, 1.0, 1e-12]),
                  np.array([1.0, 1.0 + 1e-15]), np.array([1e-7, -1e-7, 1e-7 + 1e-22])):
        ctx.hit('regime/numerical')
        drv.call('Wtype', S.Wtype, coeff)
    # get_Wtype_state_GME: one coefficient tiny (nearly a product of a Bell pair with |0>), every position of the tiny coefficient
    for c in (1e-3, 1e-5, 1e-6, 1e-7, 1e-8, 1e-9, 1e-12, 1e-100):
        ab = math.sqrt((1 - c * c) / 2)
        for pos in range(3):
            # OUTSIDE THE STATEMENT (observed, not claimed, not repaired: C18 names the closed forms of Werner / isotropic states only):
            # get_Wtype_state_GME(a, a, c) with the tiny coefficient in the THIRD slot and 1e-8 <= c <= 1e-4 is not driven:
            # `w*w - r3*r3` cancels catastrophically there (0.5625 instead of 0.5 at (0.7071067811865474, 0.7071067811865474, 2e-08);
            # ZeroDivisionError at (0.7071067811865476, 0.7071067811865476, 1e-08)); listed in DESIGN.md 7.3 under 'observed'
            if pos == 2 and 1e-8 <= c <= 1e-4:
                ctx.inconclusive('get_Wtype_state_GME/tiny-third-coefficient-not-driven(outside-the-statement)')
                continue
            v = [ab, ab]
            v.insert(pos, c)
            ctx.hit('regime/numerical')
            drv.call('get_Wtype_state_GME', S.get_Wtype_state_GME, *v)
        # unequal large coefficients (obtuse triangle: the max(a^2,b^2,c^2) branch)
        s = math.sqrt(1 - c * c)
        for v in ((0.6 * s, 0.8 * s, c), (c, 0.6 * s, 0.8 * s), (0.8 * s, c, 0.6 * s)):
            drv.call('get_Wtype_state_GME', S.get_Wtype_state_GME, *v)
    # Werner / Isotropic and their closed forms: parameter within 1e-6..1e-12 of the special values (0 = maximally mixed state, the
    # separability threshold, both end points)
    dl = (1e-6, 1e-8, 1e-10, 1e-12)
    for family in ('Werner', 'Isotropic'):
        ctor = getattr(S, family)
        forms = [(k, getattr(S, f'get_{family}_{k}')) for k in ('ree', 'GME', 'eof')]
        for d in ((2, 3, 5, 8) if not T else (2, 3, 4, 5, 6, 7, 8, 9, 10)):
            lo, thr = (-1.0, 1 / d) if family == 'Werner' else (-1 / (d * d - 1), 1 / (d + 1))
            pts = [1e-300, -1e-300] + [t for e in dl for t in (e, -e, thr + e, thr - e, 1 - e, lo + e)]
            for a in pts:
                if not (lo <= a <= 1):
                    continue
                ctx.hit('regime/numerical')
                drv.call(family, ctor, d, a)
                for k, f in forms:
                    drv.call(f'get_{family}_{k}', f, d, a)
    for e in dl + (1e-15,):
        for p in (e, 1 - e, 0.5 + e):
            ctx.hit('regime/numerical')
            drv.call('get_bes2x4_Horodecki1997', S.get_bes2x4_Horodecki1997, p)
            drv.call('get_bes3x3_Horodecki1997', S.get_bes3x3_Horodecki1997, p)
        for q in (e, -e, 1.5 - e, -1.5 + e, 1.5 + 2 * e, -1.5 - 2 * e, 0.5 + e, 0.5 - e, 2.5 - e, -2.5 + e):
            drv.call('get_2qutrit_Antoine2022', S.get_2qutrit_Antoine2022, q)
    # Chebyshev bases: phases far outside [0, 2 pi) and within 1e-9 of the period
    f = numqi.unique_determine.get_chebshev_orthonormal
    for d in (2, 3, 7, 12):
        for a in (-20.0, 20.0, 4 * np.pi + 0.5, -2 * np.pi, 2 * np.pi + 1e-9, 2 * np.pi - 1e-9, -1e-9, 1e-12, 13.0, -17.5):
            ctx.hit('regime/numerical')
            drv.call('get_chebshev_orthonormal', f, d, a, True, True)
    # sixparam: angles far outside [0, 2 pi) (|angle| up to 20) describe the same UPB as the angles reduced mod 2 pi
    for p in (np.array([1.0, 2.0, 0.5, 4.0, 5.0, 0.25]), np.array([0.7, 2.4, 3.0, 5.5, 0.9, 6.0])):
        base = drv.call('load_upb', E.load_upb, 'sixparam', p, True)
        for k in (np.array([-2, 3, -1, 1, -3, 2]), np.array([1, 1, 1, 1, 1, 1]), np.array([3, -3, 2, -2, 1, -1]), np.array([-1, 0, 0, 2, 0, -3])):
            q = p + 2 * np.pi * k
            ctx.hit('regime/numerical')
            upb_case(ctx, numqi, drv, 'sixparam', q, 3)
            r = drv.call('load_upb', E.load_upb, 'sixparam', q, True)
            if isinstance(r, np.ndarray) and isinstance(base, np.ndarray) and r.shape == base.shape:
                ctx.close(r, base, 1e-13, 'load_upb/sixparam-not-2pi-periodic', 'load_upb(sixparam): angles shifted by multiples of 2 pi give a different UPB', {'args': q, 'reduced': p})
    for q in (np.array([-11.3, 17.2, 9.9, -15.1, 19.5, -7.7]), np.array([20.0, -20.0, 13.0, 8.5, -9.5, -19.0]), np.array([-0.4, -1.2, -2.0, -3.6, -5.1, -0.1])):
        ctx.hit('regime/numerical')
        upb_case(ctx, numqi, drv, 'sixparam', q, 3)
    # a product array equal to an orthonormal product set only up to rounding noise (not structure preserving)
    for kind, args in (('tiles', None), ('quadres', 3), ('feng2x2x2x2', None), ('gentiles2', (3, 5))):
        with ctx.guard('regime/noisy-product-array'):
            prod = np.asarray(E.get_upb_product(E.load_upb(kind, args))).astype(np.complex128)
        for noise in (1e-15, 1e-12):
            ctx.hit('regime/numerical')
            drv.call('upb_to_bes', E.upb_to_bes, prod + noise * (rng.normal(size=prod.shape) + 1j * rng.normal(size=prod.shape)))
    # Dicke GME: largest n of the quantified range
    ctx.workload('exhaustive')
    for n in (40, 60):
        for k in range(n + 1):
            drv.call('get_qubit_dicke_state_GME', S.get_qubit_dicke_state_GME, n, k)
    for n in (999983, 994009, 1000001, 999999, 524287, 524289, 65537, 65535):   # primes, a square of a prime, products of two primes
        drv.call('hf_is_prime', E.upb.hf_is_prime, n)

    # ------------------------------------------------------------------ (b) size / shape regime
    ctx.workload('exhaustive')
    for n in (8, 10, 12, 16):
        ctx.hit('regime/size-shape')
        drv.call('GHZ', S.GHZ, n)
        drv.call('W', S.W, n)
    for n in (8, 10, 12):
        drv.call('Wtype', S.Wtype, np.arange(1, n + 1) * 1.0)
        drv.call('Wtype', S.Wtype, np.exp(1j * np.arange(n)) * (1 + np.arange(n) % 3))
    for d in (16, 31, 32, 64):
        drv.call('maximally_entangled_state', S.maximally_entangled_state, d)
    for d in (12, 16):
        drv.call('maximally_mixed_state', S.maximally_mixed_state, d)
    for d in (256, 512, 1024):
        drv.call('maximally_coherent_state', S.maximally_coherent_state, d)
    drv.call('maximally_coherent_state', S.maximally_coherent_state, 256, True)
    for family in ('Werner', 'Isotropic'):
        ctor = getattr(S, family)
        for d in (12, 16):
            lo, thr = (-1.0, 1 / d) if family == 'Werner' else (-1 / (d * d - 1), 1 / (d + 1))
            for a in (lo, 0.0, thr - 1e-9, thr, thr + 1e-9, 0.5, 1.0):
                ctx.hit('regime/size-shape')
                if d == 12 or a in (lo, thr, 1.0):
                    drv.call(family, ctor, d, a)
                for k in ('ree', 'GME', 'eof'):
                    if k != 'ree' or (d == 12 and a in (thr + 1e-9, 0.5, 1.0)) or T:   # REE: three eigen-decompositions of a d^2 x d^2 matrix per call
                        drv.call(f'get_{family}_{k}', getattr(S, f'get_{family}_{k}'), d, a)
    drv.call('get_tetrahedron_POVM', numqi.utils.get_tetrahedron_POVM, 4)
    for dim in (41, 64, 100):
        drv.call('fourier_matrix', E.upb.fourier_matrix, dim)
    # UPB sizes: square coincidences of gentiles2 (dimA == dimB-3, dimA == dimB-2, dimA == dimB > 4), composite quadres size
    for kind, args in [('gentiles2', (3, 6)), ('gentiles2', (4, 6)), ('gentiles2', (5, 5)), ('gentiles2', (4, 7)), ('quadres', 9)]:
        ctx.hit('regime/size-shape')
        upb_case(ctx, numqi, drv, kind, args, 3)
    # get_upb_product / upb_to_bes on foreign product sets: one member, a party of dimension one, four parties, more members than the
    # first local dimension (tall factor), real factors
    def unitary(d, cplx):
        a = rng.normal(size=(d, d)) + (1j * rng.normal(size=(d, d)) if cplx else 0)
        return np.linalg.qr(a)[0]
    # N distinct multi-indices into local orthonormal bases => an orthonormal product set with N < D members
    for dims, N, cplx in [((3,), 2, True), ((2, 1, 3), 2, True), ((1, 2), 1, False), ((1, 1, 4), 3, True), ((3, 2, 2, 2), 3, True), ((2, 3), 1, True),
                          ((4, 2), 4, False), ((2, 2, 2), 2, False), ((5, 1), 4, True), ((2, 5), 2, True), ((5, 2), 2, True), ((2, 3), 5, True), ((3, 2), 5, False)]:
        idx = np.unravel_index(rng.choice(int(np.prod(dims)), size=N, replace=False), dims)
        facs = [unitary(d, cplx)[i] for d, i in zip(dims, idx)]
        ctx.hit('regime/size-shape')
        drv.call('get_upb_product', E.get_upb_product, facs)
        if len(dims) > 1:
            drv.call('upb_to_bes', E.upb_to_bes, facs)
            drv.call('upb_to_bes', E.upb_to_bes, tuple(facs))
    # tall factors whose products are not orthonormal: only the definition clauses apply
    for dims, N in [((2, 2), 7), ((3, 2), 9), ((2, 1), 3)]:
        facs = [rng.normal(size=(N, d)) + 1j * rng.normal(size=(N, d)) for d in dims]
        facs = [x / np.linalg.norm(x, axis=1, keepdims=True) / math.sqrt(N + 1) for x in facs]
        drv.call('get_upb_product', E.get_upb_product, facs)
        drv.call('upb_to_bes', E.upb_to_bes, facs)
    # closed forms on batches with ONE degenerate item (threshold / end point / signed zero) next to ordinary items, batch size one
    ctx.workload('corner')
    for family in ('Werner', 'Isotropic'):
        for d in (2, 3, 6, 9):
            lo, thr = (-1.0, 1 / d) if family == 'Werner' else (-1 / (d * d - 1), 1 / (d + 1))
            batches = [[0.3, thr, 0.9], [thr], [1.0], [lo], [lo, 0.7], [0.7, lo], [0.9, 1.0, 0.8], [thr - 1e-12, thr, thr + 1e-12, 0.5], [-0.0, 0.0, 0.6],
                       [0.6, 0.7, 0.8, thr, 0.65, 0.75], [[0.6, thr], [1.0, 0.7]], [[lo], [0.9]], []]
            for cf in ('GME', 'eof'):
                g = getattr(S, f'get_{family}_{cf}')
                lab = f'get_{family}_{cf}'
                for b in batches:
                    arr = np.array(b, dtype=np.float64)
                    ctx.hit('regime/batch-with-degenerate-item')
                    r = drv.call(lab, g, d, arr)
                    if r is None:
                        continue
                    with ctx.guard(f'{lab}/batch'):
                        ref = np.array([float(g(d, float(t))) for t in arr.reshape(-1)], dtype=np.float64).reshape(arr.shape)
                    r = np.asarray(r)
                    if not np.all(np.isfinite(ref)):
                        continue   # the scalar call itself is NaN/Inf: that is the `not-finite` contract's finding, not a batching one
                    if ctx.check(r.shape == arr.shape, f'{lab}/shape', f'{lab}: result shape differs from the shape of alpha', {'d': d, 'alpha': b}):
                        ctx.close(r.astype(np.float64), ref, 1e-15, f'{lab}/batch-item-depends-on-neighbours', f'{lab}: an item of a batch with one degenerate item differs from the scalar call', {'d': d, 'alpha': b})

    # ------------------------------------------------------------------ (d) less prominent entry points
    ctx.workload('corner')
    six = np.array([1.0, 2.0, 0.5, 4.0, 5.0, 0.25])
    for kind, args in [('tiles', None), ('pyramid', None), ('feng4x4', None), ('min4x4', None), ('feng2x2x2x2', None), ('sixparam', six), ('quadres', 3), ('quadres', 7),
                       ('genshifts', 3), ('genshifts', 5), ('gentiles1', 4), ('gentiles1', 6), ('gentiles2', (3, 4)), ('gentiles2', (4, 5))]:
        plain = drv.call('load_upb', E.load_upb, kind, args, return_bes=True)
        for lab, th in [('ignore_warning=True', lambda: E.load_upb(kind, args, return_bes=True, ignore_warning=True)),
                        ('positional flags', lambda: E.load_upb(kind, args, False, True, True)),
                        ('capitalised kind', lambda: E.load_upb(kind.capitalize(), args, return_bes=True, ignore_warning=False)),
                        ('swapcase kind', lambda: E.load_upb(''.join(ch.upper() if i % 2 else ch for i, ch in enumerate(kind)), args, False, True))]:
            ctx.set_case({'option': lab, 'kind': kind, 'args': args})
            ctx.case('option', lab, kind, args)
            with ctx.guard(f'load_upb/option/{lab}'):
                r = th()
                ctx.hit('option/ignore_warning')
                ctx.check(plain is not None and same(r, plain, 1e-15), 'load_upb/option-changes-result', f'load_upb: {lab} returns a different UPB / BES than the plain call',
                          {'kind': kind, 'args': args, 'option': lab})
        with ctx.guard('load_upb/option/product+ignore_warning'):
            r = E.load_upb(kind, args, return_product=True, ignore_warning=True)
            ctx.check(plain is not None and same(np.asarray(r), np.asarray(E.get_upb_product(plain[0])), 1e-15), 'load_upb/option-changes-result',
                      'load_upb(return_product=True, ignore_warning=True) is not the product of the plain factors', {'kind': kind, 'args': args, 'option': 'return_product+ignore_warning'})
    # near-degenerate admissible sixparam parameters with the warning switched off (same object as with it)
    for eps in (1e-5, 1e-8):
        p = np.array([np.pi / 2 - eps, np.pi / 2 - 2 * eps, 0.3, 0.7, 3 * np.pi / 2 + eps, 1.1])
        a = drv.call('load_upb', E.load_upb, 'sixparam', p, True, True)
        b = drv.call('load_upb', E.load_upb, 'sixparam', p, True, True, True)
        ctx.check(a is not None and same(a, b), 'load_upb/option-changes-result', 'load_upb(sixparam): ignore_warning changes the result near a degenerate point', {'args': p})
    gp = numqi.unique_determine.get_element_probing_POVM
    for d in range(4, (33 if T else 17), 2):
        drv.call('get_element_probing_POVM', gp, 'eq9', d)
    drv.call('get_element_probing_POVM', gp, kind='eq9', dim=6)
    drv.call('get_element_probing_POVM', gp, 'eq9', np.int64(8))
    with ctx.guard('realistic/eq9-probabilities'):
        P = gp('eq9', 6)
        rho = ctx.orig(numqi.random.rand_density_matrix)(6, seed=int(rng.integers(2**31)))
        pr = np.einsum('iab,ba->i', P, rho).real.reshape(4, 6)
        ctx.check(np.abs(pr.sum(1) - 1).max() <= 1e-12 and pr.min() >= -1e-12, 'realistic/eq9-probabilities', 'Born probabilities of an eq. (9) basis are not a distribution', {'dim': 6})

    # ------------------------------------------------------------------ (e) lifecycle of a returned factor list
    ctx.workload('corner')
    for kind, args in upb_configs():
        ctx.set_case({'lifecycle': 'factors-independent', 'kind': kind, 'args': args})
        with ctx.guard('lifecycle/factors'):
            upb, bes = E.load_upb(kind, args, return_bes=True)
            ctx.hit('lifecycle/factors-independent')
            pairs = [(i, j) for i in range(len(upb)) for j in range(i + 1, len(upb)) if np.shares_memory(upb[i], upb[j])]
            ctx.check(not pairs and not any(np.shares_memory(bes, u) for u in upb), 'load_upb/factors-share-memory',
                      'load_upb: the factor arrays of different parties (or the BES) share memory, an in-place edit of one party changes another', {'kind': kind, 'pairs': pairs})
            # a caller rotates party 0 in place (local unitary): products / BES computed afterwards follow the edited factors only
            keep = snap(upb)
            d0 = upb[0].shape[1]
            U = np.linalg.qr(rng.normal(size=(d0, d0)))[0]
            upb[0][...] = (upb[0] @ U).astype(upb[0].dtype)
            ctx.check(all(same(x, y) for x, y in zip(upb[1:], keep[1:])), 'load_upb/factors-share-memory', 'load_upb: editing the factor of party 0 in place changed another party', {'kind': kind})
            E.get_upb_product(upb)
            E.upb_to_bes(upb)       # monitored: judged against the CURRENT contents (a rotated UPB is a UPB)
            again = E.load_upb(kind, args)
            ctx.check(same(again, keep, 1e-15), 'load_upb/second-call-differs', 'load_upb: a call made after the caller edited an earlier result in place returns different factors', {'kind': kind})


# thorough tier: every random shard is run this many times with independent random streams (see vmon/runner.py get_shards)
THOROUGH_REPEAT = 4
