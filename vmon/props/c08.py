"""C08 - Pauli encodings are faithful: conversions bijective, algebra exact (phase included).

Monitors: contracts on every conversion function and on the PauliOperator algebra, each compared with the
reference algebra in vmon/ref/pauli.py ((phase in Z4, letters) with a hand-written table, own sigma matrices).
Workloads: exhaustive phased elements and ordered pairs for n<=2 (quick) / n<=3 (thorough), random n<=12,
batched conversions, uint64 edge indices.
"""
import itertools
import numpy as np

from vmon.ref import pauli as rp

TECHNIQUE = ('runtime monitoring: contracts on every Pauli conversion and on the PauliOperator algebra against a reference (phase in Z4, letters) algebra with a hand-written multiplication table and own sigma matrices; exhaustive operands and ordered pairs')
LEVEL_TEXT = ('Exploration, exhaustive on the finite domains: all 4^(n+1) phased Paulis and all ordered pairs for n<=2 (quick) / n<=3 (thorough), all indices n<=4/6, random n<=12, uint64-edge indices below 4^31.')
RULE = ('cases = (operation, operand(s)) tuples: every phased Pauli and every ordered pair for n<=2 (quick) / n<=3 '
        '(thorough) enumerated completely, plus random operands n<=12, batched conversions and index edge values; '
        'a case is non-trivial when at least one operand is not a phase multiple of the identity; distinct by digest of '
        '(operation, F2 operands)')
EXHAUSTIVE = {'quick': True, 'thorough': True}
EXHAUSTIVE_DOMAINS = {
    'quick': ['all 4^(n+1) phased Paulis n=1,2 (16, 64)', 'all ordered pairs n=1,2 (256, 4096)', 'all 4^n indices n<=4'],
    'thorough': ['all 4^(n+1) phased Paulis n=1,2,3 (16, 64, 256)', 'all ordered pairs n=1,2,3 (256, 4096, 65536)',
                 'all 4^n indices n<=6'],
}
ASSUMPTIONS = ['F2 layout as documented in numqi: [b0,b1,x,z] with operator i^(2b0+b1) prod X^x Z^z, qubit 0 leftmost']
DECIDING = ['numqi.gate._pauli.pauli_F2_to_str', 'numqi.gate._pauli.pauli_str_to_F2', 'PauliOperator.__matmul__',
            'PauliOperator.inverse', 'PauliOperator.commutate_with', 'PauliOperator.full_matrix',
            'numqi.gate._pauli.pauli_index_to_F2', 'numqi.gate._pauli.pauli_F2_to_index',
            'numqi.gate._pauli.pauli_index_to_str', 'numqi.gate._pauli.pauli_str_to_index',
            'numqi.random._spf2.rand_pauli', 'PauliOperator.from_full_matrix']

SIGN2K = {(1, 0): 0, (0, 1): 1, (-1, 0): 2, (0, -1): 3}


def shards(tier, seed):
    ret = [{'name': 'exh-n1n2'}, {'name': 'convert'}, {'name': 'random'}]
    if tier == 'thorough':
        ret += [{'name': f'exh-n3-{i}', 'part': i, 'nparts': 12} for i in range(12)]
        ret += [{'name': 'repo-tests'}]
    return ret


def _k_of_sign(sign):
    sign = complex(sign)
    return SIGN2K.get((int(round(sign.real)), int(round(sign.imag))))


def install(ctx, numqi):
    P = numqi.gate._pauli
    PO = P.PauliOperator

    # ---------------- conversions
    def post_F2_to_str(c):
        if c.exc is not None:
            return
        np0 = np.asarray(c.args[0])
        s, sign = c.result
        rows = np0.reshape(-1, np0.shape[-1])
        if np0.ndim == 1:
            got = [(s, sign)]
        else:
            ctx.check(s.shape == np0.shape[:-1] and np.shape(sign) == np0.shape[:-1], 'F2_to_str/batch-shape',
                      'batched pauli_F2_to_str must keep the batch shape', {'in': np0.shape, 'out': np.shape(s)})
            got = list(zip(np.asarray(s).reshape(-1).tolist(), np.asarray(sign).reshape(-1).tolist()))
        for row, (gs, gsign) in zip(rows, got):
            k, ref = rp.from_f2(row)
            ctx.check(gs == ref and _k_of_sign(gsign) == k, 'F2_to_str/value',
                      'pauli_F2_to_str disagrees with the reference (letters or phase)',
                      {'F2': row, 'got': [gs, complex(gsign)], 'expected': [ref, 1j**k]})

    ctx.attach(P, 'pauli_F2_to_str', post=post_F2_to_str, immutable_args=True, normalize=True)

    def post_str_to_F2(c):
        if c.exc is not None:
            return
        ps = c.args[0]
        sign = c.arg(1, 'sign', 1)
        if isinstance(ps, str):
            items = [(ps, sign, c.result)]
        else:
            ps = np.asarray(ps)
            sg = np.broadcast_to(np.asarray(sign), ps.shape).reshape(-1)
            ctx.check(c.result.shape == ps.shape + (2 * len(ps.reshape(-1)[0]) + 2,), 'str_to_F2/batch-shape',
                      'batched pauli_str_to_F2 must keep the batch shape', {'in': ps.shape, 'out': c.result.shape})
            items = list(zip(ps.reshape(-1).tolist(), sg.tolist(), c.result.reshape(-1, c.result.shape[-1])))
        for s, sg, out in items:
            k = _k_of_sign(sg)
            if k is None:
                continue
            ref = rp.to_f2((k, s))
            ctx.check(out.dtype == np.uint8 and np.array_equal(out, ref), 'str_to_F2/value',
                      'pauli_str_to_F2 disagrees with the reference', {'str': s, 'sign': complex(sg), 'got': out, 'expected': ref})

    ctx.attach(P, 'pauli_str_to_F2', post=post_str_to_F2, immutable_args=True, normalize=True)

    def post_index_to_str(c):
        if c.exc is not None:
            return
        index, n = c.args[0], c.arg(1, 'num_qubit')
        if isinstance(index, (int, np.integer)):
            ctx.check(c.result == rp.str_of(int(index), n), 'index_to_str/value', 'pauli_index_to_str wrong',
                      {'index': int(index), 'n': n, 'got': c.result})
        else:
            idx = np.asarray(index)
            ok = c.result.shape == idx.shape
            ctx.check(ok, 'index_to_str/batch-shape', 'batch shape lost', {'in': idx.shape, 'out': c.result.shape})
            if ok:
                for i, s in zip(idx.reshape(-1).tolist(), c.result.reshape(-1).tolist()):
                    ctx.check(s == rp.str_of(int(i), n), 'index_to_str/value', 'pauli_index_to_str wrong (batched)',
                              {'index': int(i), 'n': n, 'got': s})

    ctx.attach(P, 'pauli_index_to_str', post=post_index_to_str, immutable_args=True, normalize=True)

    def post_str_to_index(c):
        if c.exc is not None:
            return
        s = c.args[0]
        if isinstance(s, str):
            ctx.check(int(c.result) == rp.index_of(s), 'str_to_index/value', 'pauli_str_to_index wrong', {'str': s, 'got': int(c.result)})
        else:
            s = np.asarray(s)
            ok = c.result.shape == s.shape
            ctx.check(ok, 'str_to_index/batch-shape', 'batch shape lost', {'in': s.shape, 'out': c.result.shape})
            if ok:
                for a, b in zip(s.reshape(-1).tolist(), c.result.reshape(-1).tolist()):
                    ctx.check(int(b) == rp.index_of(a), 'str_to_index/value', 'pauli_str_to_index wrong (batched)', {'str': a, 'got': int(b)})

    ctx.attach(P, 'pauli_str_to_index', post=post_str_to_index, immutable_args=True, normalize=True)

    def post_index_to_F2(c):
        if c.exc is not None:
            return
        index, n = c.args[0], c.arg(1, 'num_qubit')
        with_sign = c.arg(2, 'with_sign', True)
        out = np.asarray(c.result)
        if isinstance(index, (int, np.integer)) and not isinstance(index, np.ndarray):
            idx = [int(index)]
            rows = out.reshape(1, -1)
        else:
            ia = np.asarray(index)
            idx = [int(t) for t in ia.reshape(-1).tolist()]
            ok = out.shape[:-1] == ia.shape
            ctx.check(ok, 'index_to_F2/batch-shape', 'batch shape lost', {'in': ia.shape, 'out': out.shape})
            if not ok:
                return
            rows = out.reshape(-1, out.shape[-1])
        for i, row in zip(idx, rows):
            ref = rp.to_f2((0, rp.str_of(i, n)))
            if not with_sign:
                ref = ref[2:]
            ctx.check(row.shape == ref.shape and np.array_equal(row, ref), 'index_to_F2/value',
                      'pauli_index_to_F2 disagrees with the reference (+letters of that index)',
                      {'index': i, 'n': n, 'with_sign': with_sign, 'got': row, 'expected': ref})

    ctx.attach(P, 'pauli_index_to_F2', post=post_index_to_F2, immutable_args=True, normalize=True)

    def post_F2_to_index(c):
        if c.exc is not None:
            return
        np0 = np.asarray(c.args[0])
        with_sign = c.arg(1, 'with_sign', True)
        body = np0[..., 2:] if with_sign else np0
        n = body.shape[-1] // 2
        rows = body.reshape(-1, 2 * n)
        if np0.ndim == 1:
            got = [int(c.result)]
        else:
            res = np.asarray(c.result)
            ok = res.shape == np0.shape[:-1]
            ctx.check(ok, 'F2_to_index/batch-shape', 'batch shape lost', {'in': np0.shape, 'out': res.shape})
            if not ok:
                return
            got = [int(t) for t in res.reshape(-1).tolist()]
        for row, g in zip(rows, got):
            _, s = rp.from_f2(np.concatenate([[0, 0], row]))
            ctx.check(g == rp.index_of(s), 'F2_to_index/value', 'pauli_F2_to_index disagrees with the reference',
                      {'F2': row, 'got': g, 'expected': rp.index_of(s)})

    ctx.attach(P, 'pauli_F2_to_index', post=post_F2_to_index, immutable_args=True, normalize=True)

    # ---------------- algebra
    def post_matmul(c):
        if c.exc is not None:
            return
        a, b = c.args
        r = c.result
        pa, pb = rp.from_f2(a.F2), rp.from_f2(b.F2)
        ref = rp.mul(pa, pb)
        ctx.check(rp.from_f2(r.F2) == ref and r.F2.dtype == np.uint8 and set(np.unique(r.F2).tolist()) <= {0, 1},
                  'matmul/symbolic', 'A@B on the binary form disagrees with the reference algebra (letters or phase)',
                  {'A': a.F2, 'B': b.F2, 'got': r.F2, 'got_as': list(rp.from_f2(r.F2)), 'expected': list(ref)})
        if a.num_qubit <= 3:
            ma, mb = rp.f2_dense(a.F2), rp.f2_dense(b.F2)
            ctx.check(np.array_equal(rp.f2_dense(r.F2), ma @ mb), 'matmul/dense',
                      'matrix of A@B differs from the product of the matrices', {'A': a.F2, 'B': b.F2, 'got': r.F2})

    ctx.attach(PO, '__matmul__', post=post_matmul, point='PauliOperator.__matmul__')

    def post_inverse(c):
        if c.exc is not None:
            return
        a, r = c.args[0], c.result
        pa, pr = rp.from_f2(a.F2), rp.from_f2(r.F2)
        ident = (0, 'I' * a.num_qubit)
        ctx.check(rp.mul(pa, pr) == ident and rp.mul(pr, pa) == ident, 'inverse/symbolic', 'inverse() is not the inverse',
                  {'A': a.F2, 'got': r.F2})
        if a.num_qubit <= 3:
            ctx.check(np.array_equal(rp.f2_dense(a.F2) @ rp.f2_dense(r.F2), np.eye(2**a.num_qubit)), 'inverse/dense',
                      'matrix of inverse() times matrix is not the identity', {'A': a.F2, 'got': r.F2})

    ctx.attach(PO, 'inverse', post=post_inverse, point='PauliOperator.inverse')

    def post_commute(c):
        if c.exc is not None:
            return
        a, b = c.args
        ref = rp.commute(rp.from_f2(a.F2), rp.from_f2(b.F2))
        ctx.check(bool(c.result) == ref, 'commutate_with/symbolic', 'commutation flag wrong', {'A': a.F2, 'B': b.F2, 'got': bool(c.result)})
        if a.num_qubit <= 3:
            ma, mb = rp.f2_dense(a.F2), rp.f2_dense(b.F2)
            ctx.check(bool(c.result) == np.array_equal(ma @ mb, mb @ ma), 'commutate_with/dense', 'commutation flag differs from AB==BA',
                      {'A': a.F2, 'B': b.F2, 'got': bool(c.result)})

    ctx.attach(PO, 'commutate_with', post=post_commute, point='PauliOperator.commutate_with')

    def post_full_matrix(c):
        if c.exc is not None:
            return
        a = c.args[0]
        if a.num_qubit <= 6:
            m = np.asarray(c.result)
            ref = rp.f2_dense(a.F2)
            ctx.check(m.shape == ref.shape and np.array_equal(m, ref), 'full_matrix/value',
                      'full_matrix differs from i^(2b0+b1) prod X^x Z^z', {'F2': a.F2})

    ctx.attach(PO, 'full_matrix', post=post_full_matrix, point='PauliOperator.full_matrix')

    def post_sign(c):
        if c.exc is None:
            k, _ = rp.from_f2(c.args[0].F2)
            ctx.check(_k_of_sign(c.result) == k, 'sign/value', 'PauliOperator.sign wrong', {'F2': c.args[0].F2, 'got': complex(c.result)})

    ctx.attach(PO, 'sign', post=post_sign, point='PauliOperator.sign')

    def post_str_(c):
        if c.exc is None:
            _, s = rp.from_f2(c.args[0].F2)
            ctx.check(c.result == s, 'str_/value', 'PauliOperator.str_ wrong', {'F2': c.args[0].F2, 'got': c.result})

    ctx.attach(PO, 'str_', post=post_str_, point='PauliOperator.str_')

    def post_from_full_matrix(c):
        if c.exc is not None:
            return
        m = np.asarray(c.args[0])
        ctx.check(np.abs(rp.f2_dense(c.result.F2) - m).max() < 1e-7, 'from_full_matrix/value',
                  'from_full_matrix(M) does not represent M', {'got': c.result.F2})

    ctx.attach(PO, 'from_full_matrix', post=post_from_full_matrix, point='PauliOperator.from_full_matrix')

    def post_from_str(c):
        if c.exc is not None:
            return
        k = _k_of_sign(c.arg(1, 'sign', 1))
        ctx.check(rp.from_f2(c.result.F2) == (k, c.args[0]), 'from_str/value', 'from_str wrong', {'str': c.args[0], 'k': k, 'got': c.result.F2})

    ctx.attach(PO, 'from_str', post=post_from_str, point='PauliOperator.from_str')

    def post_from_index(c):
        if c.exc is not None:
            return
        index, n = c.args[0], c.arg(1, 'num_qubit')
        ctx.check(rp.from_f2(c.result.F2) == (0, rp.str_of(int(index), n)), 'from_index/value', 'from_index wrong',
                  {'index': int(index), 'n': n, 'got': c.result.F2})

    ctx.attach(PO, 'from_index', post=post_from_index, point='PauliOperator.from_index')

    def post_from_np_list(c):
        if c.exc is not None:
            return
        mats = c.args[0]
        k = _k_of_sign(c.arg(1, 'sign', 1))
        if len(mats) <= 6:
            import functools
            ref = (1j**k) * functools.reduce(np.kron, [np.asarray(m) for m in mats])
            ctx.check(np.abs(rp.f2_dense(c.result.F2) - ref).max() < 1e-9, 'from_np_list/value', 'from_np_list wrong', {'got': c.result.F2})

    ctx.attach(PO, 'from_np_list', post=post_from_np_list, point='PauliOperator.from_np_list')

    def post_rand_pauli(c):
        if c.exc is not None:
            return
        n = c.args[0] if c.args else c.kwargs['n']
        flag = c.arg(1, 'is_hermitian', None)
        r = c.result
        ok = r.F2.shape == (2 * n + 2,) and r.F2.dtype == np.uint8 and set(np.unique(r.F2).tolist()) <= {0, 1}
        ctx.check(ok, 'rand_pauli/valid', 'rand_pauli does not return a binary vector of length 2n+2', {'n': n, 'got': r.F2})
        if not ok:
            return
        herm = rp.is_hermitian(rp.from_f2(r.F2))
        if n <= 4:
            m = rp.f2_dense(r.F2)
            herm_dense = np.array_equal(m, m.conj().T)
            anti = np.array_equal(m, -m.conj().T)
            ctx.check(herm_dense == herm and (herm_dense or anti), 'rand_pauli/ref-consistency', 'reference hermiticity mismatch', {'F2': r.F2})
        if flag is not None:
            ctx.check(herm == bool(flag), 'rand_pauli/is_hermitian', 'rand_pauli(is_hermitian=flag) not honoured',
                      {'n': n, 'flag': flag, 'got': r.F2})

    ctx.attach(numqi.random._spf2, 'rand_pauli', post=post_rand_pauli)


def run(ctx, shard):
    import numqi
    install(ctx, numqi)
    P = numqi.gate
    PO = numqi.gate.PauliOperator
    name = shard['name']
    rng = ctx.rng

    def pair_case(pa, pb):
        fa, fb = rp.to_f2(pa), rp.to_f2(pb)
        ctx.set_case({'op': 'pair', 'A': list(pa), 'B': list(pb)})
        nontriv = (pa[1].strip('I') != '') or (pb[1].strip('I') != '')
        ctx.case('pair', fa, fb, nontrivial=nontriv)
        with ctx.guard('pair'):
            A, B = PO.from_F2(fa.copy()), PO.from_F2(fb.copy())
            decoded_first = bool(rng.integers(2))
            if decoded_first:  # history: the operands' lazily cached string / phase / matrices are filled before the algebra
                A.sign, A.str_, B.sign, B.str_
                if len(pa[1]) <= 3:
                    A.full_matrix, B.np_list
            C = A @ B
            A.commutate_with(B)
            # the derived (lazily cached) views of the RESULT must describe the result (monitored property accessors)
            C.sign, C.str_
            if len(pa[1]) <= 3:
                C.full_matrix

    def single_case(p, dense=True):
        f = rp.to_f2(p)
        ctx.set_case({'op': 'single', 'A': list(p)})
        ctx.case('single', f, nontrivial=p[1].strip('I') != '', sample={'op': 'single', 'pauli': list(p), 'F2': f} if rng.random() < 0.02 else None)
        with ctx.guard('single'):
            A = PO.from_F2(f.copy())
            if rng.integers(2):  # history: decode the operand (fills its cached string / phase / matrix list) before inverting it
                A.sign, A.str_, A.np_list
                if dense:
                    A.full_matrix
            Ainv = A.inverse()
            Ainv.sign, Ainv.str_  # monitored accessors on the result: must describe the inverse, not the operand
            if dense:
                mi = Ainv.full_matrix
                ctx.check(np.array_equal(mi @ rp.f2_dense(f), np.eye(2**len(p[1]))), 'inverse/full_matrix', 'full_matrix of inverse() times the operand is not the identity',
                          {'F2': f, 'inverse_F2': Ainv.F2})
            s, sign = P.pauli_F2_to_str(f)
            f2 = P.pauli_str_to_F2(s, sign)
            ctx.check(np.array_equal(f2, f), 'roundtrip/F2-str-F2', 'F2->str->F2 is not the identity', {'F2': f, 'back': f2})
            B = PO.from_str(p[1], 1j**p[0])
            ctx.check(np.array_equal(B.F2, f), 'roundtrip/from_str', 'from_str(letters, phase).F2 wrong', {'p': list(p), 'got': B.F2})
            A.sign, A.str_
            if dense:
                m = A.full_matrix
                C = PO.from_full_matrix(m)
                ctx.check(np.array_equal(C.F2, f), 'roundtrip/full_matrix', 'from_full_matrix(full_matrix) is not the identity',
                          {'F2': f, 'back': C.F2})
                # a dense matrix that was *computed* carries rounding noise (not Hermiticity-preserving); from_full_matrix accepts 1e-7
                for eps in (1e-15, 1e-12, 1e-9):
                    noise = rng.normal(size=m.shape) + 1j * rng.normal(size=m.shape)
                    C = PO.from_full_matrix(m + eps * noise)
                    ctx.check(np.array_equal(C.F2, f), 'roundtrip/full_matrix-with-rounding-noise',
                              'from_full_matrix(full_matrix + rounding noise) is not the identity', {'F2': f, 'back': C.F2, 'eps': eps})
                D = PO.from_np_list([rp.S[ch] for ch in p[1]], 1j**p[0])
                ctx.check(np.array_equal(D.F2, f), 'roundtrip/np_list', 'from_np_list wrong', {'F2': f, 'back': D.F2})
            idx = P.pauli_F2_to_index(f, with_sign=True)
            g = P.pauli_index_to_F2(int(idx), len(p[1]), with_sign=False)
            ctx.check(np.array_equal(g, f[2:]), 'roundtrip/F2-index-F2', 'F2->index->F2 is not the identity', {'F2': f, 'back': g})

    if name == 'exh-n1n2':
        ctx.workload('exhaustive')
        for n in (1, 2):
            elems = list(rp.all_elements(n))
            for p in elems:
                single_case(p)
            for pa in elems:
                for pb in elems:
                    pair_case(pa, pb)
        ctx.sample({'op': 'pair', 'A': [1, 'XY'], 'B': [3, 'ZY'], 'note': 'all ordered pairs of the 64 phased 2-qubit Paulis were multiplied'})
    elif name.startswith('exh-n3'):
        ctx.workload('exhaustive')
        elems = list(rp.all_elements(3))
        part, nparts = shard['part'], shard['nparts']
        for i, pa in enumerate(elems):
            if i % nparts != part:
                continue
            single_case(pa)
            for pb in elems:
                pair_case(pa, pb)
    elif name == 'convert':
        ctx.workload('exhaustive')
        nmax = 4 if ctx.tier == 'quick' else 6
        for n in range(1, nmax + 1):
            idx = np.arange(4**n, dtype=np.int64)
            ctx.set_case({'op': 'convert-all', 'n': n})
            ctx.case('convert-all', n)
            with ctx.guard('convert'):
                strs = P.pauli_index_to_str(idx, n)
                back = P.pauli_str_to_index(strs)
                ctx.check(np.array_equal(back.astype(np.int64), idx), 'roundtrip/index-str-index', 'index->str->index not identity', {'n': n})
                ctx.check(len(set(strs.tolist())) == 4**n, 'bijective/index_to_str', 'index->str not injective', {'n': n})
                f2 = P.pauli_index_to_F2(idx, n, with_sign=True)
                back2 = P.pauli_F2_to_index(f2, with_sign=True)
                ctx.check(np.array_equal(np.asarray(back2).astype(np.int64), idx), 'roundtrip/index-F2-index', 'index->F2->index not identity', {'n': n})
                f2ns = P.pauli_index_to_F2(idx, n, with_sign=False)
                back3 = P.pauli_F2_to_index(f2ns, with_sign=False)
                ctx.check(np.array_equal(np.asarray(back3).astype(np.int64), idx), 'roundtrip/index-F2-index', 'index->F2->index (no sign) not identity', {'n': n})
                for i in (0, 1, 4**n - 1, int(rng.integers(4**n))):
                    P.pauli_index_to_str(int(i), n)
                    P.pauli_index_to_F2(int(i), n)
                    P.pauli_index_to_F2(int(i), n, with_sign=False)
                    P.pauli_str_to_index(rp.str_of(int(i), n))
                # the python-int entry points (own helper, not the batched code): every index for n<=4, otherwise a sample biased
                # towards strings with many Y (the phase of the F2 form counts the Y letters mod 4); PauliOperator.from_index too
                if n <= 4:
                    ints = list(range(4**n))
                else:
                    ints = [int(t) for t in rng.integers(0, 4**n, size=48)]
                    ints += [rp.index_of(''.join(rng.choice(list('YYYXZI'), size=n))) for _ in range(48)]
                for i in ints:
                    fi = P.pauli_index_to_F2(i, n)
                    fb = f2[i] if n <= 4 else P.pauli_index_to_F2(np.array([i], dtype=np.int64), n)[0]
                    ctx.check(np.array_equal(fi, fb), 'batched-vs-single/index_to_F2', 'python-int index->F2 differs from the batched conversion',
                              {'n': n, 'index': i, 'single': fi, 'batched': fb})
                    op = PO.from_index(i, n)
                    ctx.check(np.array_equal(op.F2, fi) and op.str_ == rp.str_of(i, n) and op.sign == 1, 'from_index/consistent',
                              'PauliOperator.from_index(i) is not +letters(i)', {'n': n, 'index': i, 'F2': op.F2, 'str': op.str_, 'sign': op.sign})
                    if n <= 3:
                        ctx.check(np.abs(op.full_matrix - rp.f2_dense(rp.to_f2((0, rp.str_of(i, n))))).max() < 1e-12, 'from_index/dense',
                                  'PauliOperator.from_index(i).full_matrix is not the Kronecker product of the letters', {'n': n, 'index': i})
                # batched == elementwise for str/F2 conversion incl. phases, shapes (k,) and (k,l)
                for shape in [(5,), (3, 4), (1,), (2, 1, 3)]:
                    ii = rng.integers(0, 4**n, size=shape)
                    kk = rng.integers(0, 4, size=shape)
                    ss = P.pauli_index_to_str(ii, n)
                    F = P.pauli_str_to_F2(ss, 1j**kk)
                    s2, sg2 = P.pauli_F2_to_str(F)
                    ctx.check(np.array_equal(s2, ss) and np.array_equal(np.round(sg2 / (1j**kk)), np.ones(shape)), 'roundtrip/batched-str-F2-str',
                              'batched str->F2->str not identity', {'n': n, 'shape': shape})
                    P.pauli_F2_to_index(F, with_sign=True)
                    P.pauli_index_to_F2(ii, n)
                    # numpy-int scalars and python ints
                    P.pauli_index_to_F2(ii.reshape(-1)[:2].astype(np.uint64), n)
        # large n: index edge values (uint64 edge)
        ctx.workload('corner')
        for n in (16, 20, 31, 32):
            # the property claims index values up to 4^31 (=2^62): for n=32 only indices below that bound are driven
            # (batched pauli_F2_to_index returns int64 and wraps for indices >= 2^63: outside the claim, see DESIGN.md)
            top = min(4**n, 4**31)
            edge = [0, 1, 2, 3, top - 1, top - 2, top // 4, top // 4 - 1, 3 * (top // 4), (top - 1) // 3, 2 * (top - 1) // 3]
            edge += [int(rng.integers(0, 2**62)) % top for _ in range(20)]
            ctx.set_case({'op': 'edge-index', 'n': n})
            ctx.case('edge-index', n)
            with ctx.guard('edge'):
                arr = np.array(edge, dtype=np.uint64)
                strs = P.pauli_index_to_str(arr, n)
                back = P.pauli_str_to_index(strs)
                ctx.check(np.array_equal(back, arr), 'roundtrip/index-str-index', 'edge index->str->index not identity', {'n': n})
                F = P.pauli_index_to_F2(arr, n, with_sign=True)
                b2 = P.pauli_F2_to_index(F, with_sign=True)
                ctx.check([int(t) for t in np.asarray(b2).tolist()] == edge, 'roundtrip/index-F2-index', 'edge index->F2->index not identity',
                          {'n': n, 'got': [int(t) for t in np.asarray(b2).tolist()][:4]})
                for e in edge[:8]:
                    f1 = P.pauli_index_to_F2(int(e), n, with_sign=True)
                    e1 = P.pauli_F2_to_index(f1, with_sign=True)
                    ctx.check(int(e1) == e, 'roundtrip/index-F2-index', 'edge python-int index->F2->index not identity', {'n': n, 'e': e})
    elif name == 'repo-tests':
        from vmon.repotests import run_repo_tests
        run_repo_tests(ctx, ['test_gate.py', 'tests_sim/test_sim_clifford.py'])
    elif name == 'random':
        ctx.workload('random')
        N = 400 if ctx.tier == 'quick' else 4000
        for it in range(N):
            n = int(rng.integers(1, 13))
            pa = (int(rng.integers(4)), ''.join(rng.choice(list('IXYZ'), size=n)))
            pb = (int(rng.integers(4)), ''.join(rng.choice(list('IXYZ'), size=n)))
            single_case(pa, dense=(n <= 5))
            pair_case(pa, pb)
        ctx.workload('realistic')
        for it in range(200 if ctx.tier == 'quick' else 2000):
            n = int(rng.integers(1, 9))
            # the flag in every form the function's own validation (`is_hermitian in {None,True,False}`) accepts
            flag = [None, True, False, np.True_, np.False_, 1, 0][it % 7]
            ctx.set_case({'op': 'rand_pauli', 'n': n, 'flag': repr(flag), 'seed': it})
            with ctx.guard('rand_pauli'):
                if it % 2:
                    r = numqi.random.rand_pauli(n, is_hermitian=flag, seed=int(rng.integers(2**31)))
                else:
                    r = numqi.random.rand_pauli(n, flag, int(rng.integers(2**31)))  # positional, documented order (n, is_hermitian, seed)
                ctx.case('rand_pauli', r.F2, flag)
                # associativity on library-produced operands
                a = numqi.random.rand_pauli(n, seed=int(rng.integers(2**31)))
                b = numqi.random.rand_pauli(n, seed=int(rng.integers(2**31)))
                l = (r @ a) @ b
                rr = r @ (a @ b)
                ctx.check(np.array_equal(l.F2, rr.F2), 'matmul/associative', 'PauliOperator product not associative', {'r': r.F2, 'a': a.F2, 'b': b.F2})


# thorough tier: every random shard is run this many times with independent random streams (see vmon/runner.py get_shards)
THOROUGH_REPEAT = 4
