"""C14 - finite-group Cayley tables are groups; left-regular form, irreps; partition / Young-tableau counts exact.

Monitors: postconditions on every get_*_cayley_table, cayley_table_to_left_regular_form, reduce_group_representation
(every recursion level), get_sym_group_num_irrep, get_sym_group_young_diagram, get_all_young_tableaux, get_hook_length
(+ get_young_diagram_transpose / get_young_diagram_mask), evaluated with the integer references in vmon/ref/fingroup.py
(axioms over all pairs/triples, conjugacy classes, independently constructed named groups for isomorphism invariants)
and vmon/ref/young.py (three partition recurrences, hook lengths from the definition, corner-removal tableau count).
Workloads: every constructible table in the stated range, tensor products of irreps as further inputs of the reduction,
all N for the partition functions, all shapes for the tableaux, symext as the realistic consumer, repo tests (thorough).
Regimes / less prominent entry points (shard `histories`, function _regimes; symext shard): left-regular forms that are exact only up
to rounding noise (1e-15..3e-11, not symmetry preserving) or conjugated by a random unitary / orthogonal matrix, hook counts and
partition counts around 2^53 and 2^63, and relational checks of every other public function of the anchored files that consumes the
machinery: to_unitary_representation, matrix_block_diagonal, get_character_and_class (row / column orthogonality), hf_Euler_totient,
hf_is_prime, get_index_cayley_table + group_algebra_product, permutation_to_cycle_notation, check_young_diagram,
young_tableau_to_young_symmetrizer (e*e = (N!/f) e in the group algebra), symext irrep bases (orthonormal and complete).
"""
import math
import os
import numpy as np

from vmon.ref import fingroup as rf
from vmon.ref import young as ry

RULE = ('group cases = (constructor, parameter): the table is built by numqi, checked against all axioms over ALL element '
        'pairs and triples, turned into its left-regular form and reduced to irreps, all under contracts; non-trivial when the '
        'group order is >= 2; distinct by digest of (constructor, parameter, table). Representation cases = tensor products '
        'of two irreps fed back to reduce_group_representation (non-trivial when the product has dimension >= 2). Partition '
        'cases = N (count, full table, diagram list), non-trivial for N >= 2. Tableau cases = a Young diagram: all its standard '
        'tableaux enumerated by numqi and each one checked; non-trivial when the shape has >= 2 rows and >= 2 columns '
        '(otherwise exactly one tableau); distinct by shape. History cases (shard histories, ONE process): A_n requested BEFORE '
        'S_n for n=5..2 (the other shards do S_n first), dihedral/cyclic/multiplicative of the same n interleaved downwards, every '
        'constructor repeated at the end and compared with its first result; every array-returning function called, its result '
        'edited in place by the caller, and called again; refilled work buffers (table, representation, shape); the same table / '
        'representation / shape as int32, float64, complex128, Fortran, strided and transposed views, lists and tuples, numpy-integer '
        'parameters; every contract snapshots its array arguments and reports <fn>/mutates-argument. API-form cases (shard api-forms): every '
        'monitored function positionally vs by keyword, defaults passed explicitly, flags as bool / np.bool_ / 0 / 1, sizes as python / numpy '
        'integers, smallest admissible (S2, A2, D3, C2, (Z/3)*, N=1, shape (1,)) and largest quick sizes; exact equality between the forms; '
        'the parameter order of the shipped API is pinned (SIGNATURES). Regime cases (shard histories): (group, noise level / random rotation) '
        'of the left-regular form, reduced and compared with the reduction of the exact form; hook shapes (k,k) and (2,)*k with counts around '
        '2^53 / 2^63, N=299, 300 for the partition count. Entry-point cases: (group, random invertible change of basis) for '
        'to_unitary_representation, direct sums with multiplicities for matrix_block_diagonal, random (batched) group-algebra vectors, all '
        'permutations of n<=5 for the cycle notation, every standard tableau of every shape N<=4 (N<=5 thorough) for the Young symmetrizer')
EXHAUSTIVE = {'quick': True, 'thorough': True}
EXHAUSTIVE_DOMAINS = {
    'quick': ['tables S2..S4, A2..A4, D3..D8, C2..C12, (Z/n)* n=3..24, V4, Q8: all N^2 pairs and N^3 triples each',
              'partition counts N=1..60 (full table for each), diagram lists N=1..30 (5604 rows at N=30)',
              'all 138 Young diagrams with N<=10: every standard tableau (9496 at N=10) checked; sum f^2 = N!'],
    'thorough': ['tables S2..S5, A2..A5, D3..D60, C2..C120, (Z/n)* n=3..255 with phi(n)<=120, V4, Q8 (every order <=120): '
                 'all N^2 pairs and N^3 triples each (1,728,000 triples for S5); irreps for S2..S5, A2..A5, D3..D12, C2..C12, '
                 '(Z/n)* n<=24, V4, Q8',
                 'partition counts N=1..120 (full table for each), diagram lists N=1..40 (37338 rows at N=40)',
                 'all 507 Young diagrams with N<=14: every standard tableau (2390480 at N=14) checked; sum f^2 = N!'],
}
ASSUMPTIONS = ['a Cayley table is t[a,b] = index of a*b; no element labelling or composition convention is assumed beyond that '
               '(the opposite group of a group is a group)',
               'tableau entries are 0..N-1 (numqi convention), cells outside the diagram are padded with 0',
               'irrep checks are numerical: unitarity / homomorphism / character orthogonality to 1e-7 / 1e-6',
               'get_hook_length returns the NUMBER of standard tableaux N!/prod(hooks) (its documented test values), not the hooks']
DECIDING = ['numqi.group._symmetric.get_symmetric_group_cayley_table', 'numqi.group._internal.get_klein_four_group_cayley_table',
            'numqi.group._internal.get_dihedral_group_cayley_table', 'numqi.group._internal.get_cyclic_group_cayley_table',
            'numqi.group._internal.get_multiplicative_group_cayley_table', 'numqi.group._internal.get_quaternion_cayley_table',
            'numqi.group._internal.cayley_table_to_left_regular_form', 'numqi.group._internal.reduce_group_representation',
            'numqi.group._symmetric.get_sym_group_num_irrep', 'numqi.group._symmetric.get_sym_group_young_diagram',
            'numqi.group._symmetric.get_all_young_tableaux', 'numqi.group._symmetric.get_hook_length',
            'reduce/regular-representation-with-known-table', 'reduce/certified-representation-of-known-group',
            'workload/sum-f2==N!', 'workload/history', 'workload/api-forms', 'workload/regimes', 'workload/entry-points']
TECHNIQUE = ('postconditions on the real group/partition/tableau functions against integer-exact references (all-triples '
             'associativity, conjugacy classes, independently built S_n/A_n/D_n/C_n/(Z/n)*/V4/Q8 for isomorphism invariants, '
             'three partition recurrences, hook lengths from the definition, corner-removal tableau count)')
LEVEL_TEXT = 'runtime monitoring; all constructible tables of order <=120 and all shapes N<=10 (quick) / N<=14 (thorough) enumerated'
LEVEL_NOTE = 'tables of order >120 (S6, A6) and diagram lists N>40 are out of reach of the complete checks'

TOL_U = 1e-7     # unitarity / homomorphism (DESIGN: 1e-7)
TOL_CHI = 1e-6   # character inner products
MAX_TABLE = 256  # associativity over all triples up to this order

# parameter order of the shipped API (docstring "Parameters:" sections), pinned as the specification for positional calls
SIGNATURES = {
    '_symmetric.get_symmetric_group_cayley_table': ['n', 'alternating'], '_internal.get_klein_four_group_cayley_table': [],
    '_internal.get_dihedral_group_cayley_table': ['n'], '_internal.get_cyclic_group_cayley_table': ['n'],
    '_internal.get_multiplicative_group_cayley_table': ['n'], '_internal.get_quaternion_cayley_table': [],
    '_internal.cayley_table_to_left_regular_form': ['index_tuple'], '_internal.reduce_group_representation': ['np0', 'zero_eps'],
    '_internal.get_character_and_class': ['irrep_list', 'zero_eps'],
    '_symmetric.get_sym_group_num_irrep': ['N', 'return_full'], '_symmetric.get_sym_group_young_diagram': ['N'],
    '_symmetric.get_all_young_tableaux': ['young', 'check'], '_symmetric.get_hook_length': ['*int_tuple', 'check'],
    '_symmetric.get_young_diagram_transpose': ['np0', 'check'], '_symmetric.get_young_diagram_mask': ['young', 'check'],
}

GHOST = {'table': None}   # producer-registered certificate: "the next representation is one of the group with this table"


def shards(tier, seed):
    ret = [{'name': 'table-S5'}, {'name': 'table-A5'}, {'name': 'tables'}, {'name': 'partitions'}, {'name': 'tableaux'},
           {'name': 'symext'}, {'name': 'histories'}, {'name': 'api-forms'}]
    if tier == 'thorough':
        ret = [{'name': 'tableaux-N14', 'timeout_s': 3600}, {'name': 'tableaux-N13'}, {'name': 'partitions-large'}, {'name': 'tableaux-N12'}, {'name': 'repo-tests'},
               {'name': 'tables-large-dihedral'}, {'name': 'tables-large-cyclic'}, {'name': 'tables-large-multiplicative'},
               {'name': 'tableaux-N11'}, {'name': 'tableaux-N10'}] + ret
    return ret


def _snap(a):
    """value snapshot of an argument at call time"""
    if isinstance(a, np.ndarray):
        return np.array(a, copy=True, order='C')
    if isinstance(a, list):
        return [_snap(x) for x in a]
    return a


def _unchanged(cur, snp):
    if isinstance(snp, np.ndarray):
        return isinstance(cur, np.ndarray) and cur.shape == snp.shape and cur.dtype == snp.dtype and np.array_equal(cur, snp)
    if isinstance(snp, list):
        return isinstance(cur, list) and len(cur) == len(snp) and all(_unchanged(a, b) if isinstance(b, (np.ndarray, list)) else a == b
                                                                       for a, b in zip(cur, snp))
    return True


# ============================================================================================ monitors
def install(ctx, numqi):
    import inspect
    GI = numqi.group._internal
    GS = numqi.group._symmetric
    state = {'depth': 0, 'table': None}
    for full, expected in SIGNATURES.items():
        modname, fname = full.split('.')
        f = getattr(getattr(numqi.group, modname), fname)
        got = [('*' + q.name) if q.kind is q.VAR_POSITIONAL else q.name for q in inspect.signature(f).parameters.values()]
        ctx.check(got == expected, f'{fname}/signature-changed', f'parameter order of {fname} differs from the documented one (positional callers break)',
                  {'got': got, 'documented': expected})
    ref_inv_cache = {}
    worst = ctx.extra.setdefault('worst', {'unitarity': 0.0, 'homomorphism': 0.0, 'character_gram': 0.0, 'decomposition': 0.0})

    def arg_unmodified(fn, name, cur, snp):
        """(3) a monitored function must not modify its array / list arguments (one evaluation per call)"""
        if isinstance(snp, (np.ndarray, list)):
            if _unchanged(cur, snp):
                ctx.evaluations += 1
            else:
                ctx.check(False, f'{fn}/mutates-argument', f'{fn} modified its argument {name} in place',
                          {'argument': name, 'before': snp, 'after': cur})

    def ref_invariants(kind, args, fn):
        k = (kind,) + tuple(args)
        if k not in ref_inv_cache:
            ref_inv_cache[k] = rf.invariants(fn())
        return ref_inv_cache[k]

    # ---------------------------------------------------------------- Cayley tables
    def check_table(t, kind, args, expected_order, ref_fn):
        desc = {'constructor': kind, 'args': list(args)}
        ok = isinstance(t, np.ndarray) and t.ndim == 2 and t.dtype == np.int64
        ctx.check(ok, f'table/{kind}/shape-dtype', 'Cayley table must be a 2-d int64 array', {**desc, 'got': repr(type(t)), 'shape': np.shape(t)})
        if not ok:
            return
        ctx.check(t.shape == (expected_order, expected_order), f'table/{kind}/order', 'table does not have the stated group order',
                  {**desc, 'shape': list(t.shape), 'expected_order': expected_order})
        if t.shape[0] > MAX_TABLE:
            ctx.inconclusive(f'table of order > {MAX_TABLE}: associativity not enumerated')
            return
        rep = rf.table_report(t, MAX_TABLE)
        ctx.check(rep['ok'], f"table/{kind}/not-a-group/{rep['failed']}", f"table violates the group axioms ({rep['failed']})",
                  {**desc, 'detail': rep['detail'], 'table': t})
        if rep['ok'] and t.shape[0] == expected_order:
            got = rf.invariants(t)
            exp = ref_invariants(kind, args, ref_fn)
            ctx.check(got == exp, f'table/{kind}/wrong-group', 'group of the right order but not isomorphic to the named group '
                      '(element orders / class sizes / centre differ from the independently built reference)',
                      {**desc, 'got': got, 'expected': exp})

    def post_sym(c):
        if c.exc is not None:
            return
        n = int(c.arg(0, 'n'))
        alt = bool(c.arg(1, 'alternating', False))
        kind = 'alternating' if alt else 'symmetric'
        order = math.factorial(n) // (2 if alt else 1)
        if n > 5:
            ctx.inconclusive('symmetric/alternating table with n>5: not checked (order > 256 or reference too slow)')
            return
        check_table(c.result, kind, (n,), order, lambda: rf.ref_symmetric(n, alt))

    ctx.attach(GS, 'get_symmetric_group_cayley_table', post=post_sym)

    def post_dihedral(c):
        if c.exc is None:
            n = int(c.arg(0, 'n'))
            check_table(c.result, 'dihedral', (n,), 2 * n, lambda: rf.ref_dihedral(n))

    ctx.attach(GI, 'get_dihedral_group_cayley_table', post=post_dihedral)

    def post_cyclic(c):
        if c.exc is None:
            n = int(c.arg(0, 'n'))
            check_table(c.result, 'cyclic', (n,), n, lambda: rf.ref_cyclic(n))

    ctx.attach(GI, 'get_cyclic_group_cayley_table', post=post_cyclic)

    def post_mult(c):
        if c.exc is None:
            n = int(c.arg(0, 'n'))
            check_table(c.result, 'multiplicative', (n,), rf.euler_phi(n), lambda: rf.ref_multiplicative(n))

    ctx.attach(GI, 'get_multiplicative_group_cayley_table', post=post_mult)

    def post_klein(c):
        if c.exc is None:
            check_table(c.result, 'klein', (), 4, rf.ref_klein)

    ctx.attach(GI, 'get_klein_four_group_cayley_table', post=post_klein)

    def post_quaternion(c):
        if c.exc is None:
            check_table(c.result, 'quaternion', (), 8, rf.ref_quaternion)

    ctx.attach(GI, 'get_quaternion_cayley_table', post=post_quaternion)

    # ---------------------------------------------------------------- left regular form
    def pre_left_regular(c):
        return _snap(c.arg(0, 'index_tuple'))

    def post_left_regular(c):
        arg_unmodified('left_regular', 'index_tuple', c.arg(0, 'index_tuple'), c.snap)
        if c.exc is not None:
            return
        try:
            t = np.asarray(c.snap if isinstance(c.snap, (np.ndarray, list)) else c.arg(0, 'index_tuple'))   # call-time contents
        except Exception:
            t = None
        if t is None or t.ndim != 2 or t.shape[0] > MAX_TABLE or not rf.table_report(t, MAX_TABLE)['ok']:
            ctx.hit('left_regular/inadmissible-or-unchecked-argument')
            return
        t = t.astype(np.int64)
        N = len(t)
        L = c.result
        ok = isinstance(L, np.ndarray) and L.shape == (N, N, N) and L.dtype == np.int64
        ctx.check(ok, 'left_regular/shape-dtype', 'left regular form must be an (N,N,N) int64 array', {'N': N, 'shape': np.shape(L)})
        if not ok:
            return
        p = rf.perm_of_matrices(L)
        ctx.check(p is not None, 'left_regular/not-permutation-matrices', 'some L[a] is not a permutation matrix', {'N': N})
        ctx.check(np.array_equal(L, rf.left_regular(t)), 'left_regular/definition', 'L[a] e_b != e_{a*b} for some a,b', {'N': N, 'table': t})
        if p is None:
            return
        bad = np.argwhere(p[:, p] != p[t])
        ctx.check(len(bad) == 0, 'left_regular/not-homomorphism', 'L[a] L[b] != L[a*b] for some pair (permutation composition)',
                  lambda: {'N': N, 'pair': bad[0][:2].tolist(), 'n_bad': int(len(bad)), 'table': t})
        ctx.check(len({row.tobytes() for row in p}) == N, 'left_regular/not-faithful', 'two group elements have the same matrix', {'N': N})
        ctx.check(np.array_equal(p[rf.identity_of(t)], np.arange(N)), 'left_regular/identity', 'L[e] is not the identity matrix', {'N': N})

    ctx.attach(GI, 'cayley_table_to_left_regular_form', pre=pre_left_regular, post=post_left_regular)

    # ---------------------------------------------------------------- reduction into irreps
    def is_hom(rep, t, tol):
        prod = np.einsum('aij,bjk->abik', rep, rep)
        return float(np.abs(prod - rep[t]).max())

    def pre_reduce(c):
        d = state['depth']
        state['depth'] += 1
        np0 = c.arg(0, 'np0')
        snap = {'depth': d, 'np0': _snap(np0) if isinstance(np0, np.ndarray) and np0.size <= 4_000_000 else None}
        if d == 0:
            state['table'] = None
            state['regular'] = False
            if isinstance(np0, np.ndarray) and np0.ndim == 3 and np0.shape[1] == np0.shape[2]:
                N = np0.shape[0]
                if np0.shape[1] == N and N <= MAX_TABLE:
                    t = rf.table_from_regular(np0)
                    if t is not None and rf.table_report(t, MAX_TABLE)['ok'] and np.array_equal(np0, rf.left_regular(t)):
                        state['table'] = t
                        state['regular'] = True
                        ctx.hit('reduce/regular-representation-with-known-table')
                gt = GHOST['table']
                if state['table'] is None and gt is not None and len(gt) == N and N * N * np0.shape[1]**2 <= 4e7:
                    x = np0.astype(np.complex128)
                    uni = float(np.abs(np.einsum('aji,ajk->aik', x.conj(), x) - np.eye(x.shape[1])).max())
                    if uni <= 1e-9 and is_hom(x, gt, 1e-9) <= 1e-9:
                        state['table'] = gt
                        state['regular'] = False
                        ctx.hit('reduce/certified-representation-of-known-group')
        return snap

    def post_reduce(c):
        state['depth'] -= 1
        depth = c.snap['depth'] if c.snap is not None else 0
        np0 = c.arg(0, 'np0')
        if c.snap is not None and c.snap['np0'] is not None:
            arg_unmodified('reduce', 'np0', np0, c.snap['np0'])
            np0 = c.snap['np0']   # judged against the call-time contents
        if c.exc is not None:
            return
        if not (isinstance(np0, np.ndarray) and np0.ndim == 3 and np0.shape[1] == np0.shape[2]):
            return
        N, dim = np0.shape[0], np0.shape[1]
        t = state['table']
        info = {'N': N, 'input_dim': dim, 'depth': depth}
        ret = c.result
        ok = isinstance(ret, list) and len(ret) > 0 and all(
            isinstance(x, np.ndarray) and x.ndim == 3 and x.shape[0] == N and x.shape[1] == x.shape[2] and x.shape[1] >= 1 for x in ret)
        ctx.check(ok, 'irrep/shape', 'result must be a non-empty list of (N,d,d) arrays', {**info, 'got': [np.shape(x) for x in ret] if isinstance(ret, list) else repr(type(ret))})
        if not ok:
            return
        if t is None:
            ctx.hit('reduce/representation-of-unknown-group' if depth == 0 else 'reduce/nested-unknown-group')
        dims = [x.shape[1] for x in ret]
        info['dims'] = dims
        chars = []
        for x in ret:
            xc = x.astype(np.complex128)
            d = xc.shape[1]
            e_u = float(np.abs(np.einsum('aji,ajk->aik', xc.conj(), xc) - np.eye(d)).max())
            worst['unitarity'] = max(worst['unitarity'], e_u)
            ctx.check(e_u <= TOL_U, 'irrep/not-unitary', 'an extracted block is not unitary', {**info, 'd': d, 'err': e_u})
            if t is not None:
                e_h = is_hom(xc, t, TOL_U)
                worst['homomorphism'] = max(worst['homomorphism'], e_h)
                ctx.check(e_h <= TOL_U, 'irrep/not-homomorphism', 'an extracted block is not a homomorphism D(a)D(b)=D(ab) of the table',
                          {**info, 'd': d, 'err': e_h})
            chars.append(np.trace(xc, axis1=1, axis2=2))
        if isinstance(c.arg(0, 'np0'), np.ndarray) and len(ret) > 1:
            # a returned block may be the argument itself only when nothing was reduced ([np0]); otherwise it must not
            # share memory with the caller's array (editing the result would edit the representation)
            ctx.check(not any(np.may_share_memory(x, c.arg(0, 'np0')) for x in ret), 'irrep/result-aliases-argument',
                      'a returned irrep block shares memory with the input representation', info)
        chars = np.stack(chars)
        gram = chars @ chars.conj().T / N
        diag_err = float(np.abs(np.diag(gram) - 1).max())
        off = gram - np.diag(np.diag(gram))
        off_err = float(np.abs(off).max()) if len(ret) > 1 else 0.0
        worst['character_gram'] = max(worst['character_gram'], diag_err, off_err)
        ctx.check(diag_err <= TOL_CHI, 'irrep/reducible', 'a returned block is not irreducible (<chi,chi> != 1)',
                  {**info, 'chi_norms': np.diag(gram).real})
        ctx.check(off_err <= TOL_CHI, 'irrep/equivalent-pair', 'two returned blocks are not inequivalent (<chi_i,chi_j> != 0)',
                  {**info, 'max_offdiag': off_err})
        # completeness: the input character must decompose into the returned ones with non-negative integer multiplicities
        chi_in = np.trace(np0.astype(np.complex128), axis1=1, axis2=2)
        mult = chars.conj() @ chi_in / N
        mr = np.round(mult.real)
        dec_err = max(float(np.abs(mult - mr).max()), float(np.abs(chi_in - mr @ chars).max()))
        worst['decomposition'] = max(worst['decomposition'], dec_err)
        ctx.check(dec_err <= TOL_CHI * max(1, dim) and bool(np.all(mr >= 1)) and int(round(float(mr @ np.array(dims)))) == dim,
                  'irrep/incomplete-decomposition', 'the input character is not sum_i m_i chi_i with integer m_i>=1 over the returned blocks '
                  '(a constituent is missing, or a block is not a constituent)', {**info, 'multiplicities': mult})
        if t is not None and depth == 0 and state.get('regular'):
            ctx.check(sum(d * d for d in dims) == N, 'irrep/sum-dim2!=order', 'squared irrep dimensions do not sum to the group order',
                      {**info, 'sum_d2': sum(d * d for d in dims)})
            ncls = len(rf.conjugacy_classes(t))
            ctx.check(len(ret) == ncls, 'irrep/count!=classes', 'number of irreps differs from the number of conjugacy classes (reference)',
                      {**info, 'n_irrep': len(ret), 'n_classes': ncls})

    ctx.attach(GI, 'reduce_group_representation', pre=pre_reduce, post=post_reduce)

    # ---------------------------------------------------------------- partitions
    def post_num_irrep(c):
        if c.exc is not None:
            return
        N = int(c.arg(0, 'N'))
        full = bool(c.arg(1, 'return_full', False))
        if N > 400:
            ctx.hit('num_irrep/unchecked-large-N')
            return
        r = c.result
        val, tab = (r if full and isinstance(r, tuple) and len(r) == 2 else (r, None))
        exp = ry.partition_count(N)
        ctx.check(isinstance(val, (int, np.integer)) and int(val) == exp, 'num_irrep/value',
                  'number of irreps of S_N differs from the number of partitions of N', {'N': N, 'got': repr(val)[:80], 'expected': exp})
        if full:
            ok = isinstance(tab, np.ndarray) and tab.shape == (N + 1, N + 1)
            ctx.check(ok, 'num_irrep/full-table-shape', 'return_full must give an (N+1,N+1) table', {'N': N, 'shape': np.shape(tab)})
            if ok:
                ref = np.array(ry.partition_count_table(N), dtype=object)
                got = np.asarray(tab).astype(object)
                bad = np.argwhere(got[:, 1:] != ref[:, 1:])
                ctx.check(len(bad) == 0, 'num_irrep/full-table', 'table entry [n,m] (m>=1) is not the number of partitions of n into parts <= m',
                          lambda: {'N': N, 'n': int(bad[0][0]), 'm': int(bad[0][1]) + 1, 'got': int(got[bad[0][0], bad[0][1] + 1]),
                                   'expected': int(ref[bad[0][0], bad[0][1] + 1]), 'n_bad': int(len(bad))})

    ctx.attach(GS, 'get_sym_group_num_irrep', post=post_num_irrep)

    def post_young_diagram(c):
        if c.exc is not None:
            return
        N = int(c.arg(0, 'N'))
        if N > 50:
            ctx.hit('young_diagram/unchecked-large-N')
            return
        r = c.result
        exp_n = ry.partition_count(N)
        ok = isinstance(r, np.ndarray) and r.ndim == 2 and r.shape == (exp_n, N) and r.dtype == np.int64
        ctx.check(ok, 'young_diagram/shape', 'diagram list must be a (p(N),N) int64 array', {'N': N, 'shape': np.shape(r), 'p(N)': exp_n})
        if not (isinstance(r, np.ndarray) and r.ndim == 2 and r.shape[1] == N):
            return
        part_ok = bool(np.all(r >= 0)) and bool(np.all(r.sum(axis=1) == N)) and bool(np.all(r[:, :-1] >= r[:, 1:])) and bool(np.all(r[:, 0] >= 1))
        ctx.check(part_ok, 'young_diagram/not-partition', 'a row is not a non-increasing non-negative sequence summing to N', {'N': N})
        rows = [tuple(int(y) for y in x if y > 0) for x in r.tolist()]
        ctx.check(len(set(rows)) == len(rows), 'young_diagram/duplicates', 'a diagram is listed twice', {'N': N, 'rows': len(rows), 'distinct': len(set(rows))})
        ref = set(ry.partitions(N))
        ctx.check(set(rows) == ref, 'young_diagram/set!=partitions', 'the diagram list is not exactly the set of partitions of N',
                  lambda: {'N': N, 'missing': sorted(ref - set(rows))[:3], 'extra': sorted(set(rows) - ref)[:3]})

    ctx.attach(GS, 'get_sym_group_young_diagram', post=post_young_diagram)

    # ---------------------------------------------------------------- tableaux / hook length
    def shape_mask(shape):
        return np.array([[j < r for j in range(shape[0])] for r in shape], dtype=bool)

    def pre_arg0(c):
        a = c.args[0] if c.args else (c.kwargs.get('young', c.kwargs.get('np0')))
        return _snap(a)

    def post_tableaux(c):
        arg_unmodified('tableaux', 'young', c.arg(0, 'young'), c.snap)
        if c.exc is not None:
            return
        try:
            shape = tuple(int(x) for x in np.asarray(c.snap if isinstance(c.snap, (np.ndarray, list)) else c.arg(0, 'young')).reshape(-1).tolist())
        except Exception:
            shape = ()
        if not shape or not ry.is_partition(shape):
            ctx.hit('tableaux/inadmissible-argument')
            return
        f = ry.syt_count_hook(shape)
        if f > 3_000_000:
            ctx.hit('tableaux/unchecked-too-many')
            return
        N = sum(shape)
        z = c.result
        ok = isinstance(z, np.ndarray) and z.ndim == 3 and z.shape[1:] == (len(shape), shape[0]) and z.dtype.kind in 'iu'
        ctx.check(ok, 'tableaux/shape', 'result must be (#tableaux, rows, columns) integer', {'young': shape, 'shape': np.shape(z)})
        if not ok:
            return
        ctx.check(z.shape[0] == f and f == ry.syt_count_recursive(shape), 'tableaux/count!=hook-length',
                  'number of enumerated tableaux differs from N!/prod(hooks) (reference, exact; cross-checked by corner removal)',
                  {'young': shape, 'got': int(z.shape[0]), 'expected': f})
        if z.shape[0] == 0:
            return
        m = shape_mask(shape)
        cells = z[:, m]
        perm_ok = np.all(np.sort(cells, axis=1) == np.arange(N)[None, :], axis=1)
        pad_ok = np.all(z[:, ~m] == 0, axis=1) if (~m).any() else np.ones(len(z), dtype=bool)
        row_ok = np.all((z[:, :, 1:] > z[:, :, :-1]) | ~m[None, :, 1:], axis=(1, 2))
        col_ok = np.all((z[:, 1:, :] > z[:, :-1, :]) | ~m[None, 1:, :], axis=(1, 2))
        good = perm_ok & pad_ok & row_ok & col_ok
        ctx.check(bool(good.all()), 'tableaux/not-standard', 'a tableau is not standard (entries a permutation of 0..N-1, rows and '
                  'columns increasing, zero padding)', lambda: {'young': shape, 'n_bad': int((~good).sum()), 'first_bad': z[np.argmin(good)],
                                                               'perm': bool(perm_ok.all()), 'rows': bool(row_ok.all()), 'cols': bool(col_ok.all())})
        nd = len(np.unique(z.reshape(len(z), -1), axis=0))
        ctx.check(nd == len(z), 'tableaux/duplicates', 'the same tableau is listed twice', {'young': shape, 'listed': int(len(z)), 'distinct': int(nd)})

    ctx.attach(GS, 'get_all_young_tableaux', pre=pre_arg0, post=post_tableaux)

    def post_hook(c):
        if c.exc is not None:
            return
        try:
            shape = tuple(int(x) for x in c.args)
        except Exception:
            shape = ()
        if not shape or not ry.is_partition(shape) or sum(shape) > 200:
            ctx.hit('hook_length/inadmissible-or-unchecked-argument')
            return
        exp = ry.syt_count_hook(shape)
        ctx.check(isinstance(c.result, (int, np.integer)) and int(c.result) == exp, 'hook_length/value',
                  'get_hook_length differs from N!/prod(hook lengths) computed from the definition', {'young': shape, 'got': repr(c.result)[:80], 'expected': exp})
        if sum(shape) <= 40:
            ctx.check(exp == ry.syt_count_recursive(shape), 'hook_length/reference-self-consistency', 'reference hook formula vs corner removal', {'young': shape})

    ctx.attach(GS, 'get_hook_length', post=post_hook)

    def post_transpose(c):
        arg_unmodified('young_transpose', 'np0', c.arg(0, 'np0'), c.snap)
        if c.exc is not None:
            return
        try:
            shape = tuple(int(x) for x in np.asarray(c.snap if isinstance(c.snap, (np.ndarray, list)) else c.arg(0, 'np0')).reshape(-1).tolist())
        except Exception:
            return
        if shape and ry.is_partition(shape):
            r = np.asarray(c.result)
            ctx.check(r.ndim == 1 and tuple(int(x) for x in r.tolist()) == ry.conjugate(shape), 'young_transpose/value',
                      'transpose differs from the conjugate partition', {'young': shape, 'got': r})

    ctx.attach(GS, 'get_young_diagram_transpose', pre=pre_arg0, post=post_transpose)

    def post_mask(c):
        arg_unmodified('young_mask', 'young', c.arg(0, 'young'), c.snap)
        if c.exc is not None:
            return
        try:
            shape = tuple(int(x) for x in np.asarray(c.snap if isinstance(c.snap, (np.ndarray, list)) else c.arg(0, 'young')).reshape(-1).tolist())
        except Exception:
            return
        if shape and ry.is_partition(shape):
            r = np.asarray(c.result)
            ref = shape_mask(shape).astype(np.int64)
            ctx.check(r.shape == ref.shape and np.array_equal(r, ref), 'young_mask/value', 'mask[i,j] != (j < row length i)', {'young': shape, 'got': r})

    ctx.attach(GS, 'get_young_diagram_mask', pre=pre_arg0, post=post_mask)


# ============================================================================================ workloads
def run(ctx, shard):
    import numqi
    install(ctx, numqi)
    G = numqi.group
    name = shard['name']
    rng = ctx.rng
    quick = ctx.tier == 'quick'
    counts = ctx.extra.setdefault('counts', {'groups': 0, 'triples': 0, 'irreps': 0, 'tensor_products': 0, 'shapes': 0, 'tableaux': 0})

    def group_case(kind, args, build, irreps=True, tensor=False, sample=False):
        ctx.set_case({'op': 'group', 'constructor': kind, 'args': list(args)})
        GHOST['table'] = None
        with ctx.guard(f'group/{kind}'):
            t = build()
            if not (isinstance(t, np.ndarray) and t.ndim == 2 and t.shape[0] == t.shape[1]):
                ctx.case('group-bad', kind, args)
                return
            N = len(t)
            ctx.case('group', kind, args, t, nontrivial=N >= 2,
                     sample={'constructor': kind, 'args': list(args), 'order': N, 'table_head': t[:4, :6]} if sample else None)
            counts['groups'] += 1
            counts['triples'] += N**3
            L = G.cayley_table_to_left_regular_form(t)
            # the documented alternative input form: tuple of tuples
            if N <= 12:
                L2 = G.cayley_table_to_left_regular_form(tuple(tuple(int(y) for y in x) for x in t.tolist()))
                ctx.check(np.array_equal(L, L2), 'left_regular/tuple-input-differs', 'tuple-of-tuples input gives a different result', {'N': N})
            if not irreps:
                return
            ir = G.reduce_group_representation(L)
            if not (isinstance(ir, list) and all(isinstance(x, np.ndarray) and x.ndim == 3 and x.shape[0] == N for x in ir)):
                return
            counts['irreps'] += len(ir)
            if rf.table_report(t)['ok']:
                _, class_list, _ = G.get_character_and_class(ir)
                ref_cls = sorted(rf.conjugacy_classes(t), key=lambda x: (len(x), x))
                ctx.check([tuple(int(y) for y in x) for x in class_list] == ref_cls, 'character_and_class/classes',
                          'conjugacy classes read off the characters differ from the classes computed from the table',
                          lambda: {'constructor': kind, 'args': list(args), 'got': class_list, 'expected': ref_cls})
            if tensor and rf.table_report(t)['ok']:
                big = [x for x in ir if x.shape[1] >= 2] or ir[-1:]
                pairs = [(a, b) for i, a in enumerate(big) for b in big[i:]][:4] + [(ir[0], big[-1])]
                for a, b in pairs:
                    d = a.shape[1] * b.shape[1]
                    if d > 36:
                        continue
                    rep = np.einsum('gij,gkl->gikjl', a, b).reshape(N, d, d)
                    ctx.set_case({'op': 'tensor-product', 'constructor': kind, 'args': list(args), 'dims': [a.shape[1], b.shape[1]]})
                    ctx.case('tensor', kind, args, a.shape[1], b.shape[1], np.round(rep, 6), nontrivial=d >= 2)
                    counts['tensor_products'] += 1
                    GHOST['table'] = t
                    try:
                        G.reduce_group_representation(rep)
                    finally:
                        GHOST['table'] = None

    def small_groups(tensor):
        for n in (2, 3, 4):
            group_case('symmetric', (n,), lambda: G.get_symmetric_group_cayley_table(n), tensor=tensor, sample=(n == 3))
            group_case('alternating', (n,), lambda: G.get_symmetric_group_cayley_table(n, alternating=True), tensor=tensor, sample=(n == 4))
        for n in range(3, 13):
            group_case('dihedral', (n,), lambda: G.get_dihedral_group_cayley_table(n), tensor=tensor and n <= 6, sample=(n == 5))
        for n in range(2, 13):
            group_case('cyclic', (n,), lambda: G.get_cyclic_group_cayley_table(n), sample=(n == 6))
        for n in range(3, 25):
            group_case('multiplicative', (n,), lambda: G.get_multiplicative_group_cayley_table(n), sample=(n == 15))
        group_case('klein', (), G.get_klein_four_group_cayley_table, sample=True)
        group_case('quaternion', (), G.get_quaternion_cayley_table, tensor=tensor, sample=True)

    def shape_case(shape, sample=False):
        shape = tuple(int(x) for x in shape)
        N = sum(shape)
        ctx.set_case({'op': 'tableaux', 'young': list(shape)})
        nontriv = len(shape) >= 2 and shape[0] >= 2
        f = None
        with ctx.guard('tableaux'):
            h = G.get_hook_length(*shape)
            z = G.get_all_young_tableaux(shape)
            G.get_young_diagram_transpose(shape)
            G.get_young_diagram_mask(shape)
            ok = isinstance(z, np.ndarray) and z.ndim == 3
            ctx.case('shape', shape, nontrivial=nontriv,
                     sample={'young': list(shape), 'n_tableaux': int(len(z)), 'hook_count': int(h), 'first': z[0], 'last': z[-1]} if (sample and ok and len(z)) else None)
            if ok:
                f = len(z)
                counts['shapes'] += 1
                counts['tableaux'] += f
                ctx.check(int(h) == f, 'tableaux/count!=get_hook_length', 'numqi: len(get_all_young_tableaux) != get_hook_length', {'young': shape, 'n': f, 'hook': int(h)})
                # also as ndarray / list argument (documented tuple[int]; symext passes tuples)
                z2 = G.get_all_young_tableaux(np.array(shape, dtype=np.int64))
                ctx.check(np.array_equal(z, z2), 'tableaux/ndarray-input-differs', 'ndarray shape argument gives a different result', {'young': shape})
        return f

    def all_shapes(N):
        tot = 0
        complete = True
        shapes = list(ry.partitions(N))
        for i, s in enumerate(shapes):
            f = shape_case(s, sample=(N >= 5 and i == len(shapes) // 2))
            if f is None:
                complete = False
            else:
                tot += f * f
        ctx.set_case({'op': 'sum-f2', 'N': N})
        if complete:
            ctx.check(tot == math.factorial(N), 'tableaux/sum-f2!=N!', 'sum over all diagrams of (#tableaux)^2 differs from N!',
                      {'N': N, 'sum': tot, 'N!': math.factorial(N)}, point='workload/sum-f2==N!')

    def partition_cases(Ns, diag_max):
        for N in Ns:
            ctx.set_case({'op': 'partitions', 'N': N})
            ctx.case('partitions', N, nontrivial=N >= 2)
            with ctx.guard('partitions'):
                v = G.get_sym_group_num_irrep(N)
                v2, tab = G.get_sym_group_num_irrep(N, return_full=True)
                ctx.check(v == v2, 'num_irrep/return_full-value-differs', 'return_full=True gives a different count', {'N': N})
                if N <= diag_max:
                    d = G.get_sym_group_young_diagram(N)
                    if isinstance(d, np.ndarray) and d.ndim == 2:
                        ctx.check(len(d) == v, 'young_diagram/len!=num_irrep', 'len(get_sym_group_young_diagram(N)) != get_sym_group_num_irrep(N)',
                                  {'N': N, 'len': len(d), 'num': int(v)})
                        if N in (5, 12):
                            ctx.sample({'op': 'young_diagram', 'N': N, 'rows': len(d), 'head': d[:3]})

    if name == 'tables':
        ctx.workload('exhaustive')
        small_groups(tensor=True)
    elif name == 'table-S5':
        ctx.workload('exhaustive')
        group_case('symmetric', (5,), lambda: G.get_symmetric_group_cayley_table(5), tensor=True, sample=True)
    elif name == 'table-A5':
        ctx.workload('exhaustive')
        group_case('alternating', (5,), lambda: G.get_symmetric_group_cayley_table(5, alternating=True), tensor=True, sample=True)
    elif name == 'tables-large-dihedral':
        ctx.workload('exhaustive')
        for n in range(13, 61):
            group_case('dihedral', (n,), lambda: G.get_dihedral_group_cayley_table(n))
    elif name == 'tables-large-cyclic':
        ctx.workload('exhaustive')
        for n in range(13, 121):
            group_case('cyclic', (n,), lambda: G.get_cyclic_group_cayley_table(n))
    elif name == 'tables-large-multiplicative':
        ctx.workload('exhaustive')
        for n in range(25, 256):
            if rf.euler_phi(n) <= 120:
                group_case('multiplicative', (n,), lambda: G.get_multiplicative_group_cayley_table(n))
    elif name == 'partitions':
        ctx.workload('exhaustive')
        partition_cases(range(1, 61), 30)
        ctx.workload('corner')
        partition_cases([200], 0)  # the repository's largest test value (fits int64)
    elif name == 'partitions-large':
        ctx.workload('exhaustive')
        partition_cases(range(61, 121), 0)
        partition_cases(range(31, 41), 40)
    elif name == 'tableaux':
        ctx.workload('exhaustive')
        for N in range(1, 11 if quick else 10):
            all_shapes(N)
        # larger shapes: hook length only (exact big integers), and tableaux when there are few enough
        ctx.workload('random')
        for it in range(150 if quick else 1500):
            N = int(rng.integers(9, 61))
            parts = []
            left = N
            cap = int(rng.integers(1, N + 1))
            while left > 0:
                p = int(rng.integers(1, min(left, cap) + 1))
                parts.append(p)
                left -= p
                cap = p
            shape = tuple(parts)
            ctx.set_case({'op': 'hook', 'young': list(shape)})
            with ctx.guard('hook'):
                if ry.syt_count_hook(shape) <= (3000 if quick else 30000) and N <= 24:
                    shape_case(shape)
                else:
                    ctx.case('hook', shape, nontrivial=len(shape) >= 2 and shape[0] >= 2)
                    G.get_hook_length(*shape)
                    G.get_young_diagram_transpose(shape)
        ctx.workload('corner')
        for shape in [(1,), (2,), (1, 1), (12,), (1,) * 12, (6, 1), (2, 1, 1, 1, 1), (3, 3, 3), (4, 4), (2, 2, 2, 2), (4, 3, 2, 1), (3, 2, 1)]:
            shape_case(shape)
    elif name.startswith('tableaux-N'):
        ctx.workload('exhaustive')
        all_shapes(int(name[len('tableaux-N'):]))
    elif name == 'symext':
        ctx.workload('realistic')
        dk = [(2, 2), (2, 3), (2, 4), (3, 2), (3, 3), (2, 5)] + ([] if quick else [(3, 4), (4, 3), (4, 2), (5, 2), (2, 6), (4, 4)])
        for d, k in dk:
            ctx.set_case({'op': 'sud-irrep-basis', 'dim': d, 'kext': k})
            ctx.case('symext', d, k)
            with ctx.guard('symext'):
                bl = G.symext.get_sud_symmetric_irrep_basis(d, k)
                shapes = [s for s in ry.partitions(k) if len(s) <= d]
                got = [(len(x), [int(y.shape[0]) for y in x]) for x in bl]
                exp = [(ry.syt_count_hook(s), [ry.sud_irrep_dim(s, d)] * ry.syt_count_hook(s)) for s in shapes]
                # Schur-Weyl: one block of dimension dim_lambda(SU(d)) per standard tableau of lambda, total d^k
                ctx.check(sorted(got) == sorted(exp) and sum(sum(x[1]) for x in got) == d**k, 'symext/irrep-basis-dimensions',
                          'blocks built from the enumerated tableaux do not have the Schur-Weyl dimensions (f_lambda copies of dim_lambda, total d^k)',
                          {'dim': d, 'kext': k, 'got': got, 'expected': exp})
                if (d, k) == (3, 3):
                    ctx.sample({'op': 'sud-irrep-basis', 'dim': d, 'kext': k, 'blocks': got})
                _basis_is_unitary(ctx, [y for x in bl for y in x], d**k, 'symext/irrep-basis-not-orthonormal-complete', {'dim': d, 'kext': k})
        with ctx.guard('symext-B3B4'):
            for d in (2, 3):
                ctx.set_case({'op': 'B3-B4-irrep-basis', 'dim': d})
                _basis_is_unitary(ctx, list(G.symext.get_B3_irrep_basis(d)), d**3, 'symext/B3-basis-not-orthonormal-complete', {'dim': d})
                if d == 2 or not quick:
                    _basis_is_unitary(ctx, list(G.symext.get_B4_irrep_basis(d)), d**4, 'symext/B4-basis-not-orthonormal-complete', {'dim': d})
                else:
                    G.symext.get_B4_irrep_basis(d)
        with ctx.guard('print_all_young_tableaux'):
            import contextlib
            import io
            with contextlib.redirect_stdout(io.StringIO()):
                G.print_all_young_tableaux(5)
    elif name == 'histories':
        # call-order sensitive: the A_n-before-S_n order must be the first thing this process does
        _histories(ctx, numqi, G, rng, group_case, shape_case, partition_cases)
        import time
        t0 = time.time()
        _regimes(ctx, numqi, G, rng)
        ctx.extra['regimes_wall_s'] = round(time.time() - t0, 2)
    elif name == 'api-forms':
        _api_forms(ctx, numqi, G, rng)
    elif name == 'repo-tests':
        ctx.workload('repo-tests')
        _run_repo_tests(ctx, ['tests/tests_group/test_group_basic.py', 'tests/tests_group/test_group_symmetric.py',
                              'tests/tests_group/test_group_symext.py'])


def _eq(a, b):
    """deep, exact equality of results (arrays by shape/dtype/value, tuples/lists elementwise)"""
    if isinstance(a, np.ndarray) or isinstance(b, np.ndarray):
        return isinstance(a, np.ndarray) and isinstance(b, np.ndarray) and a.shape == b.shape and a.dtype == b.dtype and np.array_equal(a, b)
    if isinstance(a, (tuple, list)):
        return type(a) is type(b) and len(a) == len(b) and all(_eq(x, y) for x, y in zip(a, b))
    return type(a) is type(b) and a == b


def _deepcopy(a):
    if isinstance(a, np.ndarray):
        return a.copy()
    if isinstance(a, (tuple, list)):
        return type(a)(_deepcopy(x) for x in a)
    return a


def _arrays(a):
    if isinstance(a, np.ndarray):
        yield a
    elif isinstance(a, (tuple, list)):
        for x in a:
            yield from _arrays(x)


def _scribble(a):
    """the caller edits a returned object in place (every writeable array inside it)"""
    k = 0
    for x in _arrays(a):
        if x.flags.writeable and x.size:
            x[...] = x[(slice(None, None, -1),) * x.ndim] + 1
            k += 1
    return k


def _api_forms(ctx, numqi, G, rng):
    """every documented way of calling the monitored functions: positional vs keyword, default vs explicit, flags as
    bool / np.bool_ / 0 / 1, sizes as python / numpy integers, smallest admissible and largest quick sizes. Every call is judged
    by its contract; the relational checks compare the forms with each other (exact equality: the functions are deterministic)."""
    ctx.workload('corner')

    def forms(fn, base, variants, desc):
        """variants: {label: thunk}; labels containing '=' are keyword forms, 'default' explicit defaults, others value-type forms"""
        ctx.set_case({'op': 'api-forms', 'fn': fn, **desc})
        ctx.case('api', fn, desc)
        with ctx.guard(f'api/{fn}'):
            a = base()
            for label, thunk in variants.items():
                b = thunk()
                kind = ('explicit-default-differs' if label.startswith('default') else
                        'positional-call-differs-from-keyword-call' if '=' in label else 'argument-type-dependent')
                ctx.check(_eq(a, b), f'{fn}/{kind}', f'{fn}: two documented ways of passing the same arguments give different results',
                          lambda: {**desc, 'form': label, 'first_shapes': [np.shape(x) for x in _arrays(a)], 'this_shapes': [np.shape(x) for x in _arrays(b)]},
                          point='workload/api-forms')
            return a
        return None

    S = G.get_symmetric_group_cayley_table
    for n in (2, 3, 4, 5):   # smallest admissible .. largest quick
        forms('table/symmetric', lambda: S(n), {
            'default alternating=False positional': lambda: S(n, False), 'alternating=': lambda: S(n, alternating=False), 'n=': lambda: S(n=n),
            'alternating=,n=': lambda: S(alternating=False, n=n), 'np.False_': lambda: S(n, np.False_), '0': lambda: S(n, 0),
            'np.int64 n': lambda: S(np.int64(n)), 'np.uint8 n': lambda: S(np.uint8(n))}, {'n': n, 'alternating': False})
        forms('table/symmetric', lambda: S(n, True), {
            'alternating=': lambda: S(n, alternating=True), 'alternating=,n=': lambda: S(alternating=True, n=n), 'np.True_': lambda: S(n, np.True_),
            '1': lambda: S(n, 1), 'np.int32 n': lambda: S(np.int32(n), True)}, {'n': n, 'alternating': True})
    for fn, f, ns in [('table/dihedral', G.get_dihedral_group_cayley_table, (3, 4, 12)), ('table/cyclic', G.get_cyclic_group_cayley_table, (2, 3, 12)),
                      ('table/multiplicative', G.get_multiplicative_group_cayley_table, (3, 4, 8, 24))]:
        for n in ns:
            # (no narrow unsigned types here: these three do not normalise n with int(); np.uint8(24) overflows inside (x*y)%n - outside the documented `n (int)`)
            forms(fn, lambda: f(n), {'n=': lambda: f(n=n), 'np.int64 n': lambda: f(np.int64(n)), 'np.int32 n': lambda: f(np.int32(n))},
                  {'n': n})
    for nm, t in [('C2', rf.ref_cyclic(2)), ('S3', rf.ref_symmetric(3)), ('Q8', rf.ref_quaternion()), ('S4', rf.ref_symmetric(4))]:
        L = forms('left_regular', lambda: G.cayley_table_to_left_regular_form(t), {'index_tuple=': lambda: G.cayley_table_to_left_regular_form(index_tuple=t)}, {'group': nm})
        if L is None:
            continue
        R = G.reduce_group_representation
        ir = forms('reduce', lambda: R(L), {'np0=': lambda: R(np0=L), 'default zero_eps positional': lambda: R(L, 1e-7), 'zero_eps=': lambda: R(L, zero_eps=1e-7),
                                            'np0=,zero_eps=': lambda: R(zero_eps=1e-7, np0=L), 'np.float64 zero_eps': lambda: R(L, np.float64(1e-7))}, {'group': nm})
        if isinstance(ir, list):
            C = G.get_character_and_class
            forms('character_and_class', lambda: list(C(ir)), {'irrep_list=': lambda: list(C(irrep_list=ir)), 'default zero_eps positional': lambda: list(C(ir, 1e-7)),
                                                               'zero_eps=': lambda: list(C(ir, zero_eps=1e-7))}, {'group': nm})
    NI = G.get_sym_group_num_irrep
    for N in (1, 2, 3, 4, 5, 30, 60, 200):
        forms('num_irrep', lambda: NI(N), {'default return_full=False positional': lambda: NI(N, False), 'return_full=': lambda: NI(N, return_full=False), 'N=': lambda: NI(N=N),
                                           'np.False_': lambda: NI(N, np.False_), '0': lambda: NI(N, 0), 'np.int64 N': lambda: NI(np.int64(N)), 'np.uint8 N': lambda: NI(np.uint8(N))},
              {'N': N, 'return_full': False})
        forms('num_irrep', lambda: list(NI(N, True)), {'return_full=': lambda: list(NI(N, return_full=True)), 'return_full=,N=': lambda: list(NI(return_full=True, N=N)),
                                                       'np.True_': lambda: list(NI(N, np.True_)), '1': lambda: list(NI(N, 1)), 'np.int32 N': lambda: list(NI(np.int32(N), True))},
              {'N': N, 'return_full': True})
    YD = G.get_sym_group_young_diagram
    for N in (1, 2, 3, 4, 5, 30):
        forms('young_diagram', lambda: YD(N), {'N=': lambda: YD(N=N), 'np.int64 N': lambda: YD(np.int64(N)), 'np.int32 N': lambda: YD(np.int32(N))}, {'N': N})
    T, H, TR, M = G.get_all_young_tableaux, G.get_hook_length, G.get_young_diagram_transpose, G.get_young_diagram_mask
    for sh in [(1,), (2,), (1, 1), (2, 1), (2, 2), (3, 1, 1), (3, 2, 1), (2, 2, 1, 1), (4, 3, 2, 1), (10,), (1,) * 10, (5, 5)]:
        d = {'young': list(sh)}
        forms('tableaux', lambda: T(sh), {'default check=True positional': lambda: T(sh, True), 'check=': lambda: T(sh, check=True), 'young=': lambda: T(young=sh),
                                          'check=False': lambda: T(sh, check=False), 'check=,young=': lambda: T(check=False, young=sh), 'np.True_': lambda: T(sh, np.True_),
                                          '1': lambda: T(sh, 1), '0': lambda: T(sh, 0), 'np.False_': lambda: T(sh, np.False_)}, d)
        forms('hook_length', lambda: H(*sh), {'default check=True': lambda: H(*sh, check=True), 'check=False': lambda: H(*sh, check=False),
                                              'np.True_': lambda: H(*sh, check=np.True_), '0': lambda: H(*sh, check=0), '1': lambda: H(*sh, check=1),
                                              'np.int64 rows': lambda: H(*[np.int64(x) for x in sh]), 'np.uint8 rows': lambda: H(*[np.uint8(x) for x in sh])}, d)
        forms('young_transpose', lambda: TR(sh), {'default check=True positional': lambda: TR(sh, True), 'check=': lambda: TR(sh, check=True), 'np0=': lambda: TR(np0=sh),
                                                  'check=False': lambda: TR(sh, check=False), 'np.False_': lambda: TR(sh, np.False_), '0': lambda: TR(sh, 0)}, d)
        forms('young_mask', lambda: M(sh), {'default check=True positional': lambda: M(sh, True), 'check=': lambda: M(sh, check=True), 'young=': lambda: M(young=sh),
                                            'check=False': lambda: M(sh, check=False), 'np.True_': lambda: M(sh, np.True_), '1': lambda: M(sh, 1)}, d)


def _histories(ctx, numqi, G, rng, group_case, shape_case, partition_cases):
    """(1) histories on one object / one process, (2) call order inside ONE process, (3) argument mutation (by the
    contracts, which snapshot their array arguments), (4) integer types / dtypes / memory layouts of in-domain inputs."""
    quick = ctx.tier == 'quick'
    first = {}

    def remember(key, build):
        """call a constructor; the result must equal the first result of the same call in this process"""
        r = build()
        if key in first:
            ctx.check(_eq(r, first[key]), f'{key[0]}/differs-between-calls',
                      f'{key[0]}{tuple(key[1:])} returns something else than earlier in the same process (call-order / history dependent)',
                      lambda: {'call': list(key), 'first_shape': [np.shape(x) for x in _arrays(first[key])], 'now_shape': [np.shape(x) for x in _arrays(r)]},
                      point='workload/history')
        else:
            first[key] = _deepcopy(r)
        return r

    sym = lambda n: remember(('table/symmetric', n), lambda: G.get_symmetric_group_cayley_table(n))
    alt = lambda n: remember(('table/alternating', n), lambda: G.get_symmetric_group_cayley_table(n, alternating=True))
    dih = lambda n: remember(('table/dihedral', n), lambda: G.get_dihedral_group_cayley_table(n))
    cyc = lambda n: remember(('table/cyclic', n), lambda: G.get_cyclic_group_cayley_table(n))
    mul = lambda n: remember(('table/multiplicative', n), lambda: G.get_multiplicative_group_cayley_table(n))
    kle = lambda: remember(('table/klein',), G.get_klein_four_group_cayley_table)
    qua = lambda: remember(('table/quaternion',), G.get_quaternion_cayley_table)

    # ---- (2) call order: the alternating group BEFORE the symmetric group of the same n, large n before small n, in a
    # fresh process (the other shards build S_n first and go upwards); dihedral / cyclic / multiplicative of the same n interleaved
    ctx.workload('corner')
    for n in (5, 4, 3, 2):
        group_case('alternating', (n,), lambda: alt(n), irreps=(n <= 4 or not quick))
        group_case('symmetric', (n,), lambda: sym(n), irreps=(n <= 4 or not quick))
        group_case('alternating', (n,), lambda: alt(n), irreps=False)
    for n in range(12, 2, -1):
        group_case('dihedral', (n,), lambda: dih(n), irreps=(n % 3 == 0))
        group_case('cyclic', (n,), lambda: cyc(n), irreps=(n % 3 == 1))
        group_case('cyclic', (2 * n,), lambda: cyc(2 * n), irreps=False)
        group_case('multiplicative', (n,), lambda: mul(n), irreps=(n % 3 == 2))
        group_case('dihedral', (n,), lambda: dih(n), irreps=False)
    group_case('klein', (), kle)
    group_case('quaternion', (), qua)
    group_case('klein', (), kle, irreps=False)
    # partition functions: large N first, full table before the plain count; diagrams downwards
    partition_cases(range(30, 0, -1), 14)
    for N in (7, 6, 5, 4, 3, 2, 1):
        for sh in reversed(list(ry.partitions(N))):
            shape_case(sh)

    # ---- (1) edit-the-result-then-call-again, for every monitored function returning arrays (or lists of arrays)
    ctx.workload('random')
    tS3 = np.array(first.get(('table/symmetric', 3)))
    L3 = rf.left_regular(rf.ref_symmetric(3))
    L8 = rf.left_regular(rf.ref_quaternion())
    calls = [
        ('table/symmetric', (3,), lambda: G.get_symmetric_group_cayley_table(3)),
        ('table/symmetric', (4,), lambda: G.get_symmetric_group_cayley_table(4)),
        ('table/symmetric', (4, 'alternating'), lambda: G.get_symmetric_group_cayley_table(4, alternating=True)),   # same lru_cache'd helper
        ('table/dihedral', (5,), lambda: G.get_dihedral_group_cayley_table(5)),
        ('table/cyclic', (6,), lambda: G.get_cyclic_group_cayley_table(6)),
        ('table/multiplicative', (15,), lambda: G.get_multiplicative_group_cayley_table(15)),
        ('table/klein', (), G.get_klein_four_group_cayley_table),
        ('table/quaternion', (), G.get_quaternion_cayley_table),
        ('left_regular', ('S3',), lambda: G.cayley_table_to_left_regular_form(rf.ref_symmetric(3))),
        ('reduce', ('S3',), lambda: G.reduce_group_representation(L3)),
        ('reduce', ('Q8',), lambda: G.reduce_group_representation(L8)),
        ('num_irrep', (7, 'full'), lambda: G.get_sym_group_num_irrep(7, return_full=True)),
        ('num_irrep', (3, 'full'), lambda: G.get_sym_group_num_irrep(3, return_full=True)),
        ('young_diagram', (7,), lambda: G.get_sym_group_young_diagram(7)),
        ('young_diagram', (3,), lambda: G.get_sym_group_young_diagram(3)),
        ('tableaux', ((3, 2, 1),), lambda: G.get_all_young_tableaux((3, 2, 1))),
        ('tableaux', ((4,),), lambda: G.get_all_young_tableaux((4,))),
        ('young_transpose', ((4, 2, 1),), lambda: G.get_young_diagram_transpose((4, 2, 1))),
        ('young_mask', ((4, 2, 1),), lambda: G.get_young_diagram_mask((4, 2, 1))),
        ('hook_length', ((4, 3, 1, 1),), lambda: G.get_hook_length(4, 3, 1, 1)),
    ]
    for fn, args, call in calls:
        ctx.set_case({'op': 'edit-result-then-call-again', 'fn': fn, 'args': list(args)})
        ctx.case('history-edit-result', fn, args)
        with ctx.guard(f'history/{fn}'):
            r1 = call()                       # monitored: the contract judges the first result
            snap = _deepcopy(r1)
            edited = _scribble(r1)
            with ctx.quiet():
                r2 = call()                   # unmonitored: judged here, against the first result, with a specific key
            same = _eq(r2, snap)
            aliased = any(np.may_share_memory(x, y) for x in _arrays(r2) for y in _arrays(r1))
            ctx.check(same or not aliased, f'{fn}/result-aliases-cache',
                      f'{fn}: the returned array IS the library\'s cached object: after the caller edited it in place the same call returns the edited data',
                      lambda: {'fn': fn, 'args': list(args), 'arrays_edited': edited, 'first': snap, 'second_call_returns': r2}, point='workload/history')
            ctx.check(same or aliased, f'{fn}/stale-after-result-edit',
                      f'{fn}: after the caller edited the first result in place the same call returns something else',
                      lambda: {'fn': fn, 'args': list(args), 'first': snap, 'second': r2}, point='workload/history')
            if aliased:
                for x, y in zip(_arrays(r1), _arrays(snap)):   # put the library's cache back (it was the caller's edit)
                    if x.flags.writeable:
                        x[...] = y

    # ---- (1) work buffers: one array / list object refilled between calls; the contracts judge the current contents
    ref6 = [('S3', rf.ref_symmetric(3)), ('D3', rf.ref_dihedral(3)), ('C6', rf.ref_cyclic(6)), ('S3', rf.ref_symmetric(3))]
    tbuf = np.zeros((6, 6), dtype=np.int64)
    Lbuf = np.zeros((6, 6, 6), dtype=np.int64)
    Cbuf = np.zeros((6, 6, 6), dtype=np.complex128)
    for nm, t in ref6:
        ctx.set_case({'op': 'work-buffer', 'fn': 'left_regular/reduce', 'contents': nm})
        ctx.case('history-buffer', nm)
        with ctx.guard('history/work-buffer'):
            tbuf[...] = t
            L = G.cayley_table_to_left_regular_form(tbuf)
            ctx.check(_eq(L, rf.left_regular(t)), 'left_regular/stale-after-inplace-update', 'a refilled table buffer gives the form of its earlier contents',
                      {'contents': nm}, point='workload/history')
            ncls = len(rf.conjugacy_classes(t))
            for buf in (Lbuf, Cbuf):
                buf[...] = rf.left_regular(t)
                ir = G.reduce_group_representation(buf)
                ctx.check(isinstance(ir, list) and len(ir) == ncls, 'reduce/stale-after-inplace-update',
                          'a refilled representation buffer is reduced like its earlier contents (number of irreps != classes of the current group)',
                          {'contents': nm, 'dtype': str(buf.dtype), 'n_irrep': len(ir) if isinstance(ir, list) else None, 'n_classes': ncls}, point='workload/history')
    sbuf = np.zeros(3, dtype=np.int64)
    slst = [0, 0, 0]
    for sh in [(3, 2, 1), (4, 1, 1), (2, 2, 2), (5, 3, 1), (3, 2, 1)]:
        ctx.set_case({'op': 'work-buffer', 'fn': 'tableaux', 'contents': list(sh)})
        ctx.case('history-buffer', sh)
        with ctx.guard('history/work-buffer'):
            f = ry.syt_count_hook(sh)
            sbuf[...] = sh
            slst[:] = list(sh)
            for arg in (sbuf, slst):
                z = G.get_all_young_tableaux(arg)
                ctx.check(isinstance(z, np.ndarray) and len(z) == f, 'tableaux/stale-after-inplace-update',
                          'a refilled shape buffer gives the tableaux of its earlier contents', {'contents': list(sh), 'arg': type(arg).__name__}, point='workload/history')
                G.get_young_diagram_transpose(arg)
                G.get_young_diagram_mask(arg)

    # ---- (4) integer types, containers, dtypes and memory layouts of the same values
    for nm, t in [('S3', rf.ref_symmetric(3)), ('Q8', rf.ref_quaternion()), ('D5', rf.ref_dihedral(5)), ('A4', rf.ref_symmetric(4, True))]:
        N = len(t)
        ctx.set_case({'op': 'layouts', 'group': nm})
        ctx.case('history-layout', nm)
        with ctx.guard('history/layout'):
            L0 = G.cayley_table_to_left_regular_form(t)
            big = np.zeros((2 * N, 2 * N), dtype=np.int64)
            big[::2, ::2] = t
            tvars = {'int32': t.astype(np.int32), 'fortran': np.asfortranarray(t), 'strided-view': big[::2, ::2],
                     'transposed-view': np.ascontiguousarray(t.T).T, 'list-of-lists': t.tolist(), 'tuple-of-tuples': tuple(tuple(r) for r in t.tolist()),
                     'list-of-rows': [r.copy() for r in t], 'uint8': t.astype(np.uint8)}
            for vn, tv in tvars.items():
                ctx.check(_eq(G.cayley_table_to_left_regular_form(tv), L0), 'left_regular/layout-dependent',
                          'the same table in another container / dtype / memory layout gives a different left regular form', {'group': nm, 'variant': vn},
                          point='workload/history')
            ncls = len(rf.conjugacy_classes(t))
            bigL = np.zeros((N, 2 * N, 2 * N), dtype=np.complex128)
            bigL[:, ::2, ::2] = L0
            Lvars = {'int64': L0, 'float64': L0.astype(np.float64), 'complex128': L0.astype(np.complex128), 'fortran': np.asfortranarray(L0.astype(np.float64)),
                     'strided-view': bigL[:, ::2, ::2], 'int32': L0.astype(np.int32),
                     'axes-moved-view': np.ascontiguousarray(np.moveaxis(L0.astype(np.complex128), 0, 2)).transpose(2, 0, 1)}
            dims0 = None
            for vn, Lv in Lvars.items():
                ir = G.reduce_group_representation(Lv)     # every variant judged by the contract (snapshot of the values)
                dims = sorted(x.shape[1] for x in ir) if isinstance(ir, list) else None
                dims0 = dims if dims0 is None else dims0
                ctx.check(dims == dims0 and dims is not None and len(dims) == ncls, 'reduce/layout-dependent',
                          'the same representation in another dtype / memory layout is reduced differently', {'group': nm, 'variant': vn, 'dims': dims, 'first': dims0},
                          point='workload/history')
    for sh in [(3, 2, 1), (4, 2), (2, 2, 1, 1), (5, 1, 1)]:
        ctx.set_case({'op': 'argument-types', 'young': list(sh)})
        ctx.case('history-layout', sh)
        with ctx.guard('history/layout'):
            z0 = G.get_all_young_tableaux(sh)
            bigs = np.zeros(2 * len(sh), dtype=np.int64)
            bigs[::2] = sh
            svars = {'list': list(sh), 'ndarray-int64': np.array(sh), 'ndarray-int32': np.array(sh, dtype=np.int32), 'strided-view': bigs[::2],
                     'tuple-of-np.int64': tuple(np.int64(x) for x in sh), 'reversed-view': np.array(sh[::-1])[::-1]}
            for vn, sv in svars.items():
                ctx.check(_eq(G.get_all_young_tableaux(sv), z0), 'tableaux/argument-type-dependent',
                          'the same shape as list / ndarray / view / numpy integers gives different tableaux', {'young': list(sh), 'variant': vn}, point='workload/history')
                ctx.check(_eq(np.asarray(G.get_young_diagram_transpose(sv)), np.asarray(G.get_young_diagram_transpose(sh))), 'young_transpose/argument-type-dependent',
                          'transpose depends on the container / integer type', {'young': list(sh), 'variant': vn})
                G.get_young_diagram_mask(sv)
            ctx.check(G.get_hook_length(*[np.int64(x) for x in sh]) == G.get_hook_length(*sh), 'hook_length/int-type-dependent',
                      'numpy-integer row lengths give another value', {'young': list(sh)}, point='workload/history')
    for n in (3, 4, 5):
        ctx.set_case({'op': 'numpy-integer-n', 'n': n})
        with ctx.guard('history/int-types'):
            ni = np.int64(n)
            for nm, f in [('table/symmetric', lambda k: G.get_symmetric_group_cayley_table(k)), ('table/alternating', lambda k: G.get_symmetric_group_cayley_table(k, alternating=True)),
                          ('table/dihedral', G.get_dihedral_group_cayley_table), ('table/cyclic', G.get_cyclic_group_cayley_table),
                          ('table/multiplicative', G.get_multiplicative_group_cayley_table), ('num_irrep', G.get_sym_group_num_irrep),
                          ('young_diagram', G.get_sym_group_young_diagram)]:
                ctx.check(_eq(f(ni), f(n)), f'{nm}/int-type-dependent', 'numpy-integer parameter gives a different result than the python int', {'n': n},
                          point='workload/history')

    # ---- (2) repeat the first configurations at the end, now S_n before A_n and upwards
    ctx.workload('corner')
    for n in (2, 3, 4, 5):
        group_case('symmetric', (n,), lambda: sym(n), irreps=(n <= 3))
        group_case('alternating', (n,), lambda: alt(n), irreps=(n <= 3))
    for n in (3, 8, 12):
        group_case('cyclic', (n,), lambda: cyc(n), irreps=False)
        group_case('dihedral', (n,), lambda: dih(n), irreps=False)
        group_case('multiplicative', (n,), lambda: mul(n), irreps=False)
    group_case('quaternion', (), qua, irreps=False)
    partition_cases([30, 7, 1], 7)
    shape_case((3, 2, 1))


def _basis_is_unitary(ctx, blocks, total, key, desc):
    """the blocks (arrays of shape (#basis, total)) stacked must be a unitary (total,total) matrix: orthonormal and complete"""
    ok = all(isinstance(x, np.ndarray) and x.ndim == 2 and x.shape[1] == total for x in blocks) and sum(x.shape[0] for x in blocks) == total
    err = None
    if ok:
        M = np.concatenate(blocks, axis=0).astype(np.complex128)
        err = float(np.abs(M @ M.conj().T - np.eye(total)).max())
    ctx.check(ok and err <= 1e-9, key, 'the irrep basis vectors built from the Young tableaux / symmetrizers are not an orthonormal basis of the whole space',
              {**desc, 'shapes': [list(np.shape(x)) for x in blocks], 'total': total, 'err': err}, point='workload/entry-points')


def _regimes(ctx, numqi, G, rng):
    """lesson 3: (a) numerical regime (regular representations exact only up to rounding noise / in a rotated basis; integer counts
    around 2^53 and 2^63), (b) one degenerate item in a batch, 1-dimensional blocks, (d) every other public function of the anchored
    files that consumes tables / representations / tableaux. Torch, gradients and stateful objects do not exist for this property."""
    import contextlib
    import io
    import itertools
    quick = ctx.tier == 'quick'

    def reg(cond, key, what, wit):
        ctx.check(cond, key, what, wit, point='workload/regimes')

    def ent(cond, key, what, wit):
        ctx.check(cond, key, what, wit, point='workload/entry-points')

    def herr(rep, t):
        return float(np.abs(np.einsum('aij,bjk->abik', rep, rep) - rep[t]).max())

    def uerr(x):
        return float(np.abs(np.einsum('aji,ajk->aik', x.conj(), x) - np.eye(x.shape[1])).max())

    groups = [('S3', lambda: G.get_symmetric_group_cayley_table(3)), ('Q8', G.get_quaternion_cayley_table), ('D4', lambda: G.get_dihedral_group_cayley_table(4)),
              ('A4', lambda: G.get_symmetric_group_cayley_table(4, alternating=True)), ('C6', lambda: G.get_cyclic_group_cayley_table(6)),
              ('(Z/15)*', lambda: G.get_multiplicative_group_cayley_table(15)), ('V4', G.get_klein_four_group_cayley_table), ('A2', lambda: G.get_symmetric_group_cayley_table(2, alternating=True))]
    if not quick:
        groups += [('S4', lambda: G.get_symmetric_group_cayley_table(4)), ('D6', lambda: G.get_dihedral_group_cayley_table(6)), ('D5', lambda: G.get_dihedral_group_cayley_table(5))]
    ctx.workload('random')
    for nm, build in groups:
        ctx.set_case({'op': 'regimes', 'group': nm})
        GHOST['table'] = None
        with ctx.guard('regimes/table'):
            t = build()
        if not (isinstance(t, np.ndarray) and t.ndim == 2 and t.shape[0] == t.shape[1] and rf.table_report(t)['ok']):
            continue        # reported by the table contract
        t = np.array(t)
        N = len(t)
        L = rf.left_regular(t).astype(np.float64)
        ncls = len(rf.conjugacy_classes(t))
        with ctx.guard('regimes/reduce-exact'):
            ir0 = G.reduce_group_representation(L.astype(np.int64))
        if not (isinstance(ir0, list) and all(isinstance(x, np.ndarray) and x.ndim == 3 and x.shape[0] == N for x in ir0)):
            continue
        d0 = sorted(x.shape[1] for x in ir0)

        def reduced_like_exact(rep, key, what, desc):
            """reduce a representation equivalent to the regular one: same dimensions, sum d^2 = N, #irreps = #classes; the blocks
            themselves (unitary, homomorphism of the table, irreducible, inequivalent, complete) are judged by the contract"""
            GHOST['table'] = t
            try:
                ir = G.reduce_group_representation(rep)
            finally:
                GHOST['table'] = None
            d = sorted(x.shape[1] for x in ir) if isinstance(ir, list) and all(isinstance(x, np.ndarray) and x.ndim == 3 for x in ir) else None
            reg(d == d0 and d is not None and sum(x * x for x in d) == N and len(d) == ncls, key, what, {**desc, 'group': nm, 'dims': d, 'dims_of_exact_form': d0, 'classes': ncls})

        # ---- (a) the left-regular form up to rounding noise (a dense float matrix, noise not symmetry preserving)
        for eps in (1e-15, 1e-12, 3e-11):
            for it in range(1 if quick else 4):
                Ln = L + eps * rng.standard_normal(L.shape)
                ctx.set_case({'op': 'noisy-regular', 'group': nm, 'noise': eps})
                ctx.case('regime-noisy-regular', nm, eps, np.round(Ln, 6), it, nontrivial=N >= 2)
                with ctx.guard('regimes/noisy-regular'):
                    reduced_like_exact(Ln, 'reduce/noisy-regular-form-reduced-differently', 'the left-regular form plus rounding-level noise is reduced into other '
                                       'blocks than the exact integer form', {'noise': eps})
        # ---- (a) the regular representation in a random orthonormal basis (complex unitary / real orthogonal)
        for kind in ('unitary', 'orthogonal'):
            for it in range(1 if quick else 4):
                A = rng.standard_normal((N, N)) + (1j * rng.standard_normal((N, N)) if kind == 'unitary' else 0)
                U = np.linalg.qr(A)[0]
                R = U @ L @ U.conj().T
                ctx.set_case({'op': 'rotated-regular', 'group': nm, 'basis': kind})
                ctx.case('regime-rotated-regular', nm, kind, it, nontrivial=N >= 2)
                with ctx.guard('regimes/rotated-regular'):
                    reduced_like_exact(R, 'reduce/rotated-regular-form-reduced-differently', 'U L U^dagger (random orthonormal basis) is reduced into other blocks than L',
                                       {'basis': kind})
        # ---- (d) to_unitary_representation: P L P^-1 with a random well-conditioned P
        for it in range(1 if quick else 3):
            P = rng.standard_normal((N, N)) + 3 * np.sqrt(N) * np.eye(N)
            kappa = float(np.linalg.cond(P))
            X = P @ L @ np.linalg.inv(P)
            ctx.set_case({'op': 'to_unitary_representation', 'group': nm, 'cond_P': kappa})
            ctx.case('entry-to-unitary', nm, it, nontrivial=N >= 2)
            with ctx.guard('to_unitary_representation'):
                Xu, matP = G.to_unitary_representation(X, return_matP=True)
                Xu1 = G.to_unitary_representation(X)
                ok = isinstance(Xu, np.ndarray) and Xu.shape == X.shape and isinstance(matP, np.ndarray) and matP.shape == (N, N)
                tol = 1e3 * np.finfo(np.float64).eps * N * kappa**2     # conditioning of the INPUT basis change; 1e-7 is the decision threshold
                if tol > 1e-7:
                    ctx.inconclusive('to_unitary_representation: random basis change too ill-conditioned')
                else:
                    xc = Xu.astype(np.complex128) if ok else None
                    ent(ok and uerr(xc) <= max(tol, 1e-10) and herr(xc, t) <= max(tol, 1e-10), 'to_unitary_representation/not-a-unitary-homomorphism',
                        'to_unitary_representation(P L P^-1) is not a unitary representation of the same table', lambda: {'group': nm, 'cond_P': kappa,
                        'unitarity_err': uerr(xc) if ok else None, 'homomorphism_err': herr(xc, t) if ok else None, 'tol': tol})
                    ent(ok and float(np.abs(np.trace(xc, axis1=1, axis2=2) - np.trace(L, axis1=1, axis2=2)).max()) <= max(tol, 1e-10),
                        'to_unitary_representation/character-changed', 'the character of the unitarised representation differs from the character of the input',
                        {'group': nm, 'cond_P': kappa})
                    ent(ok and isinstance(Xu1, np.ndarray) and np.array_equal(Xu1, Xu), 'to_unitary_representation/return_matP-changes-value',
                        'return_matP=True gives another representation than the default call', {'group': nm})
                    if ok and uerr(xc) <= 1e-8:
                        reduced_like_exact(Xu, 'reduce/unitarised-regular-form-reduced-differently', 'the unitarised P L P^-1 is reduced into other blocks than L', {'cond_P': kappa})
        # ---- (d)/(b) matrix_block_diagonal: direct sum with multiplicities (incl. 1-dimensional blocks) reduces to the same irreps
        ctx.set_case({'op': 'matrix_block_diagonal', 'group': nm})
        ctx.case('entry-block-diagonal', nm)
        with ctx.guard('matrix_block_diagonal'):
            blocks = list(ir0) + [ir0[-1], ir0[0]]
            bd = G.matrix_block_diagonal(*blocks)
            dim = sum(x.shape[1] for x in blocks)
            ok = isinstance(bd, np.ndarray) and bd.shape == (N, dim, dim)
            exp = np.zeros((N, dim, dim), dtype=np.complex128)
            o = 0
            for x in blocks:
                exp[:, o:o + x.shape[1], o:o + x.shape[1]] = x
                o += x.shape[1]
            ent(ok and np.array_equal(bd, exp), 'matrix_block_diagonal/value', 'direct sum differs from the blocks placed on the diagonal (zeros elsewhere)',
                {'group': nm, 'dims': [x.shape[1] for x in blocks], 'shape': list(np.shape(bd))})
            one = G.matrix_block_diagonal(ir0[0])
            ent(isinstance(one, np.ndarray) and np.array_equal(one, ir0[0]), 'matrix_block_diagonal/single-block', 'direct sum of ONE block is not that block', {'group': nm})
            if ok:
                GHOST['table'] = t
                try:
                    ir = G.reduce_group_representation(bd)
                finally:
                    GHOST['table'] = None
                d = sorted(x.shape[1] for x in ir) if isinstance(ir, list) else None
                ent(d == d0, 'reduce/direct-sum-with-multiplicities-reduced-differently', 'the direct sum of all irreps (two of them twice) does not reduce to one copy of each irrep',
                    {'group': nm, 'dims': d, 'expected': d0})
        # ---- (d) get_character_and_class: orthogonality relations of the character table (rows weighted by class size, columns)
        ctx.set_case({'op': 'character-table', 'group': nm})
        ctx.case('entry-character-table', nm)
        with ctx.guard('character_and_class'):
            ch, cl, ct = G.get_character_and_class(ir0)
            ok = (isinstance(ch, np.ndarray) and ch.shape == (len(ir0), N) and isinstance(ct, np.ndarray) and ct.shape == (len(ir0), len(cl))
                  and sorted(x for c in cl for x in c) == list(range(N)) and len(cl) == len(ir0))
            ent(ok, 'character_and_class/shapes-or-classes-not-a-partition', 'character (n_irrep,N), table (n_irrep,n_class) square, classes a partition of the elements',
                {'group': nm, 'character': list(np.shape(ch)), 'table': list(np.shape(ct)), 'n_class': len(cl)})
            if ok:
                sz = np.array([len(c) for c in cl], dtype=np.float64)
                e_row = float(np.abs((ct * sz) @ ct.conj().T / N - np.eye(len(ir0))).max())
                e_col = float(np.abs(ct.conj().T @ ct - np.diag(N / sz)).max())
                ent(e_row <= TOL_CHI and e_col <= TOL_CHI * N, 'character_and_class/table-not-orthogonal',
                    'character table violates the row (class-size weighted) or column orthogonality relations', {'group': nm, 'row_err': e_row, 'col_err': e_col})
                ent(all(float(np.abs(ch[:, list(c)] - ct[:, [j]]).max()) <= TOL_CHI for j, c in enumerate(cl)), 'character_and_class/table-column!=character-on-class',
                    'a column of the character table is not the value of the characters on that class', {'group': nm})
                with contextlib.redirect_stdout(io.StringIO()):
                    G.pretty_print_character_table(ct, cl)
        # ---- (d)/(b) group algebra product through the Cayley table: (x*y)_k = sum_{a*b=k} x_a y_b; batch with ONE zero row
        for it in range(1 if quick else 4):
            x = rng.standard_normal(N) + 1j * rng.standard_normal(N)
            y = rng.standard_normal(N)
            xb = rng.standard_normal((3, N))
            xb[1] = 0
            Lr = rf.left_regular(t)
            ctx.set_case({'op': 'group_algebra_product', 'group': nm, 'x': x, 'y': y})
            ctx.case('entry-group-algebra', nm, it, nontrivial=N >= 2)
            with ctx.guard('group_algebra_product'):
                idx = G.get_index_cayley_table(t)
                ent(isinstance(idx, np.ndarray) and idx.shape == (N * N,) and np.array_equal(np.sort(idx), np.arange(N * N))
                    and np.array_equal(t.reshape(-1)[idx], np.repeat(np.arange(N), N)), 'get_index_cayley_table/value',
                    'the index is not a permutation of the N^2 table positions grouped by product value', {'group': nm})
                z = G.group_algebra_product(x, y, t)
                zi = G.group_algebra_product(x, y, idx, use_index=True)
                zr = np.einsum('a,akb,b->k', x, Lr, y)
                ent(isinstance(z, np.ndarray) and z.shape == (N,) and float(np.abs(z - zr).max()) <= 1e-12 * N * (1 + float(np.abs(zr).max())), 'group_algebra_product/value',
                    '(x*y)_k != sum over a*b=k of x_a y_b (reference: left regular form of the table)', lambda: {'group': nm, 'got': z, 'expected': zr})
                ent(isinstance(zi, np.ndarray) and isinstance(z, np.ndarray) and np.array_equal(zi, z), 'group_algebra_product/use_index-differs',
                    'use_index=True with the precomputed index gives another product', {'group': nm})
                zb = G.group_algebra_product(xb, y, t)
                rows = [G.group_algebra_product(r, y, t) for r in xb]
                ent(isinstance(zb, np.ndarray) and zb.shape == (3, N) and all(isinstance(r, np.ndarray) and r.shape == (N,) for r in rows)
                    and float(np.abs(zb - np.stack(rows)).max()) <= 1e-12 * N * (1 + float(np.abs(zb).max())) and not zb[1].any(),
                    'group_algebra_product/batched!=single', 'a batch with one zero row: rows differ from the single products / the zero row is not zero', {'group': nm})
                e = np.eye(N)
                a, b = int(rng.integers(N)), int(rng.integers(N))
                ent(np.array_equal(np.asarray(G.group_algebra_product(e[a], e[b], t)), e[t[a, b]]), 'group_algebra_product/basis-elements', 'e_a * e_b != e_{a*b}',
                    {'group': nm, 'a': a, 'b': b})

    # ---- (d) totient / primality helpers (the stated order of (Z/n)^* is the totient)
    ctx.workload('exhaustive')
    ctx.set_case({'op': 'totient-prime'})
    ctx.case('entry-totient-prime')
    with ctx.guard('hf_Euler_totient'):
        bad = [n for n in range(1, 257) if G.hf_Euler_totient(n) != rf.euler_phi(n)]
        ent(not bad, 'hf_Euler_totient/value', 'totient differs from the count of residues coprime to n', {'first_bad': bad[:5]})
        bad = [n for n in range(3, 61) if len(G.get_multiplicative_group_cayley_table(n)) != G.hf_Euler_totient(n)]
        ent(not bad, 'table/multiplicative/order!=hf_Euler_totient', 'the order of the (Z/n)^* table is not the library\'s own totient', {'first_bad': bad[:5]})
    with ctx.guard('hf_is_prime'):
        primes = {n for n in range(2, 2000) if all(n % q for q in range(2, int(n**0.5) + 1))}
        bad = [n for n in list(range(-3, 2000)) + [2**31 - 1, 2**31 + 11, (2**16 + 1)**2, 65521 * 65537] if bool(G.hf_is_prime(n)) != ((n in primes) if n < 2000 else n in (2**31 - 1, 2**31 + 11))]
        ent(not bad, 'hf_is_prime/value', 'primality answer differs from trial division (range -3..1999, squares of primes, 2^31-1)', {'first_bad': bad[:5]})
    # ---- (d) permutation_to_cycle_notation (the parity filter of the alternating table): all permutations of n<=5
    with ctx.guard('permutation_to_cycle_notation'):
        for n in range(1, 6):
            for perm in itertools.permutations(range(n)):
                for arg in ((perm,) if n < 5 else (perm, np.array(perm))[:1 + (perm[0] == 4)]):
                    cyc = G.permutation_to_cycle_notation(arg)
                    ok = (isinstance(cyc, tuple) and all(isinstance(c, tuple) and len(c) >= 1 for c in cyc) and sorted(x for c in cyc for x in c) == list(range(n))
                          and all(perm[c[i]] == c[(i + 1) % len(c)] for c in cyc for i in range(len(c))))
                    if not ok:
                        ctx.set_case({'op': 'cycle-notation', 'perm': list(perm)})
                    ent(ok, 'permutation_to_cycle_notation/not-the-cycles', 'the cycles are not a partition of 0..n-1 with perm[c_i] = c_{i+1}',
                        {'perm': list(perm), 'got': repr(cyc)[:200]})
    # ---- (d) check_young_diagram: accepts every partition, rejects non-partitions (its only purpose)
    ctx.set_case({'op': 'check_young_diagram'})
    with ctx.guard('check_young_diagram'):
        for N in range(1, 9):
            for sh in ry.partitions(N):
                for arg in (sh, list(sh), np.array(sh)):
                    G.check_young_diagram(arg)       # raising = violation through the guard
        ctx.hit('workload/entry-points')
    for bad_shape in [(1, 2), (2, 0), (3, 1, 2), (0,), (2, -1), ()]:
        try:
            G.check_young_diagram(bad_shape)
            rejected = False
        except AssertionError:
            rejected = True
        ent(rejected, 'check_young_diagram/accepts-non-partition', 'a sequence that is not a partition with positive parts passes the check', {'shape': list(bad_shape)})

    # ---- (a) integer regime: hook counts around 2^53 / 2^63 (contract: exact big-int reference), partition counts around 2^53
    ctx.workload('corner')
    for k in (28, 29, 30, 31, 34, 35, 36, 40):
        for sh in ((k, k), (2,) * k, (k, k - 1), (k, k, 1)):
            ctx.set_case({'op': 'hook-large', 'young': list(sh)})
            ctx.case('regime-hook', sh)
            with ctx.guard('hook'):
                h = G.get_hook_length(*sh)
                G.get_young_diagram_transpose(sh)
                reg(isinstance(h, int) and h == ry.syt_count_hook(sh), 'hook_length/value-near-2^53-2^63', 'hook-length count of a two-row / two-column shape '
                    '(Catalan-like, 2^50..2^72) is not the exact integer', {'young': list(sh), 'got': repr(h)[:60], 'bits': ry.syt_count_hook(sh).bit_length()})
    for N in (299, 300):      # p(299) < 2^53 < p(300); judged by the contract against the reference recurrences
        ctx.set_case({'op': 'partitions-near-2^53', 'N': N})
        ctx.case('regime-partitions', N)
        with ctx.guard('partitions'):
            v = G.get_sym_group_num_irrep(N)
            reg(isinstance(v, int) and v == ry.partition_count(N) == ry.partition_count_euler(N), 'num_irrep/value-near-2^53', 'p(N) around 2^53 is not the exact integer',
                {'N': N, 'got': repr(v)[:40]})

    # ---- (d) young_tableau_to_young_symmetrizer: |e| = prod row! * prod col!, distinct permutations, signs +-1, e*e = (N!/f) e
    ctx.workload('exhaustive')
    for N in range(1, 5 if quick else 6):
        for sh in ry.partitions(N):
            f = ry.syt_count_hook(sh)
            with ctx.quiet():
                T = G.get_all_young_tableaux(sh)
            if not (isinstance(T, np.ndarray) and T.ndim == 3 and len(T) == f):
                continue   # reported by the tableaux contract elsewhere
            size = math.prod(math.factorial(r) for r in sh) * math.prod(math.factorial(c) for c in ry.conjugate(sh))
            for tab in (T if N <= 4 else T[[0, len(T) - 1]]):
                ctx.set_case({'op': 'young-symmetrizer', 'young': list(sh), 'tableau': tab})
                ctx.case('entry-symmetrizer', sh, tab, nontrivial=N >= 2)
                with ctx.guard('young_symmetrizer'):
                    r = G.young_tableau_to_young_symmetrizer(sh, tab)
                    ok = isinstance(r, tuple) and len(r) == 2 and isinstance(r[0], np.ndarray) and r[0].shape == (size, N) and np.shape(r[1]) == (size,)
                    ops, sg = (r[0].tolist(), np.asarray(r[1]).tolist()) if ok else ([], [])
                    ok = ok and all(sorted(p) == list(range(N)) for p in ops) and set(sg) <= {1, -1} and len({tuple(p) for p in ops}) == size
                    ent(ok, 'young_symmetrizer/not-(prod row! col!)-distinct-signed-permutations', 'the symmetrizer must list prod(row!) prod(col!) distinct permutations of 0..N-1 with signs +-1',
                        {'young': list(sh), 'expected_terms': size, 'shape': list(np.shape(r[0])) if isinstance(r, tuple) and len(r) == 2 else None})
                    if ok and size <= 300:
                        e = {tuple(p): s for p, s in zip(ops, sg)}
                        e2 = {}
                        for p, a in e.items():
                            for q, b in e.items():
                                k = tuple(p[i] for i in q)
                                e2[k] = e2.get(k, 0) + a * b
                        c = math.factorial(N) // f
                        ent({k: v for k, v in e2.items() if v} == {k: c * v for k, v in e.items()}, 'young_symmetrizer/not-essentially-idempotent',
                            'e*e != (N!/f) e in the group algebra for the Young symmetrizer e of a standard tableau', {'young': list(sh), 'tableau': tab, 'N!/f': c})


def _run_repo_tests(ctx, files):
    """the repository's own test files, in this process, with the contracts attached (their verdict is not ours)."""
    import sys
    from vmon import core
    root = os.path.dirname(core.numqi_src())
    if not os.path.isdir(os.path.join(root, 'tests')):
        root = '/repo'
    paths = [os.path.join(root, f) for f in files if os.path.exists(os.path.join(root, f))]
    if not paths:
        ctx.inconclusive('repo test files not found')
        return
    import pytest
    sys.dont_write_bytecode = True  # nothing may be written under the repository
    cwd = os.getcwd()
    try:
        os.chdir(root)
        rc = pytest.main(['-q', '-p', 'no:cacheprovider', '--no-header', '-o', 'addopts='] + paths)
    finally:
        os.chdir(cwd)
    ctx.extra['repo_tests'] = {'files': files, 'pytest_exit': int(rc)}
    ctx.case('repo-tests', files)
