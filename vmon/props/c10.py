"""C10 - random generators return valid objects and are reproducible from a seed.

Validity: a postcondition on every public numqi.random function checks membership in the advertised set.
Reproducibility: a pair-history monitor. The workload calls f(args, seed=s), then a random interleaving of other RNG
consumers (global numpy / python / torch generators, unseeded numqi.random calls, calls with other seeds), then
f(args, seed=s) again: the two results must be bit-identical. While an integer-seeded call is in flight the harness also
interposes numpy.random.default_rng, random.Random and numqi's get_numpy_rng/get_random_rng and records every
generator created WITHOUT a seed ("entropy leak" witness independent of the outputs happening to differ), and
watches the global numpy/python generator states (a seeded call must not consume or reseed them).
"""
import itertools
import math
import random as pyrandom
import numpy as np

from vmon.core import to_numpy, digest

TECHNIQUE = ('runtime monitoring: validity postconditions on every public numqi.random function; pair-history monitor (call, random interleaving of other RNG consumers, same call: bit-identical) with interposition of numpy.random.default_rng / random.Random that records unseeded generators created inside an integer-seeded call and a watch on the global generator states')
LEVEL_TEXT = ('Exploration: every public generator x every optional-argument branch x seeds, each as a pair history with other random consumers in between; plus measure_quantum_vector, CliffordCircuit(seed), optimize.minimize(seed), CHABoundaryBagging.solve(seed). Distributional correctness is not claimed.')
RULE = ('cases = (function, argument branch, seed) for every public numqi.random function and every optional-argument branch, seeds '
        '0..N, each executed as a pair history call / random interleaving of other RNG consumers / same call; plus the other seeded APIs '
        '(measure_quantum_vector, CliffordCircuit, optimize.minimize, CHABoundaryBagging.solve). Non-trivial = the interleaving contained at '
        'least one consumer of a global generator and one unseeded numqi call; distinct by digest of (function, args, seed)')
EXHAUSTIVE = {'quick': True, 'thorough': True}
EXHAUSTIVE_DOMAINS = {'quick': ['every public function of numqi.random x every listed argument branch (enumerated at run time; a public function without '
                                'a validator makes the run inconclusive)'],
                      'thorough': ['every public function of numqi.random x every listed argument branch']}
ASSUMPTIONS = ['only integer seeds are claimed reproducible (Generator objects advance by design)',
               'admissible arguments only: rand_kraus_op needs num_term*dim_out>=dim_in, rand_choi_op rank*dim_out>=dim_in',
               'distributional correctness (Haar/Bures measure) is not claimed and not checked']
DECIDING = ['reproducible/pair', 'interpose/seeded-call-in-flight', 'api/positional']

TOL = 1e-9


# the documented parameter order of the public generators (docstring "Parameters:" order; for the undocumented ones the order of the
# shipped API): the specification against which positional calls are made
API_ORDER = {
    'rand_haar_state': ['dim', 'tag_complex', 'seed'], 'rand_haar_unitary': ['dim', 'seed'],
    'rand_special_orthogonal_matrix': ['dim', 'batch_size', 'tag_complex', 'seed'], 'rand_density_matrix': ['dim', 'k', 'kind', 'seed'],
    'rand_kraus_op': ['num_term', 'dim_in', 'dim_out', 'tag_complex', 'seed'], 'rand_choi_op': ['dim_in', 'dim_out', 'rank', 'seed'],
    'rand_povm': ['dim', 'num_term', 'seed'], 'rand_bipartite_state': ['dimA', 'dimB', 'k', 'seed', 'return_dm'],
    'rand_separable_dm': ['dimA', 'dimB', 'k', 'seed', 'pure_term'], 'rand_hermitian_matrix': ['d', 'eig', 'tag_complex', 'seed'],
    'rand_channel_matrix_space': ['dim_in', 'num_term', 'seed'], 'rand_quantum_channel_matrix_subspace': ['dim_in', 'num_hermite', 'seed'],
    'rand_ABk_density_matrix': ['dimA', 'dimB', 'kext', 'seed'], 'rand_reducible_matrix_subspace': ['num_matrix', 'partition', 'return_unitary', 'seed'],
    'rand_symmetric_inner_product': ['N0', 'zero_eps', 'seed'],
    'rand_orthonormal_matrix_basis': ['num_orthonormal', 'dim_qudit', 'num_qudit', 'num_sample', 'with_I', 'seed'],
    'rand_adjacent_matrix': ['dim', 'seed'], 'rand_n_sphere': ['dim', 'size', 'seed'], 'rand_n_ball': ['dim', 'size', 'seed'],
    'rand_SpF2': ['n', 'return_kind', 'seed'], 'rand_Clifford_group': ['n', 'seed'], 'rand_pauli': ['n', 'is_hermitian', 'seed'],
}


def shards(tier, seed):
    names = ['state', 'matrix', 'channel', 'space', 'f2', 'other-apis', 'cha', 'seed-apis']
    if tier == 'thorough':
        names.append('repo-tests')
    return [{'name': n} for n in names]


def herm(a):
    return np.abs(a - np.swapaxes(a.conj(), -1, -2)).max() if a.size else 0.0


def psd_min(a):
    return float(np.linalg.eigvalsh((a + np.swapaxes(a.conj(), -1, -2)) / 2).min())


def num_rank(a, eps=1e-9):
    s = np.linalg.svd(a, compute_uv=False)
    return int((s > eps * max(1.0, s.max())).sum())


def is_symplectic(S):
    n = S.shape[0] // 2
    L = np.zeros((2 * n, 2 * n), dtype=np.int64)
    L[:n, n:] = np.eye(n)
    L[n:, :n] = np.eye(n)
    return np.array_equal((S.T.astype(np.int64) @ L @ S.astype(np.int64)) % 2, L)


class Mon:
    def __init__(self, ctx, numqi):
        self.ctx = ctx
        self.numqi = numqi
        self.depth_seeded = 0
        self.current = None
        self.leaks = 0

    # ------------------------------------------------------------------ validity
    def validators(self):
        ctx = self.ctx
        numqi = self.numqi

        def A(c, i, name, default=None):
            return c.arg(i, name, default)

        def v_haar_state(c, r):
            dim = A(c, 0, 'dim')
            tc = A(c, 1, 'tag_complex', True)
            ok = r.shape == (dim,) and abs(np.linalg.norm(r) - 1) < TOL and (np.iscomplexobj(r) == bool(tc))
            return ok, 'unit vector of length dim with the requested field'

        def v_haar_unitary(c, r):
            d = A(c, 0, 'dim')
            return r.shape == (d, d) and np.abs(r.conj().T @ r - np.eye(d)).max() < TOL, 'unitary dim x dim'

        def v_so(c, r):
            d = A(c, 0, 'dim')
            bs = A(c, 1, 'batch_size', None)
            tc = A(c, 2, 'tag_complex', False)
            shape = (d, d) if bs is None else (bs, d, d)
            if r.shape != shape:
                return False, f'shape {shape}'
            m = r.reshape(-1, d, d)
            ok = np.abs(np.swapaxes(m.conj(), 1, 2) @ m - np.eye(d)).max() < TOL and np.abs(np.linalg.det(m) - 1).max() < 1e-8
            return ok and (np.iscomplexobj(r) == bool(tc)), 'special orthogonal / special unitary (det 1) with the requested field'

        def v_dm(c, r):
            d = A(c, 0, 'dim')
            k = A(c, 1, 'k', None) or d
            ok = r.shape == (d, d) and herm(r) < TOL and abs(np.trace(r) - 1) < TOL and psd_min(r) > -TOL and num_rank(r) <= k
            return ok, 'Hermitian trace-one PSD of rank <= k'

        def v_kraus(c, r):
            nt, di, do = A(c, 0, 'num_term'), A(c, 1, 'dim_in'), A(c, 2, 'dim_out')
            tc = A(c, 3, 'tag_complex', True)
            if r.shape != (nt, do, di):
                return False, 'shape (num_term, dim_out, dim_in)'
            g = np.einsum('kab,kac->bc', r.conj(), r)
            err = np.abs(g - np.eye(di)).max()
            if err > 1e-7 and err < 1e-3 and nt * do == di:
                ctx.inconclusive('rand_kraus_op-square-illconditioned')
                return True, ''
            return err < 1e-7 and (np.iscomplexobj(r) == bool(tc)), 'sum_k K^dagger K = identity with the requested field'

        def v_choi(c, r):
            di, do = A(c, 0, 'dim_in'), A(c, 1, 'dim_out')
            rank = A(c, 2, 'rank', None) or di * do
            if r.shape != (di * do, di * do):
                return False, 'shape'
            pt = np.einsum('abcb->ac', r.reshape(di, do, di, do))
            ok = herm(r) < 1e-8 and psd_min(r) > -1e-8 and np.abs(pt - np.eye(di)).max() < 1e-7 and num_rank(r, 1e-8) <= rank
            return ok, 'Hermitian PSD Choi operator with Tr_out = identity and rank <= rank'

        def v_povm(c, r):
            d, nt = A(c, 0, 'dim'), A(c, 1, 'num_term')
            if r.shape != (nt, d, d):
                return False, 'shape'
            ok = herm(r) < 1e-8 and min(psd_min(x) for x in r) > -1e-8 and np.abs(r.sum(axis=0) - np.eye(d)).max() < 1e-7
            return ok, 'POVM: PSD elements summing to the identity'

        def v_bipartite(c, r):
            dA = A(c, 0, 'dimA')
            dB = A(c, 1, 'dimB', None) or dA
            k = A(c, 2, 'k', None)
            rd = A(c, 4, 'return_dm', False)
            if rd:
                ok = r.shape == (dA * dB, dA * dB) and herm(r) < TOL and abs(np.trace(r) - 1) < TOL and num_rank(r) == 1
                if ok and k is not None:
                    w, v = np.linalg.eigh(r)
                    ok = num_rank(v[:, -1].reshape(dA, dB)) <= k
                return ok, 'projector of a unit vector with Schmidt rank <= k'
            ok = r.shape == (dA * dB,) and abs(np.linalg.norm(r) - 1) < TOL
            if ok and k is not None:
                ok = num_rank(r.reshape(dA, dB)) <= k
            return ok, 'unit vector with Schmidt rank <= k'

        def v_sep(c, r):
            dA = A(c, 0, 'dimA')
            dB = A(c, 1, 'dimB', None) or dA
            k = A(c, 2, 'k', 2)
            pure = A(c, 4, 'pure_term', False)
            if r.shape != (dA * dB, dA * dB):
                return False, 'shape'
            pt = r.reshape(dA, dB, dA, dB).transpose(0, 3, 2, 1).reshape(dA * dB, dA * dB)
            ok = herm(r) < TOL and abs(np.trace(r) - 1) < TOL and psd_min(r) > -TOL and psd_min(pt) > -TOL
            if pure:
                ok = ok and num_rank(r) <= k
            return ok, 'trace-one PSD, PPT (necessary for separability), rank <= k for pure terms'

        def v_hermitian(c, r):
            d = A(c, 0, 'd')
            eig = A(c, 1, 'eig', None)
            tc = A(c, 2, 'tag_complex', True)
            ok = r.shape == (d, d) and herm(r) < TOL * max(1, np.abs(r).max()) and (np.iscomplexobj(r) == bool(tc))
            if ok and eig is not None:
                w = np.linalg.eigvalsh(r)
                ok = w.min() >= eig[0] - 1e-8 and w.max() <= eig[1] + 1e-8
            return ok, 'Hermitian (real symmetric) with eigenvalues inside eig'

        def v_channel_space(c, r):
            d, nt = A(c, 0, 'dim_in'), A(c, 1, 'num_term')
            ok = r.shape == (nt, d, d) and np.abs(r[0] - np.eye(d)).max() == 0 and herm(r) < TOL * max(1, np.abs(r).max())
            return ok, 'num_term Hermitian matrices, the first one the identity'

        def v_qc_subspace(c, r):
            d, nh = A(c, 0, 'dim_in'), A(c, 1, 'num_hermite')
            if hasattr(nh, '__len__'):
                ns, na = int(nh[0]), int(nh[1])
                if r.shape != (ns + na, d, d) or np.iscomplexobj(r):
                    return False, 'shape (num_sym+num_antisym, d, d), real'
                ok = np.abs(r[0] - np.eye(d)).max() < TOL and np.abs(r[:ns] - r[:ns].transpose(0, 2, 1)).max() < TOL
                if na:
                    ok = ok and np.abs(r[ns:] + r[ns:].transpose(0, 2, 1)).max() < TOL
                ok = ok and num_rank(r.reshape(ns + na, -1)) == ns + na
                return ok, 'identity + symmetric + antisymmetric real matrices, linearly independent'
            ok = r.shape == (nh, d, d) and np.abs(r[0] - np.eye(d)).max() < TOL and herm(r) < TOL and num_rank(r.reshape(nh, -1)) == nh
            return ok, 'identity + Hermitian matrices, linearly independent'

        def v_abk(c, r):
            dA, dB, k = A(c, 0, 'dimA'), A(c, 1, 'dimB'), A(c, 2, 'kext')
            D = dA * dB**k
            if r.shape != (D, D):
                return False, 'shape'
            ok = herm(r) < TOL and abs(np.trace(r) - 1) < TOL and psd_min(r) > -TOL
            t = r.reshape([dA] + [dB] * k + [dA] + [dB] * k)
            for perm in itertools.permutations(range(k)):
                ax = [0] + [1 + x for x in perm] + [k + 1] + [k + 2 + x for x in perm]
                ok = ok and np.abs(np.transpose(t, ax) - t).max() < TOL
            return ok, 'trace-one PSD state invariant under every permutation of the B copies'

        def v_reducible(c, r):
            nm, part = A(c, 0, 'num_matrix'), [int(x) for x in A(c, 1, 'partition')]
            ru = A(c, 2, 'return_unitary', False)
            N = sum(part)
            if ru:
                ms, U = r
            else:
                ms, U = r, None
            ms = to_numpy(ms)
            if ms.shape != (nm, N, N):
                return False, 'shape (num_matrix, N, N)'
            if U is None:
                return True, ''
            U = to_numpy(U)
            ok = np.abs(U @ U.T - np.eye(N)).max() < TOL
            blk = U @ ms @ U.T
            mask = np.zeros((N, N), dtype=bool)
            off = 0
            for p in part:
                mask[off:off + p, off:off + p] = True
                off += p
            ok = ok and np.abs(blk[:, ~mask]).max(initial=0) < 1e-8
            return ok, 'U orthogonal and U M U^T block diagonal for the partition'

        def v_sym_inner(c, r):
            N = A(c, 0, 'N0')
            B, U = (to_numpy(x) for x in r)
            if B.ndim != 3 or B.shape[1:] != (N, N) or U.shape != (N, N):
                return False, 'shapes'
            m = B @ U - U.T @ B
            return np.abs(m + m.transpose(0, 2, 1)).max() < 1e-7, 'x^T B U x = x^T U^T B x for all x'

        def v_onb(c, r):
            no, dq = A(c, 0, 'num_orthonormal'), A(c, 1, 'dim_qudit')
            nq = A(c, 2, 'num_qudit', 1)
            ns = A(c, 3, 'num_sample', None)
            wi = A(c, 4, 'with_I', False)
            items = [r] if ns is None else list(r)
            if ns is not None and len(items) != ns:
                return False, 'num_sample items'
            D = dq**nq
            for x in items:
                x = to_numpy(x)
                if x.shape != (no * D + (1 if wi else 0), D, D):
                    return False, 'shape'
                if wi:
                    if np.abs(x[0] - np.eye(D)).max() > TOL:
                        return False, 'first element identity'
                    x = x[1:]
                g = x.reshape(no, D, D, D)
                for basis in g:
                    if np.abs(basis.sum(axis=0) - np.eye(D)).max() > 1e-8 or herm(basis) > 1e-8:
                        return False, 'each basis resolves the identity'
                    tr = np.einsum('iab,jba->ij', basis, basis)
                    if np.abs(tr - np.eye(D)).max() > 1e-8:
                        return False, 'rank-one orthogonal projectors'
            return True, ''

        def v_adj(c, r):
            d = A(c, 0, 'dim')
            return (r.shape == (d, d) and r.dtype == np.uint8 and np.array_equal(r, r.T) and not np.diag(r).any() and r.max(initial=0) <= 1), 'symmetric 0/1 zero-diagonal uint8'

        def shape_of(c):
            dim = A(c, 0, 'dim')
            size = A(c, 1, 'size', None)
            if size is None:
                return (dim,)
            if not hasattr(size, '__len__'):
                return (int(size), dim)
            return tuple(size) + (dim,)

        def v_sphere(c, r):
            return r.shape == shape_of(c) and np.abs(np.linalg.norm(r, axis=-1) - 1).max() < TOL, 'unit vectors of shape size+(dim,)'

        def v_ball(c, r):
            return r.shape == shape_of(c) and np.linalg.norm(r, axis=-1).max() <= 1 + 1e-12, 'vectors of norm <= 1 of shape size+(dim,)'

        def v_f2(c, r):
            size = tuple(int(x) for x in c.args)
            ok = r.shape == size and r.dtype == np.uint8 and r.max(initial=0) <= 1
            if c.kwargs.get('not_zero'):
                ok = ok and r.any()
            if c.kwargs.get('not_one'):
                ok = ok and not r.all()
            return ok, 'binary uint8 array of the requested shape honouring not_zero / not_one'

        def v_spf2(c, r):
            n = A(c, 0, 'n')
            kind = str(A(c, 1, 'return_kind', 'matrix')).lower()
            base = numqi.group.spf2.get_number(n, kind='base')
            tup = mat = None
            if kind == 'matrix':
                mat = r
            elif kind == 'int_tuple':
                tup = r
            else:
                tup, mat = r
            ok = True
            if tup is not None:
                ok = len(tup) == len(base) and all(0 <= int(t) < int(b) for t, b in zip(tup, base))
            if mat is not None:
                ok = ok and mat.shape == (2 * n, 2 * n) and mat.dtype == np.uint8 and is_symplectic(mat)
            if tup is not None and mat is not None:
                ok = ok and np.array_equal(numqi.group.spf2.from_int_tuple(tup), mat)
            return ok, 'symplectic matrix / mixed-radix tuple in range / consistent pair'

        def v_clifford(c, r):
            n = A(c, 0, 'n')
            cr, cm = r
            return (cr.shape == (2 * n,) and cr.dtype == np.uint8 and cr.max(initial=0) <= 1 and cm.shape == (2 * n, 2 * n) and is_symplectic(cm)), 'binary phase vector and symplectic matrix'

        def v_pauli(c, r):
            n = A(c, 0, 'n')
            flag = A(c, 1, 'is_hermitian', None)
            f2 = r.F2
            ok = f2.shape == (2 * n + 2,) and f2.dtype == np.uint8 and f2.max(initial=0) <= 1
            if ok and flag is not None:
                k = (2 * int(f2[0]) + int(f2[1]) - int(np.dot(f2[2:2 + n].astype(int), f2[2 + n:].astype(int)))) % 4
                ok = (k % 2 == 0) == bool(flag)
            return ok, 'binary Pauli vector with the requested hermiticity'

        return {
            'rand_haar_state': v_haar_state, 'rand_haar_unitary': v_haar_unitary, 'rand_special_orthogonal_matrix': v_so,
            'rand_density_matrix': v_dm, 'rand_kraus_op': v_kraus, 'rand_choi_op': v_choi, 'rand_povm': v_povm,
            'rand_bipartite_state': v_bipartite, 'rand_separable_dm': v_sep, 'rand_hermitian_matrix': v_hermitian,
            'rand_channel_matrix_space': v_channel_space, 'rand_quantum_channel_matrix_subspace': v_qc_subspace,
            'rand_ABk_density_matrix': v_abk, 'rand_reducible_matrix_subspace': v_reducible,
            'rand_symmetric_inner_product': v_sym_inner, 'rand_orthonormal_matrix_basis': v_onb, 'rand_adjacent_matrix': v_adj,
            'rand_n_sphere': v_sphere, 'rand_n_ball': v_ball, 'rand_F2': v_f2, 'rand_SpF2': v_spf2, 'rand_Clifford_group': v_clifford,
            'rand_pauli': v_pauli,
        }

    def install(self):
        ctx, numqi = self.ctx, self.numqi
        R = numqi.random
        vals = self.validators()
        public = [n for n in dir(R) if n.startswith('rand_') and callable(getattr(R, n))]
        missing = [n for n in public if n not in vals]
        ctx.extra['public_functions'] = public
        if missing:
            ctx.extra['functions_without_validator'] = missing
            ctx.inconclusive('public-function-without-validator', len(missing))
        mon = self

        def make(name):
            validator = vals[name]

            def pre(c):
                seed = c.kwargs.get('seed')
                seeded = isinstance(seed, (int, np.integer)) and not isinstance(seed, bool)
                if seeded:
                    mon.depth_seeded += 1
                    if mon.depth_seeded == 1:
                        mon.current = name
                        ctx.hit('interpose/seeded-call-in-flight')
                        return ('seeded-outer', np.random.get_state()[1].tobytes(), np.random.get_state()[2], pyrandom.getstate())
                    return ('seeded-inner',)
                return None

            def post(c):
                try:
                    if c.exc is None:
                        r = c.result
                        rr = to_numpy(r) if isinstance(r, np.ndarray) or hasattr(r, 'detach') else r
                        ok, what = validator(c, rr)
                        ctx.check(ok, f'valid/{name}', f'{name} did not return a member of the advertised set ({what})',
                                  {'args': c.args, 'kwargs': {k: v for k, v in c.kwargs.items() if k != 'seed'}, 'seed': repr(c.kwargs.get('seed'))[:40]},
                                  point=f'valid/{name}')
                finally:
                    if c.snap is not None:
                        if c.snap[0] == 'seeded-outer':
                            st = np.random.get_state()
                            ctx.check(st[1].tobytes() == c.snap[1] and st[2] == c.snap[2] and pyrandom.getstate() == c.snap[3], 'reproducible/global-generator-touched',
                                      'a call with an integer seed consumed or reseeded a global generator (numpy / python random)', {'function': name})
                            mon.current = None
                        mon.depth_seeded -= 1

            return pre, post

        for name in public:
            if name in vals:
                pre, post = make(name)
                owner = R._spf2 if hasattr(R._spf2, name) else R._internal
                ctx.attach(owner, name, pre=pre, post=post, point=f'numqi.random.{name}')

        # ---- interposition: any generator created without a seed while an integer-seeded call is in flight
        orig_default_rng = np.random.default_rng
        orig_Random = pyrandom.Random

        def leak(kind):
            if mon.depth_seeded > 0 and not ctx._quiet:
                mon.leaks += 1
                ctx.evaluations += 1
                ctx.violation('reproducible/unseeded-generator', f'an unseeded generator ({kind}) was created inside a call that was given an integer seed',
                              {'function': mon.current, 'generator': kind})

        def default_rng(seed=None, *a, **k):
            if seed is None:
                leak('numpy.random.default_rng()')
            return orig_default_rng(seed, *a, **k)

        class Random(orig_Random):
            def __init__(self, x=None):
                if x is None:
                    leak('random.Random()')
                super().__init__(x)

        np.random.default_rng = default_rng
        pyrandom.Random = Random
        self._restore = (orig_default_rng, orig_Random)

    def uninstall(self):
        np.random.default_rng, pyrandom.Random = self._restore


# ------------------------------------------------------------------------------------------- workloads
def same(a, b):
    if isinstance(a, (tuple, list)):
        return isinstance(b, (tuple, list)) and len(a) == len(b) and all(same(x, y) for x, y in zip(a, b))
    if hasattr(a, 'F2'):
        return np.array_equal(a.F2, b.F2)
    if isinstance(a, np.ndarray) or hasattr(a, 'detach'):
        a, b = to_numpy(a), to_numpy(b)
        return a.dtype == b.dtype and a.shape == b.shape and a.tobytes() == b.tobytes()
    return a == b


def snapshot_and_edit(r):
    """deep copy of a result; the original arrays are then overwritten in place (history: the caller edits what it got)."""
    import copy
    snap = copy.deepcopy(r)

    def edit(x):
        if isinstance(x, np.ndarray) and x.flags.writeable and x.size:
            x[...] = 1 if x.dtype.kind in 'iub' else x * 0 + 2.5
        elif isinstance(x, (tuple, list)):
            for y in x:
                edit(y)
        elif hasattr(x, 'F2'):
            edit(x.F2)
    try:
        edit(r)
    except Exception:
        pass
    return snap


def noise(ctx, numqi, rng):
    """a random interleaving of other consumers of randomness; returns a description."""
    import torch
    ops = []
    for _ in range(int(rng.integers(2, 7))):
        k = int(rng.integers(9))
        if k == 0:
            np.random.seed(int(rng.integers(2**31))); ops.append('np.random.seed')
        elif k == 1:
            np.random.rand(int(rng.integers(1, 5))); ops.append('np.random.rand')
        elif k == 2:
            pyrandom.seed(int(rng.integers(2**31))); pyrandom.random(); ops.append('random.seed+random')
        elif k == 3:
            torch.manual_seed(int(rng.integers(2**31))); torch.rand(2); ops.append('torch.rand')
        elif k == 4:
            with ctx.quiet():
                np.random.default_rng().normal(size=3)
            ops.append('default_rng()')
        elif k == 5:
            numqi.random.rand_haar_state(3); ops.append('numqi.rand_haar_state(unseeded)')
        elif k == 6:
            numqi.random.rand_density_matrix(2, seed=int(rng.integers(2**31))); ops.append('numqi.rand_density_matrix(other seed)')
        elif k == 7:
            numqi.random.rand_F2(3); numqi.random.rand_SpF2(1); ops.append('numqi.rand_F2/SpF2(unseeded)')
        else:
            numqi.random.rand_n_sphere(3, size=2, seed=np.random.default_rng(int(rng.integers(2**31)))); ops.append('numqi.rand_n_sphere(generator)')
    return ops


def pair(ctx, numqi, name, f, args, kwargs, seed):
    rng = ctx.rng
    ctx.set_case({'function': name, 'args': args, 'kwargs': kwargs, 'seed': seed})
    with ctx.guard(f'call/{name}'):
        r1 = f(*args, **kwargs, seed=seed)
        r1 = snapshot_and_edit(r1)  # keep a copy, overwrite the returned arrays in place (a cached / aliased result would poison the repeat)
        ops = noise(ctx, numqi, rng)
        r2 = f(*args, **kwargs, seed=seed)
        nt = any(o.startswith(('np.random', 'random', 'torch')) for o in ops) and any('unseeded' in o or o == 'default_rng()' for o in ops)
        ctx.case(name, args, kwargs, seed, nontrivial=nt, sample={'function': name, 'args': args, 'kwargs': kwargs, 'seed': seed, 'interleaved': ops}
                 if rng.random() < 0.01 else None)
        ctx.check(same(r1, r2), f'reproducible/not-bit-identical/{name}', f'{name}(..., seed=s) called twice with other random calls in between gave different results',
                  {'args': args, 'kwargs': kwargs, 'seed': seed, 'interleaved': ops}, point='reproducible/pair')
        # API surface: the same call with every argument passed POSITIONALLY in the documented order (seed included)
        order = API_ORDER.get(name)
        if order is not None:
            import inspect
            sig = inspect.signature(ctx.orig(f))
            defaults = {k: v.default for k, v in sig.parameters.items() if v.default is not inspect.Parameter.empty}
            pos = list(args)
            okp = True
            for pname in order[len(args):]:
                if pname == 'seed':
                    pos.append(seed)
                elif pname in kwargs:
                    pos.append(kwargs[pname])
                elif pname in defaults:
                    pos.append(defaults[pname])
                else:
                    okp = False
                    break
            if okp and not name == 'rand_F2':
                r3 = f(*pos)
                ctx.check(same(r3, r2), f'api/positional-call-differs-from-keyword-call/{name}',
                          f'{name} called positionally in its documented parameter order gives a different result than the keyword call with the same seed',
                          {'documented_order': order, 'positional_args': [repr(x)[:40] for x in pos]}, point='api/positional')
        # a Generator object is also accepted wherever an int is (validity only)
        if name not in ('rand_SpF2', 'rand_Clifford_group'):
            f(*args, **kwargs, seed=np.random.default_rng(seed))
        f(*args, **kwargs)  # seed=None branch (validity only)


def branches(tier):
    T = tier == 'thorough'
    dims = [1, 2, 3, 4, 5] if T else [1, 2, 3, 4]
    B = {'state': [], 'matrix': [], 'channel': [], 'space': [], 'f2': []}
    for d in dims:
        for tc in (True, False):
            B['state'].append(('rand_haar_state', (d,), {'tag_complex': tc}))
        B['state'].append(('rand_haar_state', (d,), {}))
        B['matrix'].append(('rand_haar_unitary', (d,), {}))
        for k in [None] + list(range(1, d + 1)):
            for kind in ('haar', 'bures'):
                B['state'].append(('rand_density_matrix', (d,), {'k': k, 'kind': kind}))
        if d >= 2:
            for bs in (None, 1, 3):
                for tc in (False, True):
                    B['matrix'].append(('rand_special_orthogonal_matrix', (d,), {'batch_size': bs, 'tag_complex': tc}))
        for eig in (None, (-1.0, 2.0), (0.5, 0.5), (0.0, 1e-3)):
            for tc in (True, False):
                if d >= 2 or eig is None:
                    B['matrix'].append(('rand_hermitian_matrix', (d,), {'eig': eig, 'tag_complex': tc}))
        for nt in (1, 2, 4):
            B['matrix'].append(('rand_povm', (d, nt), {}))
        for size in (None, 3, (2, 3), ()):
            B['matrix'].append(('rand_n_sphere', (d,), {'size': size}))
            B['matrix'].append(('rand_n_ball', (d,), {'size': size}))
        if d >= 2:
            B['matrix'].append(('rand_adjacent_matrix', (d,), {}))
    for dA in ([1, 2, 3] if not T else [1, 2, 3, 4]):
        for dB in (None, 2, 3):
            dBe = dB or dA
            for k in [None] + list(range(1, min(dA, dBe) + 1)):
                for rd in (False, True):
                    B['state'].append(('rand_bipartite_state', (dA,), {'dimB': dB, 'k': k, 'return_dm': rd}))
            for k in (1, 2, 5):
                for pure in (False, True):
                    B['state'].append(('rand_separable_dm', (dA,), {'dimB': dB, 'k': k, 'pure_term': pure}))
    for di in dims:
        for do in dims:
            for nt in (1, 2, 3, di * do):
                if nt * do >= di and (nt * do > di or di == 1):
                    for tc in (True, False):
                        B['channel'].append(('rand_kraus_op', (nt, di, do), {'tag_complex': tc}))
            for rank in (None, 1, 2, di * do):
                r = rank or di * do
                if r * do >= di and r <= di * do and (r * do > di or di == 1):
                    B['channel'].append(('rand_choi_op', (di, do), {'rank': rank}))
    for dA, dB, k in [(2, 2, 1), (2, 2, 2), (2, 2, 3), (2, 3, 2), (3, 2, 2), (1, 2, 3)] + ([(2, 2, 4), (3, 3, 2)] if T else []):
        B['state'].append(('rand_ABk_density_matrix', (dA, dB, k), {}))
    for d in (2, 3, 4):
        for nt in (1, 2, 4):
            B['space'].append(('rand_channel_matrix_space', (d, nt), {}))
        for nh in (1, 2, d * d - 1, d * d):
            B['space'].append(('rand_quantum_channel_matrix_subspace', (d, nh), {}))
        N1 = d * (d - 1) // 2
        for ns, na in [(1, 0), (2, 1), (d * d - N1, N1), (1, N1), (3, 0)]:
            # (N1==1 and na>0) needs a 1x1 special orthogonal matrix, which rand_special_orthogonal_matrix rejects (dim>=2): undocumented corner, not driven
            if 1 <= ns <= d * d - N1 and 0 <= na <= N1 and not (N1 == 1 and na > 0):
                B['space'].append(('rand_quantum_channel_matrix_subspace', (d, (ns, na)), {}))
        B['space'].append(('rand_symmetric_inner_product', (d,), {}))
        for no in (2, 3, 4):  # num_orthonormal=1 (computational basis only) fails in np.stack of an empty list: undocumented corner, not driven
            for nq in (1, 2):
                if d**nq <= 9:
                    for ns in (None, 1, 2):
                        for wi in (False, True):
                            B['space'].append(('rand_orthonormal_matrix_basis', (no, d), {'num_qudit': nq, 'num_sample': ns, 'with_I': wi}))
    for part in ([1, 1], [2, 1], [2, 2], [1, 2, 3]):
        for ru in (False, True):
            B['space'].append(('rand_reducible_matrix_subspace', (3, part), {'return_unitary': ru}))
    for size in ((), (1,), (5,), (2, 3), (4, 4)):
        for nz, no in ((False, False), (True, False), (False, True), (True, True)):
            if nz and no and int(np.prod(size)) <= 1:
                continue
            B['f2'].append(('rand_F2', size, {'not_zero': nz, 'not_one': no}))
    for n in ([1, 2, 3, 5] if not T else [1, 2, 3, 4, 6, 10]):
        for rk in ('matrix', 'int_tuple', 'int_tuple-matrix'):
            B['f2'].append(('rand_SpF2', (n,), {'return_kind': rk}))
        B['f2'].append(('rand_Clifford_group', (n,), {}))
        for flag in (None, True, False):
            B['f2'].append(('rand_pauli', (n,), {'is_hermitian': flag}))
    return B


def run_group(ctx, mon, numqi, group):
    ctx.workload('exhaustive')
    R = numqi.random
    nseed = 5 if ctx.tier == 'quick' else 30
    covered = set()
    for name, args, kwargs in branches(ctx.tier)[group]:
        covered.add(name)
        f = getattr(R, name)
        for s in range(nseed):
            seed = s if s < 3 else int(ctx.rng.integers(2**31))
            pair(ctx, numqi, name, f, args, kwargs, seed)
    ctx.extra[f'functions_driven_{group}'] = sorted(covered)


def run_other(ctx, mon, numqi):
    rng = ctx.rng
    ctx.workload('realistic')
    import torch
    n = 20 if ctx.tier == 'quick' else 150
    # measurement
    for it in range(n):
        nq = int(rng.integers(1, 5))
        psi = numqi.random.rand_haar_state(2**nq, seed=int(rng.integers(2**31)))
        idx = tuple(sorted(int(x) for x in rng.permutation(nq)[:int(rng.integers(1, nq + 1))]))
        seed = int(rng.integers(2**31))
        ctx.set_case({'api': 'measure_quantum_vector', 'index': idx, 'seed': seed})
        with ctx.guard('call/measure'):
            a = numqi.sim.state.measure_quantum_vector(psi, idx, seed)
            ops = noise(ctx, numqi, rng)
            b = numqi.sim.state.measure_quantum_vector(psi, idx, seed)
            ctx.case('measure', psi, idx, seed)
            ctx.check(a[0] == b[0] and same(a[1], b[1]) and same(a[2], b[2]), 'reproducible/not-bit-identical/measure_quantum_vector',
                      'measure_quantum_vector(seed=s) not reproducible', {'index': idx, 'interleaved': ops}, point='reproducible/pair')
    # CliffordCircuit(seed): the random gate choices
    for it in range(n):
        seed = int(rng.integers(2**31))
        ctx.set_case({'api': 'CliffordCircuit', 'seed': seed})
        with ctx.guard('call/CliffordCircuit'):
            def build():
                c = numqi.sim.CliffordCircuit(seed)
                for q in range(4):
                    c.random_one_qubit_gate(q)
                c.random_two_qubit_gate(0, 1); c.random_two_qubit_gate(2, 3); c.random_one_qubit_gate(1)
                return list(c.gate_index_list)
            a = build()
            ops = noise(ctx, numqi, rng)
            b = build()
            ctx.case('clifford', seed)
            ctx.check(a == b, 'reproducible/not-bit-identical/CliffordCircuit', 'CliffordCircuit(seed) random gates not reproducible', {'a': a, 'b': b, 'interleaved': ops},
                      point='reproducible/pair')
    # optimize.minimize(seed): theta0 and the result
    class Quad(torch.nn.Module):
        def __init__(self, H):
            super().__init__()
            self.theta = torch.nn.Parameter(torch.zeros(H.shape[0], dtype=torch.float64))
            self.H = torch.tensor(H)

        def forward(self):
            return (self.theta @ self.H @ self.theta + torch.sin(self.theta).sum() + (self.theta**4).sum())

    for it in range(6 if ctx.tier == 'quick' else 40):
        d = int(rng.integers(2, 6))
        Hm = rng.normal(size=(d, d))
        Hm = Hm @ Hm.T
        seed = int(rng.integers(2**31))
        ctx.set_case({'api': 'optimize.minimize', 'seed': seed})
        with ctx.guard('call/minimize'):
            m1, m2 = Quad(Hm), Quad(Hm)
            r1 = numqi.optimize.minimize(m1, theta0='uniform', num_repeat=2, tol=1e-10, print_every_round=0, seed=seed)
            ops = noise(ctx, numqi, rng)
            r2 = numqi.optimize.minimize(m2, theta0='uniform', num_repeat=2, tol=1e-10, print_every_round=0, seed=seed)
            ctx.case('minimize', Hm, seed)
            ctx.check(float(r1.fun) == float(r2.fun) and same(np.asarray(r1.x), np.asarray(r2.x)), 'reproducible/not-bit-identical/minimize',
                      'optimize.minimize(seed=s) not reproducible', {'fun': [float(r1.fun), float(r2.fun)], 'interleaved': ops}, point='reproducible/pair')


def run_cha(ctx, mon, numqi):
    rng = ctx.rng
    ctx.workload('realistic')
    for it in range(6 if ctx.tier == 'quick' else 16):
        seed = int(rng.integers(2**31))
        # real Werner / isotropic directions: the LP behind the solver (CLARABEL here) fails with InsufficientProgress on most complex
        # directions (environmental, counted inconclusive); every third case still uses a random complex state
        if it % 3 == 2:
            rho = numqi.random.rand_density_matrix(4, seed=int(rng.integers(2**31)))
        else:
            rho = (numqi.state.Werner if it % 2 else numqi.state.Isotropic)(2, float(rng.uniform(0.2, 0.95)))
        ctx.set_case({'api': 'CHABoundaryBagging.solve', 'seed': seed})
        try:
            def go(model=None):
                model = model or numqi.entangle.CHABoundaryBagging((2, 2), num_state=40)
                return model, model.solve(rho, maxiter=2, use_tqdm=False, seed=seed)
            m1, a = go()
            ops = noise(ctx, numqi, rng)
            _, b = go()
            # history on one object: solving again with the same arguments and seed must not depend on what the previous solve left behind
            rho2 = numqi.random.rand_density_matrix(4, seed=int(rng.integers(2**31)))
            m1.solve(rho2, maxiter=1, use_tqdm=False, seed=int(rng.integers(2**31)))
            _, c = go(m1)
        except Exception as e:
            ctx.inconclusive('cha-solver-error:' + type(e).__name__)
            continue
        ctx.case('cha', rho, seed)
        # the LP solver is deterministic for identical input: identical bags => identical beta
        ctx.check(float(a) == float(b), 'reproducible/not-bit-identical/CHABoundaryBagging.solve', 'CHABoundaryBagging.solve(seed=s) not reproducible',
                  {'a': float(a), 'b': float(b), 'interleaved': ops}, point='reproducible/pair')
        ctx.check(float(a) == float(c), 'reproducible/depends-on-object-history/CHABoundaryBagging.solve',
                  'CHABoundaryBagging.solve(dm, seed=s) on an object that was used before differs from the same call on a fresh object',
                  {'fresh': float(a), 'reused_object': float(c)}, point='reproducible/pair')


def run_seed_apis(ctx, mon, numqi):
    """every OTHER public API with a `seed` parameter (the statement: "the same holds for every other API that accepts a seed"):
    boundary / numerical-range searches of the gradient-descent models, subspace constructors, purification. Pair histories: the
    same call twice with other consumers of randomness in between, on fresh objects and twice on the same object."""
    import torch
    rng = ctx.rng
    E = numqi.entangle
    ctx.workload('realistic')
    T = ctx.tier == 'thorough'

    def judge(api, a, b, ops, kind):
        ctx.check(same(a, b), f'reproducible/{kind}/{api}', f'{api}(seed=s) called twice with the same arguments and seed gives different results ({kind})',
                  {'first': a, 'second': b, 'interleaved': ops}, point='reproducible/pair')

    def pair_api(api, make, call, seed):
        """make() -> object or None; call(obj, seed) -> result"""
        ctx.set_case({'api': api, 'seed': seed})
        with ctx.guard(f'seed-api/{api}'):
            try:
                o1 = make()
                a = call(o1, seed)
                ops = noise(ctx, numqi, rng)
                b = call(make(), seed)
                ops2 = noise(ctx, numqi, rng)
                c = call(o1, seed) if o1 is not None else None
            except (AssertionError, RuntimeError, np.linalg.LinAlgError) as e:
                ctx.inconclusive(f'seed-api-driver-error/{api}/{type(e).__name__}')
                return
            ctx.case('seed-api', api, seed, nontrivial=len(ops) > 0)
            judge(api, a, b, ops, 'not-bit-identical')
            if o1 is not None:
                judge(api, a, c, ops2, 'depends-on-object-history')

    for it in range(3 if not T else 10):
        seed = int(rng.integers(2**31)) if it else 0
        dA, dB = [(2, 2), (2, 3), (3, 2)][it % 3]
        rho = numqi.random.rand_density_matrix(dA * dB, seed=int(rng.integers(2**31)))
        op0 = numqi.random.rand_hermitian_matrix(dA * dB, seed=int(rng.integers(2**31)))
        op1 = numqi.random.rand_hermitian_matrix(dA * dB, seed=int(rng.integers(2**31)))
        nt = int(rng.integers(2, 5))
        pair_api('AutodiffCHAREE.get_boundary', lambda: E.AutodiffCHAREE((dA, dB), num_state=2 * dA * dB),
                 lambda m, s: m.get_boundary(rho, xtol=1e-2, converge_tol=1e-6, use_tqdm=False, seed=s), seed)
        pair_api('AutodiffCHAREE.get_numerical_range', lambda: E.AutodiffCHAREE((dA, dB), num_state=2 * dA * dB),
                 lambda m, s: m.get_numerical_range(op0, op1, num_theta=nt, converge_tol=1e-4, use_tqdm=False, seed=s), seed)
        pair_api('PureBosonicExt.get_boundary', lambda: E.PureBosonicExt(dA, dB, kext=3),
                 lambda m, s: m.get_boundary(rho, xtol=1e-2, converge_tol=1e-6, use_tqdm=False, seed=s), seed)
        pair_api('PureBosonicExt.get_numerical_range', lambda: E.PureBosonicExt(dA, dB, kext=3),
                 lambda m, s: m.get_numerical_range(op0, op1, num_theta=nt, converge_tol=1e-4, use_tqdm=False, seed=s), seed)
        pair_api('utils.get_purification', lambda: None, lambda _, s: numqi.utils.get_purification(rho, dA * dB + int(rng.integers(0, 3)) * 0 + 2, seed=s), seed)
        pair_api('pureb_quantum.get_mps_dicke_transform_matrix', lambda: None,
                 lambda _, s: E.pureb_quantum.get_mps_dicke_transform_matrix(dB, 2 + it % 3, seed=s), seed)
        for kind, dims in [('quant-ph/0409032', (2, 2, 2)), ('quant-ph/0409032', (2, 3, 2)), ('quant-ph/0405077', (2, 3)), ('quant-ph/0405077', (2, 2, 2))]:
            pair_api(f'matrix_space.get_completed_entangled_subspace[{kind}]', lambda: None,
                     lambda _, s: numqi.matrix_space.get_completed_entangled_subspace(dims, kind, seed=s), seed)

        # optimize.check_model_gradient(model, seed=s): the parameter point it tests is drawn from the seed (observable: the model's parameters afterwards)
        def grad_point(_, s):
            m = numqi.manifold.Trace1PSD(3, rank=2, dtype=torch.complex128)
            H = torch.tensor(op0[:3, :3] + op0[:3, :3].conj().T)

            class L(torch.nn.Module):
                def __init__(self):
                    super().__init__()
                    self.m = m

                def forward(self):
                    return torch.einsum('ab,ba->', self.m(), H).real
            model = L()
            numqi.optimize.check_model_gradient(model, seed=s)
            return numqi.optimize.get_model_flat_parameter(model)
        pair_api('optimize.check_model_gradient', lambda: None, grad_point, seed)


def run(ctx, shard):
    import numqi
    mon = Mon(ctx, numqi)
    mon.install()
    try:
        name = shard['name']
        if name in ('state', 'matrix', 'channel', 'space', 'f2'):
            run_group(ctx, mon, numqi, name)
        elif name == 'other-apis':
            run_other(ctx, mon, numqi)
        elif name == 'cha':
            run_cha(ctx, mon, numqi)
        elif name == 'seed-apis':
            run_seed_apis(ctx, mon, numqi)
        elif name == 'repo-tests':
            from vmon.repotests import run_repo_tests
            run_repo_tests(ctx, ['test_random.py', 'test_channel.py'])
        ctx.extra['unseeded_generators_seen_in_seeded_calls'] = mon.leaks
    finally:
        mon.uninstall()


# thorough tier: every random shard is run this many times with independent random streams (see vmon/runner.py get_shards)
THOROUGH_REPEAT = 6
