"""C01 - every trivialization map lands on its manifold.

Contracts (postconditions) on all functional maps numqi.manifold.to_* and symmetric_matrix_to_trace1PSD and on
forward() of every manifold Module class. Oracles come from the statement: unit norm, norm<1, Hermitian trace-one PSD
of rank<=r, X^dagger X = I, unitary with det 1, simplex, interval, (anti)symmetry / trace 0 / norm 1, complete Kraus /
TP-CP Choi, convex mixture of product projectors. Relational clauses: Module.forward() == functional(module.theta),
batched call == per-sample calls. Tolerances scale with the input precision and a conditioning estimate (DESIGN 3);
cases whose tolerance would exceed the decision threshold are counted inconclusive, never judged.
"""
import itertools
import copy

import numpy as np

from vmon.core import to_numpy, digest

TECHNIQUE = ('runtime monitoring: postconditions (manifold membership from the statement) on all 18 functional maps and on forward() of every manifold Module, relational monitors (Module.forward == functional(theta), batched == per-sample), driven over the complete option lattice and by L-BFGS drivers')
LEVEL_TEXT = ("Exploration by runtime monitoring: every call of a trivialization map made by the workloads (complete option lattice x dtypes x backends x batch shapes x theta scales, structured thetas, optimizer trajectories, and in the thorough tier the repository's own manifold tests) is judged against the manifold's defining constraints with conditioning-aware tolerances; ill-conditioned cases are counted inconclusive. Held on the executions observed, not a proof over all theta.")
RULE = ('cases = (map or Module class, method option, field, dtype, backend, dim, rank, batch shape, theta scale, structure): the full '
        'option lattice for dims 2..4 (quick) / 2..6 (thorough), all ranks, batch shapes (),(1,),(k,),(k,l), theta = scale*N(0,1) with scale '
        'in {0.3,3,30,100} (Cholesky-L capped at 10) plus structured thetas; plus optimizer-driven thetas (L-BFGS trajectories of the '
        'library models). Non-trivial = theta not all zeros and output not a trivial fixed point; distinct by digest of (configuration, theta)')
EXHAUSTIVE = {'quick': True, 'thorough': True}
EXHAUSTIVE_DOMAINS = {'quick': ['option lattice: every method option x field x dtype x backend x dim 2..4 x rank 1..dim x 4 batch shapes x 4 scales'],
                      'thorough': ['option lattice: every method option x field x dtype x backend x dim 2..6 x rank 1..dim x 4 batch shapes x 4 scales x 4 seeds']}
ASSUMPTIONS = ['theta exactly zero is the singular point of the quotient charts (0/0 by construction) and is not generated',
               'float32 inputs of the exp positive-real chart are limited to |theta|<=30 (exp(100) overflows float32)',
               'complex Cayley chart is U(d): only unitarity is required; det=1 is required for the exp charts and the real Cayley chart']
DECIDING = ['to_sphere_quotient', 'to_sphere_coordinate', 'to_ball', 'to_positive_real_softplus', 'to_positive_real_exp', 'to_open_interval',
            'to_trace1_psd_cholesky', 'to_trace1_psd_ensemble', 'to_symmetric_matrix', 'to_discrete_probability_softmax',
            'to_discrete_probability_sphere', 'to_special_orthogonal_exp', 'to_special_orthogonal_cayley', 'symmetric_matrix_to_trace1PSD',
            'to_stiefel_polar', 'to_stiefel_choleskyL', 'to_stiefel_qr', 'to_stiefel_euler',
            'forward/PositiveReal', 'forward/OpenInterval', 'forward/Trace1PSD', 'forward/SymmetricMatrix', 'forward/Ball', 'forward/Sphere',
            'forward/DiscreteProbability', 'forward/SpecialOrthogonal', 'forward/Stiefel', 'forward/SeparableDensityMatrix', 'forward/QuantumChannel',
            'relation/batched-vs-per-sample', 'relation/module-vs-functional', 'history/argument-not-mutated', 'history/edit-result-then-call-again',
            'history/layout']

EPS = {np.dtype('float32'): 1.2e-7, np.dtype('float64'): 2.3e-16, np.dtype('complex64'): 1.2e-7, np.dtype('complex128'): 2.3e-16}


def shards(tier, seed):
    kinds = ['scalar', 'sphere-ball', 'prob', 'psd', 'symmetric', 'so', 'stiefel-a', 'stiefel-b', 'compose', 'drivers']
    ret = []
    for k in kinds:
        if tier == 'thorough' and k in ('psd', 'so', 'stiefel-a', 'stiefel-b', 'compose'):
            ret += [{'name': f'{k}-{i}', 'kind': k, 'part': i, 'nparts': 3} for i in range(3)]
        else:
            ret.append({'name': k, 'kind': k, 'part': 0, 'nparts': 1})
    if tier == 'thorough':
        ret.append({'name': 'repo-tests', 'kind': 'repo-tests', 'part': 0, 'nparts': 1, 'timeout_s': 3600})
    return ret


def in_eps(theta):
    a = to_numpy(theta)
    return EPS.get(a.dtype, 2.3e-16)


def is_torch(x):
    return hasattr(x, 'detach')


def hconj(a):
    return np.swapaxes(a.conj(), -1, -2)


class Mon:
    def __init__(self, ctx, numqi):
        self.ctx = ctx
        self.numqi = numqi
        self.M = numqi.manifold

    # ---- judgement helpers -------------------------------------------------------------------------
    def judge(self, name, err, tol, what, witness, threshold):
        """err<=tol, unless tol exceeds the decision threshold (ill-conditioned: inconclusive)."""
        ctx = self.ctx
        if tol > threshold:
            ctx.inconclusive(f'illcond/{name}')
            return True
        if not np.isfinite(err):
            return ctx.check(False, name, what + ' (non-finite)', witness, point=None)
        w = ctx.extra.setdefault('worst_err_over_tol', {})
        r = float(err / tol) if tol > 0 else 0.0
        if r > w.get(name, -1.0) and err <= tol:
            w[name] = r
        return ctx.check(err <= tol, name, what, lambda: {**witness(), 'err': float(err), 'tol': float(tol)} if callable(witness) else {'err': float(err), 'tol': float(tol), **(witness or {})})

    def common(self, key, c, out_shape, want_complex=None):
        """shape / backend / finiteness; returns numpy result or None."""
        ctx = self.ctx
        theta = c.args[0]
        r = c.result
        ok = is_torch(r) == is_torch(theta)
        ctx.check(ok, f'{key}/backend', f'{key}: output backend differs from the input backend', {'in': type(theta).__name__, 'out': type(r).__name__})
        a = to_numpy(r)
        if not ctx.check(tuple(a.shape) == tuple(out_shape), f'{key}/shape', f'{key}: output shape is not batch shape + manifold shape',
                         {'theta_shape': tuple(to_numpy(theta).shape), 'got': tuple(a.shape), 'expected': tuple(out_shape)}):
            return None
        if not ctx.check(bool(np.all(np.isfinite(a))), f'{key}/not-finite', f'{key}: output contains NaN/Inf', lambda: self.wit(c)):
            return None
        if want_complex is not None:
            ctx.check(np.iscomplexobj(a) == bool(want_complex), f'{key}/field', f'{key}: output field (real/complex) is not the requested one', lambda: self.wit(c))
        return a

    def wit(self, c):
        th = to_numpy(c.args[0])
        return {'theta': th, 'args': [x if not hasattr(x, 'shape') else 'array' for x in c.args[1:]], 'kwargs': {k: (v if not hasattr(v, 'shape') else 'array') for k, v in c.kwargs.items()},
                'backend': 'torch' if is_torch(c.args[0]) else 'numpy', 'dtype': str(th.dtype)}

    def batched_vs_single(self, key, c, tol, threshold):
        """relational: a batched call equals the per-sample calls of the unwrapped original (2 samples)."""
        ctx = self.ctx
        theta = c.args[0]
        th = to_numpy(theta)
        if th.ndim < 2 or th.size == 0:
            return
        batch = th.shape[:-1]
        n = int(np.prod(batch))
        if n < 1:
            return
        out = to_numpy(c.result)
        mshape = out.shape[len(batch):]
        flat_out = out.reshape((n,) + mshape)
        idxs = sorted({0, n - 1, (n * 7) // 11})
        for i in idxs[:2] if n > 1 else idxs[:1]:
            ti = theta.reshape(n, th.shape[-1])[i]
            try:
                si = to_numpy(c.func(ti, *c.args[1:], **c.kwargs))
            except Exception as e:
                ctx.check(False, f'{key}/per-sample-raises', f'{key}: the per-sample call raised {type(e).__name__} where the batched call succeeded', lambda: self.wit(c),
                          point='relation/batched-vs-per-sample')
                return
            if si.shape != mshape:
                ctx.check(False, f'{key}/batched-vs-per-sample', f'{key}: per-sample shape differs', {'single': si.shape, 'batched': mshape}, point='relation/batched-vs-per-sample')
                return
            err = np.abs(si - flat_out[i]).max() if si.size else 0.0
            ctx.hit('relation/batched-vs-per-sample')
            self.judge(f'{key}/batched-vs-per-sample', err, tol, f'{key}: a batched call differs from the per-sample call', lambda: {**self.wit(c), 'sample': i}, threshold)

    # ---- manifold predicates (numpy, on arrays with leading batch dims) --------------------------------
    def thr(self, theta):
        return 1e-2 if in_eps(theta) > 1e-10 else 1e-6

    def install(self):
        ctx, M = self.ctx, self.M
        I = M._internal
        S = M._stiefel
        mon = self

        def tol_of(theta, size, kappa=1.0, C=200.0):
            return C * in_eps(theta) * max(4, size) * max(1.0, kappa)

        # ------------------------------------------------ scalars
        def post_positive(key):
            def post(c):
                if c.exc is not None:
                    return
                th = to_numpy(c.args[0])
                if key.endswith('exp') and th.size:
                    # exp overflows the floating-point range beyond log(max): theta>88.7 (float32) / 709.7 (float64) cannot be represented,
                    # that is the number format, not the chart (a seed sweep hit theta=89.45 in float32: my generator, not numqi)
                    lim = 88.0 if in_eps(c.args[0]) > 1e-10 else 709.0
                    if float(th.max()) > lim:
                        ctx.inconclusive('to_positive_real_exp/theta-beyond-float-range')
                        return
                a = mon.common(key, c, th.shape, want_complex=False)
                if a is None:
                    return
                ctx.check(bool(np.all(a >= 0)), f'{key}/negative', f'{key}: output is negative', lambda: mon.wit(c))
                # strictly positive wherever the chart cannot underflow (|theta|<=30)
                m = np.abs(th) <= 30
                ctx.check(bool(np.all(a[m] > 0)), f'{key}/not-positive', f'{key}: output is not strictly positive for moderate theta', lambda: mon.wit(c))
            return post

        ctx.attach(I, 'to_positive_real_softplus', post=post_positive('to_positive_real_softplus'), point='to_positive_real_softplus', immutable_args=True, normalize=True)
        ctx.attach(I, 'to_positive_real_exp', post=post_positive('to_positive_real_exp'), point='to_positive_real_exp', immutable_args=True, normalize=True)

        def post_interval(c):
            if c.exc is not None:
                return
            key = 'to_open_interval'
            th = to_numpy(c.args[0])
            lower, upper = float(to_numpy(c.arg(1, 'lower'))), float(to_numpy(c.arg(2, 'upper')))
            a = mon.common(key, c, th.shape, want_complex=False)
            if a is None:
                return
            slack = 4 * in_eps(c.args[0]) * max(abs(lower), abs(upper), 1e-300)
            ctx.check(bool(np.all(a >= lower - slack) and np.all(a <= upper + slack)), f'{key}/outside', 'to_open_interval: value outside [lower, upper]',
                      lambda: {**mon.wit(c), 'lower': lower, 'upper': upper, 'min': float(a.min()), 'max': float(a.max())})
            m = np.abs(th) <= 10
            if upper > lower:
                ctx.check(bool(np.all(a[m] > lower) and np.all(a[m] < upper)), f'{key}/not-open', 'to_open_interval: value not strictly inside for moderate theta', lambda: mon.wit(c))

        ctx.attach(I, 'to_open_interval', post=post_interval, point='to_open_interval', immutable_args=True, normalize=True)

        # ------------------------------------------------ sphere / ball
        def post_sphere(key, coordinate):
            def post(c):
                if c.exc is not None:
                    return
                th = to_numpy(c.args[0])
                is_real = c.arg(1, 'is_real', True)
                n = th.shape[-1] + (1 if coordinate else 0)
                dim = n if is_real else n // 2
                a = mon.common(key, c, th.shape[:-1] + (dim,), want_complex=not is_real)
                if a is None:
                    return
                err = np.abs(np.linalg.norm(a.astype(np.complex128), axis=-1) - 1).max() if a.size else 0.0
                tol = tol_of(c.args[0], n)
                mon.judge(f'{key}/unit-norm', err, tol, f'{key}: output is not a unit vector', lambda: mon.wit(c), mon.thr(c.args[0]))
                mon.batched_vs_single(key, c, tol, mon.thr(c.args[0]))
            return post

        ctx.attach(I, 'to_sphere_quotient', post=post_sphere('to_sphere_quotient', False), point='to_sphere_quotient', immutable_args=True, normalize=True)
        ctx.attach(I, 'to_sphere_coordinate', post=post_sphere('to_sphere_coordinate', True), point='to_sphere_coordinate', immutable_args=True, normalize=True)

        def post_ball(c):
            if c.exc is not None:
                return
            key = 'to_ball'
            th = to_numpy(c.args[0])
            is_real = c.arg(1, 'is_real', True)
            dim = th.shape[-1] if is_real else th.shape[-1] // 2
            a = mon.common(key, c, th.shape[:-1] + (dim,), want_complex=not is_real)
            if a is None:
                return
            nrm = np.linalg.norm(a.astype(np.complex128), axis=-1)
            ctx.check(bool(np.all(nrm < 1)), 'to_ball/norm>=1', 'to_ball: the image is not strictly inside the unit ball',
                      lambda: {**mon.wit(c), 'max_norm': float(nrm.max())})
            mon.batched_vs_single(key, c, tol_of(c.args[0], th.shape[-1]), mon.thr(c.args[0]))

        ctx.attach(I, 'to_ball', post=post_ball, point='to_ball', immutable_args=True, normalize=True)

        # ------------------------------------------------ probability simplex
        def post_prob(key):
            def post(c):
                if c.exc is not None:
                    return
                th = to_numpy(c.args[0])
                a = mon.common(key, c, th.shape, want_complex=False)
                if a is None:
                    return
                ctx.check(bool(np.all(a >= 0)), f'{key}/negative-entry', f'{key}: negative probability', lambda: mon.wit(c))
                err = np.abs(a.astype(np.float64).sum(axis=-1) - 1).max() if a.size else 0.0
                tol = tol_of(c.args[0], th.shape[-1])
                mon.judge(f'{key}/sum-one', err, tol, f'{key}: entries do not sum to one', lambda: mon.wit(c), mon.thr(c.args[0]))
                mon.batched_vs_single(key, c, tol, mon.thr(c.args[0]))
            return post

        ctx.attach(I, 'to_discrete_probability_softmax', post=post_prob('to_discrete_probability_softmax'), point='to_discrete_probability_softmax', immutable_args=True, normalize=True)
        ctx.attach(I, 'to_discrete_probability_sphere', post=post_prob('to_discrete_probability_sphere'), point='to_discrete_probability_sphere', immutable_args=True, normalize=True)

        # ------------------------------------------------ density matrices
        def check_psd(key, c, a, dim, rank, size, is_real):
            a = a.astype(np.complex128)
            tol = tol_of(c.args[0], size)
            thr = mon.thr(c.args[0])
            mon.judge(f'{key}/hermitian', np.abs(a - hconj(a)).max(), tol, f'{key}: output is not Hermitian', lambda: mon.wit(c), thr)
            mon.judge(f'{key}/trace-one', np.abs(np.trace(a, axis1=-2, axis2=-1) - 1).max(), tol, f'{key}: trace is not one', lambda: mon.wit(c), thr)
            w = np.linalg.eigvalsh((a + hconj(a)) / 2)
            mon.judge(f'{key}/psd', max(0.0, -float(w.min())), tol, f'{key}: negative eigenvalue', lambda: mon.wit(c), thr)
            if rank is not None and rank < dim:
                # numerical rank: eigenvalues above tol
                nr = int((w > tol).sum(axis=-1).max())
                ctx.check(nr <= rank, f'{key}/rank', f'{key}: numerical rank exceeds the requested rank', lambda: {**mon.wit(c), 'numerical_rank': nr, 'rank': rank})
            return tol, thr

        def post_psd(key):
            def post(c):
                if c.exc is not None:
                    return
                th = to_numpy(c.args[0])
                dim = c.arg(1, 'dim')
                rank = c.arg(2, 'rank', None) or dim
                if key.endswith('cholesky'):
                    N0 = (rank * (2 * dim - rank + 1)) // 2
                    is_real = th.shape[-1] == N0
                else:
                    is_real = th.shape[-1] == rank + dim * rank
                a = mon.common(key, c, th.shape[:-1] + (dim, dim), want_complex=not is_real)
                if a is None:
                    return
                tol, thr = check_psd(key, c, a, dim, rank, th.shape[-1], is_real)
                mon.batched_vs_single(key, c, tol, thr)
            return post

        ctx.attach(I, 'to_trace1_psd_cholesky', post=post_psd('to_trace1_psd_cholesky'), point='to_trace1_psd_cholesky', immutable_args=True, normalize=True)
        ctx.attach(I, 'to_trace1_psd_ensemble', post=post_psd('to_trace1_psd_ensemble'), point='to_trace1_psd_ensemble', immutable_args=True, normalize=True)

        def post_sym2psd(c):
            if c.exc is not None:
                return
            key = 'symmetric_matrix_to_trace1PSD'
            A = to_numpy(c.args[0])
            a = mon.common(key, c, A.shape)
            if a is None:
                return
            # exp(A - lambda_max): well conditioned; tolerance scales with the spectral spread only through rounding of expm
            kappa = max(1.0, float(np.abs(A).max()) if A.size else 1.0)
            a = a.astype(np.complex128)
            tol = tol_of(c.args[0], A.shape[-1]**2, kappa)
            thr = mon.thr(c.args[0])
            mon.judge(f'{key}/hermitian', np.abs(a - hconj(a)).max(), tol, f'{key}: not Hermitian', lambda: mon.wit(c), thr)
            mon.judge(f'{key}/trace-one', np.abs(np.trace(a, axis1=-2, axis2=-1) - 1).max(), tol, f'{key}: trace is not one', lambda: mon.wit(c), thr)
            w = np.linalg.eigvalsh((a + hconj(a)) / 2)
            mon.judge(f'{key}/psd', max(0.0, -float(w.min())), tol, f'{key}: negative eigenvalue', lambda: mon.wit(c), thr)

        ctx.attach(I, 'symmetric_matrix_to_trace1PSD', post=post_sym2psd, point='symmetric_matrix_to_trace1PSD', immutable_args=True, normalize=True)

        # ------------------------------------------------ symmetric / Hermitian matrices
        def post_symmetric(c):
            if c.exc is not None:
                return
            key = 'to_symmetric_matrix'
            th = to_numpy(c.args[0])
            dim = c.arg(1, 'dim')
            t0, n1 = bool(c.arg(2, 'is_trace0', False)), bool(c.arg(3, 'is_norm1', False))
            is_real = th.shape[-1] == (dim * (dim + 1)) // 2 - (1 if t0 else 0)
            a = mon.common(key, c, th.shape[:-1] + (dim, dim), want_complex=not is_real)
            if a is None:
                return
            a = a.astype(np.complex128)
            scale = max(1.0, float(np.abs(a).max()))
            tol = tol_of(c.args[0], th.shape[-1]) * scale
            thr = mon.thr(c.args[0]) * scale
            mon.judge(f'{key}/hermitian', np.abs(a - hconj(a)).max(), tol, f'{key}: output is not symmetric/Hermitian', lambda: mon.wit(c), thr)
            if t0:
                mon.judge(f'{key}/trace-zero', np.abs(np.trace(a, axis1=-2, axis2=-1)).max(), tol, f'{key}: trace is not zero', lambda: mon.wit(c), thr)
            if n1:
                mon.judge(f'{key}/norm-one', np.abs(np.linalg.norm(a, axis=(-2, -1)) - 1).max(), tol, f'{key}: Frobenius norm is not one', lambda: mon.wit(c), thr)
            mon.batched_vs_single(key, c, tol, thr)

        ctx.attach(I, 'to_symmetric_matrix', post=post_symmetric, point='to_symmetric_matrix', immutable_args=True, normalize=True)

        # ------------------------------------------------ SO / SU
        def post_so(key, cayley):
            def post(c):
                if c.exc is not None:
                    return
                th = to_numpy(c.args[0])
                dim = c.arg(1, 'dim')
                order = c.arg(2, 'order', 2) if cayley else 1
                is_real = th.shape[-1] == dim * (dim - 1) // 2
                a = mon.common(key, c, th.shape[:-1] + (dim, dim), want_complex=not is_real)
                if a is None:
                    return
                a = a.astype(np.complex128)
                nrm = float(np.linalg.norm(th.reshape(-1, th.shape[-1]).astype(np.float64), axis=-1).max()) if th.size else 0.0
                kappa = (1 + nrm) * order  # measured: err <= 2 eps d^2 (1+|theta|) order for Cayley, <= 45 eps d^2 (1+|theta|) for expm
                tol = tol_of(c.args[0], dim * dim, kappa)
                if not cayley:
                    # trusted base: torch.linalg.matrix_exp is only accurate to ~2e-10 for small-norm float64 input (measured:
                    # U^T U - I = 1.1e-11 at |A|=0.048), so the decision threshold for the exp chart cannot be below that
                    tol = max(tol, 5e-9)
                thr = mon.thr(c.args[0])
                mon.judge(f'{key}/unitary', np.abs(hconj(a) @ a - np.eye(dim)).max(), tol, f'{key}: U^dagger U != I', lambda: mon.wit(c), thr)
                if (not cayley) or is_real:
                    mon.judge(f'{key}/det-one', np.abs(np.linalg.det(a) - 1).max(), tol * dim, f'{key}: determinant is not one', lambda: mon.wit(c), thr)
                mon.batched_vs_single(key, c, tol, thr)
            return post

        ctx.attach(I, 'to_special_orthogonal_exp', post=post_so('to_special_orthogonal_exp', False), point='to_special_orthogonal_exp', immutable_args=True, normalize=True)
        ctx.attach(I, 'to_special_orthogonal_cayley', post=post_so('to_special_orthogonal_cayley', True), point='to_special_orthogonal_cayley', immutable_args=True, normalize=True)

        # ------------------------------------------------ Stiefel
        def gram_cond(th, dim, rank, layout):
            """condition number of X^H X of the pre-orthonormalised matrix (documented layouts), for the tolerance only."""
            t = th.reshape(-1, th.shape[-1]).astype(np.float64)
            try:
                if layout == 'full':
                    if t.shape[-1] == dim * rank:
                        mat = t.reshape(-1, dim, rank)
                    else:
                        tmp = t.reshape(-1, 2, dim, rank)
                        mat = tmp[:, 0] + 1j * tmp[:, 1]
                else:  # choleskyL: unit lower triangular block on top, free block below
                    N0 = rank * (rank + 1) // 2
                    N1 = N0 - rank
                    is_real = t.shape[-1] == dim * rank - N0
                    L = np.tile(np.eye(rank, dtype=np.complex128), (t.shape[0], 1, 1))
                    il = np.tril_indices(rank, -1)
                    L[:, il[0], il[1]] = t[:, :N1]
                    if not is_real:
                        L[:, il[0], il[1]] += 1j * t[:, N1:2 * N1]
                    if rank < dim:
                        if is_real:
                            low = t[:, N1:].reshape(-1, dim - rank, rank)
                        else:
                            tmp = t[:, 2 * N1:].reshape(-1, 2, dim - rank, rank)
                            low = tmp[:, 0] + 1j * tmp[:, 1]
                        mat = np.concatenate([L, low], axis=1)
                    else:
                        mat = L
                s = np.linalg.svd(mat, compute_uv=False)
                with np.errstate(all='ignore'):
                    return float(((s.max(axis=-1) / s.min(axis=-1))**2).max())
            except Exception:
                return 1.0

        self.gram_cond = gram_cond

        def post_stiefel(key, layout):
            def post(c):
                th = to_numpy(c.args[0])
                dim, rank = c.arg(1, 'dim'), c.arg(2, 'rank')
                if c.exc is not None:
                    return
                if key == 'to_stiefel_euler':
                    N0 = dim * rank - rank * (rank + 1) // 2
                    is_real = th.shape[-1] == N0
                elif key == 'to_stiefel_choleskyL':
                    is_real = th.shape[-1] == dim * rank - rank * (rank + 1) // 2
                else:
                    is_real = th.shape[-1] == dim * rank
                a = mon.common(key, c, th.shape[:-1] + (dim, rank), want_complex=not is_real)
                if a is None:
                    return
                a = a.astype(np.complex128)
                kappa = gram_cond(th, dim, rank, layout) if layout else 1.0
                tol = tol_of(c.args[0], dim * rank, kappa)
                thr = mon.thr(c.args[0])
                mon.judge(f'{key}/orthonormal', np.abs(hconj(a) @ a - np.eye(rank)).max(), tol, f'{key}: X^dagger X != I', lambda: {**mon.wit(c), 'gram_cond': kappa}, thr)
                mon.batched_vs_single(key, c, tol * 10, thr)
            return post

        ctx.attach(S, 'to_stiefel_polar', post=post_stiefel('to_stiefel_polar', 'full'), point='to_stiefel_polar', immutable_args=True, normalize=True)
        ctx.attach(S, 'to_stiefel_qr', post=post_stiefel('to_stiefel_qr', None), point='to_stiefel_qr', immutable_args=True, normalize=True)
        ctx.attach(S, 'to_stiefel_choleskyL', post=post_stiefel('to_stiefel_choleskyL', 'chol'), point='to_stiefel_choleskyL', immutable_args=True, normalize=True)
        ctx.attach(S, 'to_stiefel_euler', post=post_stiefel('to_stiefel_euler', None), point='to_stiefel_euler', immutable_args=True, normalize=True)

        # ------------------------------------------------ Module classes: forward() == functional(theta) + constraints
        import torch
        orig = ctx.orig

        def functional_of(m):
            """what forward() must equal, from the documented meaning of the class options (not from its code)."""
            cls = type(m).__name__
            th = m.theta
            if cls == 'PositiveReal':
                return orig(I.to_positive_real_softplus if m.method == 'softplus' else I.to_positive_real_exp)(th)
            if cls == 'OpenInterval':
                t = th[0] if m.batch_size is None else th
                return orig(I.to_open_interval)(t, m.lower, m.upper)
            if cls == 'Trace1PSD':
                f = I.to_trace1_psd_cholesky if m.method == 'cholesky' else I.to_trace1_psd_ensemble
                return orig(f)(th, m.dim, m.rank)
            if cls == 'SymmetricMatrix':
                return orig(I.to_symmetric_matrix)(th, m.dim, m.is_trace0, m.is_norm1)
            if cls == 'Ball':
                return orig(I.to_ball)(th, m.is_real)
            if cls == 'Sphere':
                return orig(I.to_sphere_quotient if m.method == 'quotient' else I.to_sphere_coordinate)(th, m.is_real)
            if cls == 'DiscreteProbability':
                r = orig(I.to_discrete_probability_softmax if m.method == 'softmax' else I.to_discrete_probability_sphere)(th)
                if m.weight_inv is not None:
                    r = r * m.weight_inv
                return r
            if cls == 'SpecialOrthogonal':
                if m.method == 'exp':
                    return orig(I.to_special_orthogonal_exp)(th, m.dim)
                return orig(I.to_special_orthogonal_cayley)(th, m.dim, m.cayley_order)
            if cls == 'Stiefel':
                if m.method == 'choleskyL':
                    return orig(S.to_stiefel_choleskyL)(th, m.dim, m.rank)
                if m.method == 'qr':
                    return orig(S.to_stiefel_qr)(th, m.dim, m.rank)
                if m.method == 'polar':
                    return orig(S.to_stiefel_polar)(th, m.dim, m.rank)
                if m.method == 'so-exp':
                    return orig(I.to_special_orthogonal_exp)(th, m.dim)[..., :m.rank]
                if m.method == 'so-cayley':
                    return orig(I.to_special_orthogonal_cayley)(th, m.dim)[..., :m.rank]
                return orig(S.to_stiefel_euler)(th, m.dim, m.rank, m.euler_with_phase)
            return None

        def real_dtype_eps(m):
            for p in m.parameters():
                return 1.2e-7 if p.dtype == torch.float32 else 2.3e-16
            return 2.3e-16

        def post_forward(cls):
            def post(c):
                if c.exc is not None:
                    return
                m = c.args[0]
                key = f'forward/{cls}'
                out = to_numpy(c.result)
                if cls == 'PositiveReal' and m.method == 'exp':
                    lim = 88.0 if real_dtype_eps(m) > 1e-10 else 709.0
                    if float(to_numpy(m.theta).max()) > lim:  # beyond the floating-point range of exp: not judged (see to_positive_real_exp)
                        ctx.inconclusive('forward/PositiveReal/theta-beyond-float-range')
                        return
                if not ctx.check(bool(np.all(np.isfinite(out))), f'{key}/not-finite', f'{cls}.forward(): NaN/Inf', {'cls': cls}):
                    return
                with torch.no_grad():
                    ref = functional_of(m)
                if ref is not None:
                    ref = to_numpy(ref)
                    ctx.hit('relation/module-vs-functional')
                    if ref.shape != out.shape:
                        ctx.check(False, f'{key}/module-vs-functional', f'{cls}.forward() shape differs from the functional map on module.theta',
                                  {'forward': out.shape, 'functional': ref.shape, 'options': module_desc(m)})
                    else:
                        err = float(np.abs(ref - out).max()) if out.size else 0.0
                        scale = max(1.0, float(np.abs(ref).max())) if ref.size else 1.0
                        ctx.check(err <= 50 * real_dtype_eps(m) * scale, f'{key}/module-vs-functional',
                                  f'{cls}.forward() does not return what the functional map returns on module.theta',
                                  lambda: {'err': err, 'options': module_desc(m), 'theta': to_numpy(m.theta)})
                # class-level constraint not already implied: weighted simplex
                if cls == 'DiscreteProbability':
                    w = 1 / to_numpy(m.weight_inv).astype(np.float64) if m.weight_inv is not None else np.ones(m.dim)
                    e = np.abs((out.astype(np.float64) * w).sum(axis=-1) - 1).max()
                    ctx.check(e <= 400 * real_dtype_eps(m) * m.dim and bool(np.all(out >= 0)), f'{key}/weighted-simplex', 'DiscreteProbability: sum_i w_i x_i != 1 or negative entry',
                              lambda: {'err': float(e), 'options': module_desc(m)})
            return post

        def module_desc(m):
            d = {}
            for k in ('dim', 'rank', 'method', 'batch_size', 'dtype', 'is_real', 'is_trace0', 'is_norm1', 'cayley_order', 'euler_with_phase', 'dimA', 'dimB', 'num_cha',
                      'dim_in', 'dim_out', 'choi_rank', 'return_kind'):
                if hasattr(m, k):
                    d[k] = str(getattr(m, k))
            return d

        self.module_desc = module_desc
        for cls in ('PositiveReal', 'OpenInterval', 'Trace1PSD', 'SymmetricMatrix', 'Ball', 'Sphere', 'DiscreteProbability', 'SpecialOrthogonal'):
            ctx.attach(getattr(I, cls), 'forward', post=post_forward(cls), point=f'forward/{cls}')
        ctx.attach(S.Stiefel, 'forward', post=post_forward('Stiefel'), point='forward/Stiefel')

        # ---- composed objects
        Cm = M._compose

        def post_separable(c):
            if c.exc is not None:
                return
            m = c.args[0]
            key = 'forward/SeparableDensityMatrix'
            out = to_numpy(c.result).astype(np.complex128)
            dA, dB, K = m.dimA, m.dimB, m.num_cha
            bs = m.batch_size
            shape = (dA, dB, dA, dB) if bs is None else (bs, dA, dB, dA, dB)
            if not ctx.check(out.shape == shape, f'{key}/shape', 'SeparableDensityMatrix: wrong shape', {'got': out.shape, 'expected': shape}):
                return
            eps = real_dtype_eps(m)
            tol = 400 * eps * K
            with torch.no_grad():
                p = to_numpy(m.manifold_p()).astype(np.float64).reshape(-1, K)
                a = to_numpy(m.manifold_psiA()).astype(np.complex128).reshape(-1, K, dA)
                b = to_numpy(m.manifold_psiB()).astype(np.complex128).reshape(-1, K, dB)
            ok = bool(np.all(p >= 0)) and np.abs(p.sum(axis=1) - 1).max() < tol and np.abs(np.linalg.norm(a, axis=2) - 1).max() < tol and np.abs(np.linalg.norm(b, axis=2) - 1).max() < tol
            ctx.check(ok, f'{key}/decomposition-not-normalised', 'SeparableDensityMatrix: weights not on the simplex or product vectors not unit', {'options': module_desc(m)})
            ref = np.einsum('nk,nka,nkb,nkc,nkd->nabcd', p, a, b, a.conj(), b.conj())
            o = out.reshape((-1,) + (dA, dB, dA, dB))
            ctx.check(np.abs(ref - o).max() <= tol, f'{key}/not-mixture-of-product-projectors',
                      'SeparableDensityMatrix.forward() is not sum_i p_i |a_i><a_i| (x) |b_i><b_i| of its own sub-manifold points',
                      lambda: {'err': float(np.abs(ref - o).max()), 'options': module_desc(m)})
            mat = o.reshape(-1, dA * dB, dA * dB)
            w = np.linalg.eigvalsh((mat + hconj(mat)) / 2)
            pt = o.transpose(0, 1, 4, 3, 2).reshape(-1, dA * dB, dA * dB)
            wpt = np.linalg.eigvalsh((pt + hconj(pt)) / 2)
            ctx.check(np.abs(np.trace(mat, axis1=1, axis2=2) - 1).max() <= tol and w.min() >= -tol and wpt.min() >= -tol and np.abs(mat - hconj(mat)).max() <= tol,
                      f'{key}/not-a-separable-state', 'SeparableDensityMatrix: output is not a trace-one PSD PPT matrix', {'options': module_desc(m)})

        ctx.attach(Cm.SeparableDensityMatrix, 'forward', post=post_separable, point='forward/SeparableDensityMatrix')

        def post_channel(c):
            if c.exc is not None:
                return
            m = c.args[0]
            key = 'forward/QuantumChannel'
            out = to_numpy(c.result).astype(np.complex128)
            di, do, r, bs = m.dim_in, m.dim_out, m.choi_rank, m.batch_size
            eps = real_dtype_eps(m)
            sm = m.manifold
            kappa = 1.0
            with torch.no_grad():
                th = to_numpy(sm.theta)
            if sm.method == 'polar':
                kappa = gram_cond(th, sm.dim, sm.rank, 'full')
            elif sm.method == 'choleskyL':
                kappa = gram_cond(th, sm.dim, sm.rank, 'chol')
            tol = 400 * eps * r * do * di * max(1.0, kappa)
            thr = 1e-2 if eps > 1e-10 else 1e-6
            if m.return_kind == 'kraus':
                shape = (r, do, di) if bs is None else (bs, r, do, di)
                if not ctx.check(out.shape == shape, f'{key}/shape', 'QuantumChannel(kraus): wrong shape', {'got': out.shape, 'expected': shape, 'options': module_desc(m)}):
                    return
                K = out.reshape(-1, r, do, di)
                g = np.einsum('nkab,nkac->nbc', K.conj(), K)
                mon.judge(f'{key}/kraus-not-complete', np.abs(g - np.eye(di)).max(), tol, 'QuantumChannel: sum_k K^dagger K != I', lambda: {'options': module_desc(m)}, thr)
            else:
                shape = (do, di, do, di) if bs is None else (bs, do, di, do, di)
                if not ctx.check(out.shape == shape, f'{key}/shape', 'QuantumChannel(choi): wrong shape', {'got': out.shape, 'expected': shape, 'options': module_desc(m)}):
                    return
                C = out.reshape(-1, do, di, do, di)
                mat = C.reshape(-1, do * di, do * di)
                mon.judge(f'{key}/choi-not-hermitian', np.abs(mat - hconj(mat)).max(), tol, 'QuantumChannel: Choi operator not Hermitian', lambda: {'options': module_desc(m)}, thr)
                w = np.linalg.eigvalsh((mat + hconj(mat)) / 2)
                mon.judge(f'{key}/choi-not-psd', max(0.0, -float(w.min())), tol, 'QuantumChannel: Choi operator not PSD', lambda: {'options': module_desc(m)}, thr)
                tp = np.einsum('naiaj->nij', C)
                mon.judge(f'{key}/choi-not-trace-preserving', np.abs(tp - np.eye(di)).max(), tol, 'QuantumChannel: Tr_out(Choi) != I', lambda: {'options': module_desc(m)}, thr)
                if tol <= thr:
                    nr = int((w > max(tol, 1e-9) * 10).sum(axis=-1).max())
                    ctx.check(nr <= r, f'{key}/choi-rank', 'QuantumChannel: Choi rank exceeds choi_rank', {'numerical_rank': nr, 'options': module_desc(m)})

        ctx.attach(Cm.QuantumChannel, 'forward', post=post_channel, point='forward/QuantumChannel')


# ------------------------------------------------------------------------------------------- workloads
def batch_shapes(rng):
    k, l = int(rng.integers(2, 5)), int(rng.integers(2, 4))
    return [(), (1,), (k,), (k, l)]


def thetas(rng, n, shape, scale, np_dtype, structured=False):
    """yield (description, theta ndarray) of shape shape+(n,)."""
    out = [('normal', (rng.normal(size=shape + (n,)) * scale).astype(np_dtype))]
    if structured:
        out.append(('all-equal', np.full(shape + (n,), scale, dtype=np_dtype)))
        out.append(('alternating', (scale * (-1.0)**np.arange(n) * np.ones(shape + (n,))).astype(np_dtype)))
        out.append(('minus-bound', np.full(shape + (n,), -scale, dtype=np_dtype)))
        out.append(('ramp', (np.linspace(-scale, scale, n) * np.ones(shape + (n,)) + 1e-3).astype(np_dtype)))
    return out


class Driver:
    def __init__(self, ctx, numqi, shard):
        import torch
        self.ctx = ctx
        self.numqi = numqi
        self.M = numqi.manifold
        self.torch = torch
        self.rng = ctx.rng
        self.part = shard.get('part', 0)
        self.nparts = shard.get('nparts', 1)
        self.counter = 0
        self.ncall = 0
        self.mon = None
        self.dims = [2, 3, 4] if ctx.tier == 'quick' else [2, 3, 4, 5, 6]
        self.nseed = 1 if ctx.tier == 'quick' else 2
        self.scales = [1e-9, 0.3, 3, 30, 100]  # 1e-9: tiny parameters (normalising maps must not use absolute regularisers)

    def mine(self):
        self.counter += 1
        return self.counter % self.nparts == self.part

    def illcond(self, th, dim, rank, layout):
        """True when the conditioning of X^H X makes the tolerance exceed the decision threshold for this precision: such a theta is
        beyond 'the stated conditioning bound of the map' and the call may even fail inside the factorisation (inconclusive, not judged)."""
        kappa = self.mon.gram_cond(np.asarray(th), dim, rank, layout)
        eps = 1.2e-7 if np.asarray(th).dtype == np.float32 else 2.3e-16
        thr = 1e-2 if eps > 1e-10 else 1e-6
        return (not np.isfinite(kappa)) or 200.0 * eps * max(4, dim * rank) * max(1.0, kappa) > thr

    def call(self, name, f, n, extra_args, desc, scales=None, real_only_dtypes=False, elementwise=False, structured=True, precheck=None):
        """drive one functional map over backends x dtypes x batch shapes x scales."""
        ctx, rng, torch = self.ctx, self.rng, self.torch
        if not self.mine():
            return
        for seed_i in range(self.nseed):
            for np_dtype in (np.float64, np.float32):
                for backend in ('numpy', 'torch'):
                    shapes = batch_shapes(rng)
                    for bi, shape in enumerate(shapes):
                        for scale in (scales or self.scales):
                            if np_dtype == np.float32 and scale > 30 and desc.get('f32_cap30'):
                                continue
                            st = structured and bi == 0 and backend == 'numpy' and seed_i == 0
                            for tdesc, th in thetas(rng, n, shape, scale, np_dtype, structured=st):
                                if elementwise:
                                    th = th[..., 0] if th.shape[-1] == 1 and shape != () else th
                                if precheck is not None and precheck(th):
                                    ctx.inconclusive(f'illcond-input/{name}')
                                    continue
                                t = torch.tensor(th) if backend == 'torch' else th
                                case = {**desc, 'map': name, 'backend': backend, 'dtype': np.dtype(np_dtype).name, 'batch': shape, 'scale': scale, 'theta': tdesc}
                                ctx.set_case(case)
                                ctx.case(name, desc, backend, np.dtype(np_dtype).name, th, nontrivial=bool(np.any(th != 0)),
                                         sample=case if rng.random() < 0.0015 else None)
                                with ctx.guard(name):
                                    self.ncall += 1
                                    if backend == 'numpy' and self.ncall % 5 == 0:
                                        # history: call, edit the result in place, call again with the same theta object
                                        ctx.history_probe(name, f, t, *extra_args)
                                    elif backend == 'numpy' and self.ncall % 5 == 1 and th.ndim >= 2:
                                        # memory layout: a non-contiguous view with the same values must give the same point
                                        buf = np.zeros(th.shape[:-1] + (2 * th.shape[-1],), dtype=th.dtype)
                                        buf[..., ::2] = th
                                        r_view = f(buf[..., ::2], *extra_args)
                                        r_ref = f(th, *extra_args)
                                        ctx.check(np.array_equal(to_numpy(r_view), to_numpy(r_ref), equal_nan=True), f'{name}/layout-dependent',
                                                  f'{name}: a non-contiguous view of theta gives a different result than a contiguous copy with the same values',
                                                  None, point='history/layout')
                                    elif self.ncall % 5 == 2:
                                        # API surface: the same call with every argument passed by keyword (names of the shipped signature)
                                        import inspect
                                        names = list(inspect.signature(ctx.orig(f)).parameters)
                                        f(**dict(zip(names, (t,) + tuple(extra_args))))
                                    else:
                                        f(t, *extra_args)

    def module(self, name, ctor, kwargs_list, scales=(None, 1e-9, 3.0, 30.0), precheck=None):
        ctx, torch = self.ctx, self.torch
        for kw in kwargs_list:
            if not self.mine():
                continue
            for scale in scales:
                ctx.set_case({'module': name, 'options': {k: str(v) for k, v in kw.items()}, 'theta_scale': scale})
                ctx.case('module', name, {k: str(v) for k, v in kw.items()}, scale)
                with ctx.guard(f'forward/{name}'):
                    m = ctor(**kw)
                    if scale is not None:
                        with torch.no_grad():
                            for p in m.parameters():
                                p.copy_(torch.tensor(self.rng.normal(size=tuple(p.shape)) * scale, dtype=p.dtype))
                    if precheck is not None and precheck(m):
                        ctx.inconclusive(f'illcond-input/forward/{name}')
                        continue
                    m()
                    # object lifecycle: a deep copy owns its parameters - evaluated with new parameters it must be the chart at ITS
                    # theta (the forward contracts compare with the functional form at the instance's own parameters), and the
                    # original must be unaffected
                    if scale is not None and scale >= 0.1:
                        m2 = copy.deepcopy(m)
                        with torch.no_grad():
                            for p in m2.parameters():
                                p.copy_(torch.tensor(self.rng.normal(size=tuple(p.shape)) * min(scale, 3.0), dtype=p.dtype))
                        if precheck is None or not precheck(m2):
                            m2()
                        m()


def run_scalar(D):
    M = D.M
    D.ctx.workload('exhaustive')
    D.call('to_positive_real_softplus', M.to_positive_real_softplus, 3, (), {}, structured=True)
    D.call('to_positive_real_exp', M.to_positive_real_exp, 3, (), {'f32_cap30': True}, structured=True)
    for lower, upper in [(-1.0, 1.0), (0.0, 5.0), (2.0, 2.5), (-3e3, 4e-3), (1e-8, 2e-8)]:
        D.call('to_open_interval', M.to_open_interval, 3, (lower, upper), {'lower': lower, 'upper': upper})
    t = D.torch
    kws = []
    for dt in (t.float32, t.float64):
        for bs in (None, 1, 3):
            for method in ('softplus', 'exp'):
                kws.append(dict(batch_size=bs, method=method, dtype=dt))
    D.module('PositiveReal', M.PositiveReal, kws)
    kws = [dict(lower=lo, upper=up, batch_size=bs, dtype=dt) for lo, up in [(-1.0, 1.0), (0.0, 5.0), (-np.pi, np.pi)] for bs in (None, 1, 3) for dt in (t.float32, t.float64)]
    D.module('OpenInterval', M.OpenInterval, kws)


def run_sphere_ball(D):
    M, t = D.M, D.torch
    D.ctx.workload('exhaustive')
    for dim in D.dims:
        for is_real in (True, False):
            n = dim if is_real else 2 * dim
            D.call('to_sphere_quotient', M.to_sphere_quotient, n, (is_real,), {'dim': dim, 'is_real': is_real})
            D.call('to_sphere_coordinate', M.to_sphere_coordinate, n - 1, (is_real,), {'dim': dim, 'is_real': is_real})
            D.call('to_ball', M.to_ball, n, (is_real,), {'dim': dim, 'is_real': is_real})
    kws = []
    for dim in D.dims:
        for dt in (t.float32, t.float64, t.complex64, t.complex128):
            for bs in (None, 1, 3):
                kws.append(dict(dim=dim, batch_size=bs, dtype=dt))
    D.module('Ball', M.Ball, kws)
    D.module('Sphere', M.Sphere, [dict(method=me, **kw) for kw in kws for me in ('quotient', 'coordinate')])
    D.module('quantum_state', M.quantum_state, [dict(dim=d, batch_size=bs, method=me, dtype=dt) for d in D.dims for bs in (None, 2) for me in ('quotient', 'coordinate')
                                               for dt in (t.complex64, t.complex128)])


def run_prob(D):
    M, t = D.M, D.torch
    D.ctx.workload('exhaustive')
    for dim in D.dims + [7, 12]:
        D.call('to_discrete_probability_softmax', M.to_discrete_probability_softmax, dim, (), {'dim': dim})
        D.call('to_discrete_probability_sphere', M.to_discrete_probability_sphere, dim, (), {'dim': dim})
    kws = []
    for dim in D.dims:
        for dt in (t.float32, t.float64):
            for bs in (None, 1, 3):
                for me in ('softmax', 'sphere'):
                    for w in (None, 'rand', 'ints', 'int-dtype'):
                        weight = None if w is None else (D.rng.uniform(0.2, 5, size=dim) if w == 'rand' else
                                                         (np.arange(1, dim + 1).astype(np.float64) if w == 'ints' else np.arange(2, dim + 2)))
                        kws.append(dict(dim=dim, batch_size=bs, method=me, weight=weight, dtype=dt))
    D.module('DiscreteProbability', M.DiscreteProbability, kws)


def run_psd(D):
    M, t = D.M, D.torch
    D.ctx.workload('exhaustive')
    for dim in D.dims:
        for rank in range(1, dim + 1):
            for is_real in (True, False):
                N0 = (rank * (2 * dim - rank + 1)) // 2
                n = N0 if is_real else 2 * N0 - rank
                D.call('to_trace1_psd_cholesky', M.to_trace1_psd_cholesky, n, (dim, rank), {'dim': dim, 'rank': rank, 'is_real': is_real})
                n = rank + dim * rank if is_real else rank + 2 * dim * rank
                D.call('to_trace1_psd_ensemble', M.to_trace1_psd_ensemble, n, (dim, rank), {'dim': dim, 'rank': rank, 'is_real': is_real}, structured=False)
    # rank=None means full rank
    D.call('to_trace1_psd_cholesky', M.to_trace1_psd_cholesky, 6, (3,), {'dim': 3, 'rank': None})
    kws = []
    for dim in D.dims:
        for rank in [None] + list(range(1, dim + 1)):
            for dt in (t.float32, t.float64, t.complex64, t.complex128):
                for bs in (None, 2):
                    for me in ('cholesky', 'ensemble'):
                        kws.append(dict(dim=dim, rank=rank, batch_size=bs, method=me, dtype=dt))
    D.module('Trace1PSD', M.Trace1PSD, kws)
    D.module('density_matrix', M.density_matrix, [dict(dim=d, rank=r, batch_size=bs, method=me, dtype=dt) for d in D.dims[:2] for r in (None, 1, 2) for bs in (None, 2)
                                                 for me in ('cholesky', 'ensemble') for dt in (t.complex64, t.complex128)])
    # symmetric_matrix_to_trace1PSD
    rng = D.rng
    for dim in D.dims + [6, 7]:
        for is_real in (True, False):
            for backend in ('numpy', 'torch'):
                for shape in [(), (3,), (2, 2)]:
                    for scale in (0.3, 3, 30):
                        A = rng.normal(size=shape + (dim, dim)) + (0 if is_real else 1j * rng.normal(size=shape + (dim, dim)))
                        A = (A + np.swapaxes(A.conj(), -1, -2)) * scale / 2
                        x = t.tensor(A) if backend == 'torch' else A
                        D.ctx.set_case({'map': 'symmetric_matrix_to_trace1PSD', 'dim': dim, 'is_real': is_real, 'backend': backend, 'batch': shape, 'scale': scale})
                        D.ctx.case('sym2psd', A)
                        with D.ctx.guard('symmetric_matrix_to_trace1PSD'):
                            M.symmetric_matrix_to_trace1PSD(x)


def run_symmetric(D):
    M, t = D.M, D.torch
    D.ctx.workload('exhaustive')
    for dim in D.dims:
        for is_real in (True, False):
            for t0 in (False, True):
                for n1 in (False, True):
                    n = (dim * (dim + 1) // 2 if is_real else dim * dim) - (1 if t0 else 0)
                    D.call('to_symmetric_matrix', M.to_symmetric_matrix, n, (dim, t0, n1), {'dim': dim, 'is_real': is_real, 'is_trace0': t0, 'is_norm1': n1})
    kws = [dict(dim=d, batch_size=bs, is_trace0=t0, is_norm1=n1, dtype=dt) for d in D.dims for bs in (None, 2) for t0 in (False, True) for n1 in (False, True)
           for dt in (t.float32, t.float64, t.complex64, t.complex128)]
    D.module('SymmetricMatrix', M.SymmetricMatrix, kws)


def run_so(D):
    M, t = D.M, D.torch
    D.ctx.workload('exhaustive')
    for dim in D.dims:
        for is_real in (True, False):
            n = dim * (dim - 1) // 2 if is_real else dim * dim - 1
            D.call('to_special_orthogonal_exp', M.to_special_orthogonal_exp, n, (dim,), {'dim': dim, 'is_real': is_real})
            for order in (1, 2, 3):
                D.call('to_special_orthogonal_cayley', M.to_special_orthogonal_cayley, n, (dim, order), {'dim': dim, 'is_real': is_real, 'order': order})
    kws = [dict(dim=d, batch_size=bs, method=me, cayley_order=o, dtype=dt) for d in D.dims for bs in (None, 2) for me, o in (('exp', 2), ('cayley', 1), ('cayley', 2), ('cayley', 3))
           for dt in (t.float32, t.float64, t.complex64, t.complex128)]
    D.module('SpecialOrthogonal', M.SpecialOrthogonal, kws)
    D.module('quantum_gate', M.quantum_gate, [dict(dim=d, batch_size=bs, method=me, dtype=dt) for d in D.dims[:2] for bs in (None, 2) for me in ('exp', 'cayley') for dt in (t.complex64, t.complex128)])


def run_stiefel(D, which):
    M, t = D.M, D.torch
    D.ctx.workload('exhaustive')
    for dim in D.dims:
        for rank in range(1, dim + 1):
            for is_real in (True, False):
                f = 1 if is_real else 2
                d = {'dim': dim, 'rank': rank, 'is_real': is_real}
                if which == 'a':
                    D.call('to_stiefel_polar', M.to_stiefel_polar, f * dim * rank, (dim, rank), d, structured=False,
                           precheck=lambda th, dim=dim, rank=rank: D.illcond(th, dim, rank, 'full'))
                    D.call('to_stiefel_qr', M.to_stiefel_qr, f * dim * rank, (dim, rank), d, structured=False)
                    n = f * (dim * rank - rank * (rank + 1) // 2)
                    if n > 0:
                        D.call('to_stiefel_choleskyL', M.to_stiefel_choleskyL, n, (dim, rank), d, scales=[1e-9, 0.3, 3, 10],
                               precheck=lambda th, dim=dim, rank=rank: D.illcond(th, dim, rank, 'chol'))
                else:
                    N0 = dim * rank - rank * (rank + 1) // 2
                    if is_real:
                        if N0 > 0:
                            D.call('to_stiefel_euler', M.to_stiefel_euler, N0, (dim, rank, False), {**d, 'with_phase': False})
                    else:
                        if N0 > 0:
                            D.call('to_stiefel_euler', M.to_stiefel_euler, 2 * N0, (dim, rank, False), {**d, 'with_phase': False})
                        D.call('to_stiefel_euler', M.to_stiefel_euler, 2 * N0 + rank, (dim, rank, True), {**d, 'with_phase': True})
    if which == 'b':
        kws = []
        for dim in D.dims:
            for rank in range(1, dim + 1):
                for dt in (t.float32, t.float64, t.complex64, t.complex128):
                    for bs in (None, 3):
                        for me in ('choleskyL', 'qr', 'polar', 'so-exp', 'so-cayley', 'euler'):
                            for ph in ((False, True) if me == 'euler' else (False,)):
                                is_real = dt in (t.float32, t.float64)
                                if me == 'choleskyL' and dim * rank - rank * (rank + 1) // 2 == 0:
                                    continue
                                if me == 'euler' and dim * rank - rank * (rank + 1) // 2 == 0 and (is_real or not ph):
                                    continue
                                kws.append(dict(dim=dim, rank=rank, batch_size=bs, method=me, euler_with_phase=ph, dtype=dt))
        def pre(m):
            lay = {'polar': 'full', 'choleskyL': 'chol'}.get(m.method)
            return lay is not None and D.illcond(m.theta.detach().numpy(), m.dim, m.rank, lay)
        D.module('Stiefel', M.Stiefel, kws, scales=(None, 1e-9, 3.0, 10.0), precheck=pre)


def run_compose(D):
    M, t = D.M, D.torch
    D.ctx.workload('exhaustive')
    kws = []
    for dA, dB in [(2, 2), (2, 3), (3, 2), (3, 3)] + ([(2, 4), (4, 3)] if D.ctx.tier == 'thorough' else []):
        for nc in (None, 2, 3):  # num_cha=1 is rejected by DiscreteProbability (dim>=2): inadmissible
            for bs in (None, 1, 3):
                for dt in (t.complex128, t.complex64, t.float64, t.float32):
                    kws.append(dict(dimA=dA, dimB=dB, num_cha=nc, batch_size=bs, dtype=dt))
    D.module('SeparableDensityMatrix', M.SeparableDensityMatrix, kws)
    kws = []
    dims = [1, 2, 3] if D.ctx.tier == 'quick' else [1, 2, 3, 4]
    for di in dims:
        for do in dims:
            for cr in (None, 1, 2):
                r = cr or di * do
                if r * do < di or r * do < 2:
                    continue
                for bs in (None, 1, 3):
                    for me in ('qr', 'polar', 'choleskyL', 'so-exp', 'so-cayley', 'euler'):
                        for ph in ((False, True) if me == 'euler' else (False,)):
                            N0 = r * do * di - di * (di + 1) // 2
                            if me in ('choleskyL',) and N0 == 0:
                                continue
                            if me == 'euler' and N0 == 0 and not ph:
                                continue
                            for rk in ('kraus', 'choi'):
                                for dt in (t.complex128, t.complex64):
                                    kws.append(dict(dim_in=di, dim_out=do, choi_rank=cr, batch_size=bs, method=me, euler_with_phase=ph, return_kind=rk, dtype=dt))
    def pre(m):
        sm = m.manifold
        lay = {'polar': 'full', 'choleskyL': 'chol'}.get(sm.method)
        return lay is not None and D.illcond(sm.theta.detach().numpy(), sm.dim, sm.rank, lay)
    D.module('QuantumChannel', M.QuantumChannel, kws, scales=(None, 1e-9, 3.0, 10.0), precheck=pre)


class _DriverGuard:
    """an exception escaping from a realistic driver (optimizer failure, inadmissible model arguments) says nothing about the maps:
    it is counted inconclusive; the contracts attached to the maps still judge every call the driver made."""

    def __init__(self, ctx, name):
        self.ctx, self.name = ctx, name

    def __enter__(self):
        return self

    def __exit__(self, et, ev, tb):
        if et is not None and issubclass(et, Exception):
            self.ctx.inconclusive(f'driver-error/{self.name}/{et.__name__}')
            return True
        return False


def run_drivers(D):
    """realistic: the library's own optimizers drive the maps (thetas an optimizer actually visits)."""
    ctx, numqi, t, rng = D.ctx, D.numqi, D.torch, D.rng
    ctx.workload('realistic')
    M = D.M
    n_it = 3 if ctx.tier == 'quick' else 10
    for it in range(n_it):
        dim = int(rng.integers(2, 5))
        ctx.set_case({'driver': 'TwoHermitianSumModel', 'dim': dim})
        with _DriverGuard(ctx, 'TwoHermitianSumModel'):
            model = M.TwoHermitianSumModel(dim)
            hs = [numqi.random.rand_hermitian_matrix(dim, seed=int(rng.integers(2**31))) for _ in range(3)]
            model.set_matrix(*hs)
            numqi.optimize.minimize(model, theta0=('uniform', -3, 3), num_repeat=1, tol=1e-8, print_every_round=0, maxiter=20, seed=int(rng.integers(2**31)))
            ctx.case('driver-2h', dim, it)
        rank = int(rng.integers(1, 3))
        dim = rank + int(rng.integers(2, 4))  # SpecialOrthogonal(dim-rank) needs dim-rank>=2
        ctx.set_case({'driver': 'StiefelManifoldDistanceModel', 'dim': dim, 'rank': rank})
        with _DriverGuard(ctx, 'StiefelManifoldDistanceModel'):
            for par in ('exp', 'cayley'):
                model = M.StiefelManifoldDistanceModel(dim, rank, parametrize=par)
                s0 = numqi.random.rand_haar_unitary(dim, seed=int(rng.integers(2**31)))[:, :rank]
                s1 = numqi.random.rand_haar_unitary(dim, seed=int(rng.integers(2**31)))[:, :rank]
                model.set_space(s0, s1)
                numqi.optimize.minimize(model, theta0=('uniform', -3, 3), num_repeat=1, tol=1e-8, print_every_round=0, maxiter=15, seed=int(rng.integers(2**31)))
            ctx.case('driver-stiefel', dim, rank, it)
        ctx.set_case({'driver': 'EntanglementFormationModel'})
        with _DriverGuard(ctx, 'EntanglementFormationModel'):
            rho = numqi.random.rand_density_matrix(4, seed=int(rng.integers(2**31)))
            model = numqi.entangle.EntanglementFormationModel(2, 2, num_term=int(rng.integers(4, 8)))
            model.set_density_matrix(rho)
            numqi.optimize.minimize(model, theta0=('uniform', -3, 3), num_repeat=1, tol=1e-8, print_every_round=0, maxiter=15, seed=int(rng.integers(2**31)))
            ctx.case('driver-eof', rho)
        # a composed model: channel applied to a parametrized state, optimised for a random linear functional
        ctx.set_case({'driver': 'channel+state'})
        with _DriverGuard(ctx, 'channel-state'):
            class Dummy(t.nn.Module):
                def __init__(self):
                    super().__init__()
                    self.ch = M.QuantumChannel(2, 3, choi_rank=2, method=['qr', 'polar', 'euler', 'so-exp'][it % 4], return_kind='kraus')
                    self.st = M.Trace1PSD(2, rank=[1, 2][it % 2], method=['cholesky', 'ensemble'][it % 2], dtype=t.complex128)
                    self.H = t.tensor(numqi.random.rand_hermitian_matrix(3, seed=it))

                def forward(self):
                    K = self.ch()
                    rho = self.st()
                    out = t.einsum('kab,bc,kdc->ad', K, rho, K.conj())
                    return t.einsum('ab,ba->', out, self.H).real

            numqi.optimize.minimize(Dummy(), theta0=('uniform', -3, 3), num_repeat=1, tol=1e-8, print_every_round=0, maxiter=15, seed=int(rng.integers(2**31)))
            ctx.case('driver-channel', it)


def run(ctx, shard):
    import numqi
    mon = Mon(ctx, numqi)
    mon.install()
    D = Driver(ctx, numqi, shard)
    D.mon = mon
    kind = shard['kind']
    if kind == 'scalar':
        run_scalar(D)
    elif kind == 'sphere-ball':
        run_sphere_ball(D)
    elif kind == 'prob':
        run_prob(D)
    elif kind == 'psd':
        run_psd(D)
    elif kind == 'symmetric':
        run_symmetric(D)
    elif kind == 'so':
        run_so(D)
    elif kind == 'stiefel-a':
        run_stiefel(D, 'a')
    elif kind == 'stiefel-b':
        run_stiefel(D, 'b')
    elif kind == 'compose':
        run_compose(D)
    elif kind == 'drivers':
        run_drivers(D)
    elif kind == 'repo-tests':
        from vmon.repotests import run_repo_tests
        run_repo_tests(ctx, ['test_manifold.py', 'test_manifold_ABk.py'])


# thorough tier: every random shard is run this many times with independent random streams (see vmon/runner.py get_shards)
THOROUGH_REPEAT = 6
